//! C21 / C22 / C23 harness: runs the generated corpus of `dfir_syntax!` programs (see build.rs)
//! tick by tick on generated input histories, prints the program (node / sink / perturb lines)
//! and the per-tick inputs as op lines, the per-tick sink outputs of the *real* compiled
//! dataflow as answers, and evaluates the documented clauses directly (property oracle).
#![allow(clippy::type_complexity)]
use hv_common::{Args, Recorder, Rng};
use std::collections::BTreeMap;

use hv_dfir_corpus::{ProgInfo, PROGS};

// ---------------------------------------------------------------------------------------------

fn sink_modes(desc: &str) -> Vec<bool> {
    // true = seq
    desc.lines().filter(|l| l.starts_with("sink ")).map(|l| l.ends_with(" seq")).collect()
}

fn show_stream(xs: &[String], seq: bool) -> String {
    if xs.is_empty() {
        return "-".into();
    }
    if seq {
        xs.join(";")
    } else {
        let mut v = xs.to_vec();
        v.sort();
        v.join(";")
    }
}

fn show_outputs(outs: &[Vec<String>], modes: &[bool]) -> String {
    outs.iter().zip(modes.iter()).map(|(o, &m)| show_stream(o, m)).collect::<Vec<_>>().join("|")
}

fn show_inputs(inputs: &[Vec<Vec<u64>>], t: usize) -> String {
    inputs
        .iter()
        .map(|src| if src[t].is_empty() { "-".to_string() } else { src[t].iter().map(|x| x.to_string()).collect::<Vec<_>>().join(";") })
        .collect::<Vec<_>>()
        .join("|")
}

fn parse_inputs(s: &str) -> Option<Vec<Vec<u64>>> {
    s.split('|').map(|p| if p == "-" { Some(vec![]) } else { p.split(';').map(|x| x.parse().ok()).collect() }).collect()
}

/// per-tick inputs: small domain so that keys collide, duplicates and empty ticks are frequent
fn gen_inputs(rng: &mut Rng, nsrc: usize, ticks: usize, tier: &str) -> Vec<Vec<Vec<u64>>> {
    let dom = *rng.pick(&[4u64, 7, 12, 30]);
    let maxlen = if tier == "thorough" { 7 } else { 5 };
    (0..nsrc)
        .map(|_| {
            (0..ticks)
                .map(|_| {
                    if rng.chance(1, 5) {
                        vec![]
                    } else {
                        let n = rng.range(0, maxlen) as usize;
                        (0..n).map(|_| rng.below(dom)).collect()
                    }
                })
                .collect()
        })
        .collect()
}

fn find_prog(name: &str) -> Option<&'static ProgInfo> {
    PROGS.iter().find(|p| p.name == name)
}

fn bag(xs: &[String]) -> Vec<String> {
    let mut v = xs.to_vec();
    v.sort();
    v
}
fn counts(xs: &[u64]) -> BTreeMap<u64, usize> {
    let mut m = BTreeMap::new();
    for x in xs {
        *m.entry(*x).or_insert(0) += 1;
    }
    m
}

/// C23 oracle: the documented result of the blocking operator computed directly from the source
/// inputs (the pass-through pipelines in front of it preserve the multiset of items).
fn blocking_oracle(p: &ProgInfo, tag: &str, sigp: &str, inputs: &[Vec<Vec<u64>>], outs: &[Vec<Vec<String>>], rec: &mut Recorder) {
    if let Some(rest) = tag.strip_prefix("evens ") {
        // the pipeline starts with `partition(2)` whose port `[0]` (items with hv(x) % 2 == 0, i.e. the even
        // ones) leads to the operator; port `[1]` is dropped
        let mut f: Vec<Vec<Vec<u64>>> = inputs.to_vec();
        for tick in f[0].iter_mut() {
            tick.retain(|x| x % 2 == 0);
        }
        return blocking_oracle(p, rest, sigp, &f, outs, rec);
    }
    let w: Vec<&str> = tag.split(' ').collect();
    if w.is_empty() || tag.is_empty() {
        return;
    }
    let ticks = outs.len();
    // the observed sink of the blocking operator is the last sink
    let last = p.nsink - 1;
    let is_static = |s: &str| s == "static";
    let mut cum0: Vec<u64> = vec![];
    let mut cum1: Vec<u64> = vec![];
    let mut emitted: Vec<u64> = vec![];
    let mut prev0: Vec<u64> = vec![];
    let sig = format!("{sigp}@{}", w[0]);
    for t in 0..ticks {
        let i0 = &inputs[0][t];
        let i1: Vec<u64> = if inputs.len() > 1 { inputs[1][t].clone() } else { vec![] };
        cum0.extend(i0.iter().copied());
        cum1.extend(i1.iter().copied());
        let got = bag(&outs[t][last]);
        let detail = |exp: &Vec<String>| format!("prog={} tick={} expected={} got={}", p.name, t, show_stream(exp, true), show_stream(&got, true));
        let expect = |exp: Vec<String>, rec: &mut Recorder| {
            let e = bag(&exp);
            rec.check(e == got, &sig, &detail(&e));
        };
        match w[0] {
            "fold" => {
                let xs = if is_static(w[1]) { &cum0 } else { i0 };
                let v = if w[2] == "sum" { xs.iter().sum::<u64>() } else { xs.len() as u64 };
                expect(vec![v.to_string()], rec);
            }
            "reduce" | "lattice_reduce" => {
                let xs = if is_static(w[1]) { &cum0 } else { i0 };
                expect(xs.iter().max().map(|m| vec![m.to_string()]).unwrap_or_default(), rec);
            }
            "sort" => {
                let mut v = i0.clone();
                v.sort();
                let exp: Vec<String> = v.iter().map(|x| x.to_string()).collect();
                rec.check(exp == outs[t][last], &sig, &detail(&exp));
            }
            "sortk_items" | "sortk_keys" | "sortk_fst" => {
                // sort_by_key with the key `&x.1` of (x % 4, x) / `&x.1` of (x, x % 3) then the key / `&x.0`
                // of (x % 4, x) then the key: the exact sequence
                let mut v = i0.clone();
                let exp: Vec<String> = match w[0] {
                    "sortk_items" => {
                        v.sort();
                        v.iter().map(|x| format!("({},{})", x % 4, x)).collect()
                    }
                    "sortk_keys" => {
                        let mut k: Vec<u64> = v.iter().map(|x| x % 3).collect();
                        k.sort();
                        k.iter().map(|x| x.to_string()).collect()
                    }
                    _ => {
                        let mut k: Vec<u64> = v.iter().map(|x| x % 4).collect();
                        k.sort();
                        k.iter().map(|x| x.to_string()).collect()
                    }
                };
                rec.check(exp == outs[t][last], &sig, &format!("prog={} tick={} expected={} got={}", p.name, t, show_stream(&exp, true), show_stream(&outs[t][last], true)));
            }
            "persist" => expect(cum0.iter().map(|x| x.to_string()).collect(), rec),
            "unique" => {
                let mut seen: Vec<u64> = if is_static(w[1]) { emitted.clone() } else { vec![] };
                let mut exp = vec![];
                for x in i0 {
                    if !seen.contains(x) {
                        seen.push(*x);
                        exp.push(x.to_string());
                    }
                }
                if is_static(w[1]) {
                    emitted = seen;
                }
                expect(exp, rec);
            }
            "multiset_delta" => {
                let pc = counts(&prev0);
                let cc = counts(i0);
                let mut exp = vec![];
                for (x, c) in &cc {
                    let pcount = pc.get(x).copied().unwrap_or(0);
                    for _ in 0..c.saturating_sub(pcount) {
                        exp.push(x.to_string());
                    }
                }
                expect(exp, rec);
                prev0 = i0.clone();
            }
            "fold_keyed" | "reduce_keyed" => {
                let xs = if is_static(w[1]) { &cum0 } else { i0 };
                let mut m: BTreeMap<u64, u64> = BTreeMap::new();
                for x in xs {
                    let e = m.entry(x % 3).or_insert(0);
                    if w[0] == "fold_keyed" { *e += x } else { *e = (*e).max(*x) }
                }
                expect(m.iter().map(|(k, v)| format!("({k},{v})")).collect(), rec);
            }
            "anti_join" | "difference" => {
                let pos = if is_static(w[1]) { &cum0 } else { i0 };
                let neg = if is_static(w[2]) { &cum1 } else { &i1 };
                let exp: Vec<String> = if w[0] == "anti_join" {
                    pos.iter().filter(|x| !neg.iter().any(|n| n % 3 == *x % 3)).map(|x| format!("({},{})", x % 3, x)).collect()
                } else {
                    pos.iter().filter(|x| !neg.contains(x)).map(|x| x.to_string()).collect()
                };
                expect(exp, rec);
            }
            "join" => {
                let l = if is_static(w[1]) { &cum0 } else { i0 };
                let r = if is_static(w[2]) { &cum1 } else { &i1 };
                let mut ls: Vec<u64> = l.clone();
                ls.sort();
                ls.dedup();
                let mut rs: Vec<u64> = r.clone();
                rs.sort();
                rs.dedup();
                let mut exp = vec![];
                for a in &ls {
                    for b in &rs {
                        if a % 3 == b % 3 {
                            exp.push(format!("({},({},{}))", a % 3, a, b));
                        }
                    }
                }
                expect(exp, rec);
            }
            "cross_join" => {
                // set semantics on both sides (a join on the unit key)
                let l = if is_static(w[1]) { &cum0 } else { i0 };
                let r = if is_static(w[2]) { &cum1 } else { &i1 };
                let mut ls: Vec<u64> = l.clone();
                ls.sort();
                ls.dedup();
                let mut rs: Vec<u64> = r.clone();
                rs.sort();
                rs.dedup();
                let mut exp = vec![];
                for a in &ls {
                    for b in &rs {
                        exp.push(format!("({a},{b})"));
                    }
                }
                expect(exp, rec);
            }
            "cross_join_multiset" => {
                let l = if is_static(w[1]) { &cum0 } else { i0 };
                let r = if is_static(w[2]) { &cum1 } else { &i1 };
                let mut exp = vec![];
                for a in l {
                    for b in r {
                        exp.push(format!("({a},{b})"));
                    }
                }
                expect(exp, rec);
            }
            "zip" => {
                if !is_static(w[1]) && !is_static(w[2]) {
                    rec.check(got.len() == i0.len().min(i1.len()), &sig, &format!("prog={} tick={} zip length {} vs {}", p.name, t, got.len(), i0.len().min(i1.len())));
                    // the pass-through stages may permute a stream, never change its multiset: the left
                    // components are items of port 0's source, the right components of port 1's source
                    let side = |k: usize| -> Option<Vec<u64>> {
                        got.iter().map(|s| s.trim_matches(|c| c == '(' || c == ')').split(',').nth(k).and_then(|x| x.parse().ok())).collect()
                    };
                    let sub = |xs: &Vec<u64>, of: &Vec<u64>| counts(xs).iter().all(|(x, c)| counts(of).get(x).copied().unwrap_or(0) >= *c);
                    let ok = match (side(0), side(1)) {
                        (Some(a), Some(b)) => sub(&a, i0) && sub(&b, &i1),
                        _ => false,
                    };
                    rec.check(ok, &sig, &format!("prog={} tick={} zip pairs {} are not (item of input 0, item of input 1) of {}", p.name, t, show_stream(&got, true), show_inputs(inputs, t).replace('|', " / ")));
                }
            }
            _ => {}
        }
    }
}

/// The real partition of a corpus program in terms of the model's node ids: the subgraphs in
/// `subgraph_toposort` order, each listing the `n<id>` statements whose operators it contains
/// (first occurrence of an id only; handoffs and the anonymous `for_each` sinks are not nodes).
fn real_schedule(src: &str) -> Option<String> {
    let code = syn::parse_str::<dfir_lang::parse::DfirCode>(src).ok()?;
    let out = hv_common::catch(std::panic::AssertUnwindSafe(|| dfir_lang::graph::build_dfir_code(code, &quote::quote!(dfir_rs)))).ok()?.ok()?;
    let g = &out.partitioned_graph;
    let mut seen = std::collections::BTreeSet::new();
    let mut groups: Vec<String> = vec![];
    for &sg in g.subgraph_toposort() {
        let mut ids: Vec<String> = vec![];
        for &node in g.subgraph(sg) {
            let Some(v) = g.node_varname(node) else { continue };
            let name = v.0.to_string();
            let digits: String = name.trim_start_matches('n').chars().take_while(|c| c.is_ascii_digit()).collect();
            let Ok(id) = digits.parse::<usize>() else { continue };
            if seen.insert(id) {
                ids.push(id.to_string());
            }
        }
        if !ids.is_empty() {
            groups.push(ids.join(","));
        }
    }
    Some(groups.join("|"))
}

thread_local! {
    static SCHED_CACHE: std::cell::RefCell<BTreeMap<&'static str, Option<String>>> = const { std::cell::RefCell::new(BTreeMap::new()) };
}

/// an item in its canonical text: number, `()`, `(a,b)` (Vec / Option are cons chains)
#[derive(Clone, Debug, PartialEq, Eq)]
enum Val {
    U,
    N(u64),
    P(Box<Val>, Box<Val>),
}
fn parse_val(s: &str) -> Option<Val> {
    fn go(b: &[u8], i: &mut usize) -> Option<Val> {
        if *i < b.len() && b[*i] == b'(' {
            *i += 1;
            if *i < b.len() && b[*i] == b')' {
                *i += 1;
                return Some(Val::U);
            }
            let a = go(b, i)?;
            if *i >= b.len() || b[*i] != b',' {
                return None;
            }
            *i += 1;
            let c = go(b, i)?;
            if *i >= b.len() || b[*i] != b')' {
                return None;
            }
            *i += 1;
            Some(Val::P(Box::new(a), Box::new(c)))
        } else {
            let st = *i;
            while *i < b.len() && b[*i].is_ascii_digit() {
                *i += 1;
            }
            std::str::from_utf8(&b[st..*i]).ok()?.parse().ok().map(Val::N)
        }
    }
    let mut i = 0;
    let v = go(s.as_bytes(), &mut i)?;
    (i == s.len()).then_some(v)
}
/// Rust's `Ord` of the item types of the corpus on their canonical form (tuples lexicographic; `None` /
/// the empty `Vec` = `()` before `Some` / a non-empty `Vec`)
fn val_cmp(a: &Val, b: &Val) -> std::cmp::Ordering {
    use std::cmp::Ordering::*;
    match (a, b) {
        (Val::N(x), Val::N(y)) => x.cmp(y),
        (Val::U, Val::U) => Equal,
        (Val::U, _) => Less,
        (_, Val::U) => Greater,
        (Val::P(a0, a1), Val::P(b0, b1)) => val_cmp(a0, b0).then_with(|| val_cmp(a1, b1)),
        (Val::N(_), Val::P(..)) => Less,
        (Val::P(..), Val::N(_)) => Greater,
    }
}

/// sort / sort_by_key as documented: whatever feeds a sink straight from a sort (or through a union with an
/// empty source, or a pass-through map) comes out in non-decreasing order of the key - on the raw emitted
/// sequence, also where the corpus compares the sink as a bag (unstable sort on non-injective keys).
fn sorted_oracle(name: &str, desc: &str, outs: &[Vec<Vec<String>>], sigp: &str, rec: &mut Recorder) {
    let nodes: Vec<Vec<&str>> = desc.lines().filter(|l| l.starts_with("node ")).map(|l| l.split(' ').collect()).collect();
    let find = |id: &str| nodes.iter().find(|w| w[1] == id);
    let refs = |w: &Vec<&str>| -> Vec<String> { w.iter().skip_while(|x| **x != "<-").skip(1).map(|r| r.split('.').next().unwrap_or("").to_string()).collect() };
    for (k, l) in desc.lines().filter(|l| l.starts_with("sink ")).enumerate() {
        let Some(mut id) = l.split(' ').nth(2).and_then(|r| r.split('.').next()).map(|x| x.to_string()) else { continue };
        // (key projection of the sorting operator, what the pass-through stages behind it did to the item)
        let mut post: Vec<&str> = vec![];
        let mut key: Option<&str> = None;
        for _ in 0..8 {
            let Some(w) = find(&id) else { break };
            let r = refs(w);
            match (w[2], w.get(3).copied().unwrap_or("")) {
                ("sort", _) => {
                    key = Some("self");
                    break;
                }
                ("sort_by_key", kf) => {
                    key = Some(kf);
                    break;
                }
                ("map", "id") | ("identity", _) | ("tee", "1") | ("union", "1") => id = r[0].clone(),
                ("map", f @ ("fst" | "snd")) => {
                    post.push(f);
                    id = r[0].clone();
                }
                ("union", "2") => {
                    // union with an empty source
                    let e: Vec<bool> = r.iter().map(|x| find(x).is_some_and(|n| n[2] == "empty")).collect();
                    if e == [false, true] {
                        id = r[0].clone();
                    } else if e == [true, false] {
                        id = r[1].clone();
                    } else {
                        break;
                    }
                }
                _ => break,
            }
        }
        let Some(key) = key else { continue };
        // the observed items are projections of the sorted items: only judge when the projection keeps the key
        let keyed: Option<fn(&Val) -> Option<Val>> = match (key, post.as_slice()) {
            ("self", []) => Some(|v| Some(v.clone())),
            ("kfst", []) => Some(|v| if let Val::P(a, _) = v { Some((**a).clone()) } else { None }),
            ("ksnd", []) => Some(|v| if let Val::P(_, b) = v { Some((**b).clone()) } else { None }),
            ("kfst", ["fst"]) | ("ksnd", ["snd"]) => Some(|v| Some(v.clone())),
            _ => None,
        };
        let Some(kf) = keyed else { continue };
        rec.count(&format!("sorted-oracle:{key}"));
        for (t, tick) in outs.iter().enumerate() {
            let Some(seq) = tick.get(k) else { continue };
            let ks: Option<Vec<Val>> = seq.iter().map(|x| parse_val(x).and_then(|v| kf(&v))).collect();
            let ok = ks.as_ref().is_some_and(|ks| ks.windows(2).all(|p| val_cmp(&p[0], &p[1]) != std::cmp::Ordering::Greater));
            rec.check(ok, &format!("{sigp}@{}", if key == "self" { "sort" } else { "sort_by_key" }), &format!("prog={name} tick={t} sink={k} key={key} emitted={}", show_stream(seq, true)));
        }
    }
}

/// For a unit program `source -> [tee] -> OP -> [union with empty]` whose operator reads the raw
/// source, the operator's documented result can be recomputed from the inputs without the model.
fn unit_oracle_tag(p: &ProgInfo) -> Option<String> {
    if p.kind != "unit" || p.nsrc != 1 {
        return None;
    }
    let mut ops: Vec<(usize, String, String)> = vec![]; // (id, op words, input refs)
    for l in p.desc.lines().filter(|l| l.starts_with("node ")) {
        let (head, refs) = l.split_once(" <-")?;
        let mut it = head.splitn(3, ' ');
        it.next();
        let id: usize = it.next()?.parse().ok()?;
        ops.push((id, it.next()?.to_string(), refs.trim().to_string()));
    }
    let core: Vec<&(usize, String, String)> = ops.iter().filter(|o| !(o.1.starts_with("source") || o.1.starts_with("tee") || o.1 == "empty" || o.1.starts_with("union"))).collect();
    // (a `map kv3` = (x % 3, x) between the source and a keyed accumulator is what the oracle's keys assume)
    let keyed_prep = core.len() == 2 && core[0].1 == "map kv3" && core[0].2.starts_with("0.") && core[1].1.starts_with("fold_keyed ") && core[1].1.ends_with(" sum") && {
            let inn = core[1].2.split('.').next().unwrap_or("");
            inn == core[0].0.to_string() || ops.iter().any(|o| o.0.to_string() == inn && o.1.starts_with("tee") && o.2.starts_with(&format!("{}.", core[0].0)))
        };
    if keyed_prep {
        return Some(core[1].1.clone());
    }
    if core.len() != 1 {
        return None;
    }
    let op = core[0];
    // its input must be the source (id 0) or a tee of the source
    let inref = op.2.split(' ').next()?;
    let innode: usize = inref.split('.').next()?.parse().ok()?;
    let from_source = innode == 0 || ops.iter().any(|o| o.0 == innode && o.1.starts_with("tee") && o.2.starts_with("0."));
    if !from_source {
        return None;
    }
    let w: Vec<&str> = op.1.split(' ').collect();
    let ok = match w[0] {
        "fold" => w[2] == "sum" || w[2] == "cnt",
        "reduce" => w[2] == "max",
        "sort" | "persist" | "unique" | "multiset_delta" | "lattice_reduce" => true,
        _ => false,
    };
    ok.then(|| op.1.clone())
}

/// one case: program `p`, input history `inputs`; prints lines, runs oracles
fn run_case(no: u64, p: &ProgInfo, inputs: &[Vec<Vec<u64>>], mode: &str, rec: &mut Recorder) {
    let ticks = inputs.first().map(|s| s.len()).unwrap_or(0);
    rec.case(no, &format!("prog={} kind={} mode={}", p.name, p.kind, mode));
    for l in p.desc.lines() {
        rec.line(l, "ok");
    }
    let with_variant = mode == "c22" && p.vrun.is_some();
    if with_variant {
        for l in p.perturb.lines() {
            rec.line(l, "ok");
        }
    }
    if mode == "c22" && p.kind != "finding" {
        // the partition the real compiler chose, as a schedule of the model's nodes: the driver
        // checks that it is a well-formed order (hypothesis of `sched_refines_denot`) and then
        // evaluates the ticks subgraph by subgraph
        let sch = SCHED_CACHE.with(|c| c.borrow_mut().entry(p.name).or_insert_with(|| real_schedule(p.src)).clone());
        if let Some(sch) = sch {
            rec.line(&format!("sched {sch}"), "ok");
            rec.count(&format!("subgraphs:{}", sch.split('|').count().min(9)));
        } else {
            rec.count("no-schedule");
        }
    }
    let modes = sink_modes(p.desc);
    let outs = hv_common::catch(std::panic::AssertUnwindSafe(|| (p.run)(inputs, ticks)));
    let vouts = if with_variant { Some(hv_common::catch(std::panic::AssertUnwindSafe(|| (p.vrun.unwrap())(inputs, ticks)))) } else { None };
    let mut nonempty = 0usize;
    for t in 0..ticks {
        let ins = show_inputs(inputs, t);
        match &outs {
            Ok(o) => {
                nonempty += o[t].iter().filter(|s| !s.is_empty()).count();
                rec.line(&format!("tick {t} {ins}"), &show_outputs(&o[t], &modes));
            }
            Err(e) => rec.line(&format!("tick {t} {ins}"), &format!("panic:{}", e.chars().take(60).collect::<String>().replace('\n', " "))),
        }
        if let Some(vo) = &vouts {
            match vo {
                Ok(o) => rec.line(&format!("vtick {t} {ins}"), &show_outputs(&o[t], &modes)),
                Err(e) => rec.line(&format!("vtick {t} {ins}"), &format!("panic:{}", e.chars().take(60).collect::<String>().replace('\n', " "))),
            }
        }
    }
    rec.check(outs.is_ok(), "program-panicked", &format!("prog={} {:?}", p.name, outs.as_ref().err()));
    for op in p.ops.split(',') {
        if !op.is_empty() {
            rec.count(&format!("op:{op}"));
        }
    }
    // persistence branches ('tick / 'static per input) actually exercised, per operator
    for l in p.desc.lines().filter(|l| l.starts_with("node ")) {
        let head = l.split(" <-").next().unwrap_or("");
        let w: Vec<&str> = head.split(' ').skip(2).collect();
        let pers: Vec<&str> = w.iter().filter(|x| **x == "tick" || **x == "static").copied().collect();
        if !pers.is_empty() {
            rec.count(&format!("pers:{}:{}", w[0], pers.join(",")));
        }
    }
    for t in 0..ticks {
        if inputs.iter().all(|s| s[t].is_empty()) {
            rec.count("tick-with-no-input");
        }
    }
    rec.count(&format!("kind:{}", p.kind));
    if p.kind == "blocking" {
        // which input ports of the blocking operator (the node of the last sink) are fed directly by a
        // unary union()/tee() (spliced out by eliminate_extra_unions_tees)
        let nodes: Vec<Vec<&str>> = p.desc.lines().filter(|l| l.starts_with("node ")).map(|l| l.split(' ').collect()).collect();
        let last_sink_node = p.desc.lines().filter(|l| l.starts_with("sink ")).last().and_then(|l| l.split(' ').nth(2)).and_then(|r| r.split('.').next()).unwrap_or("");
        if let Some(op) = nodes.iter().find(|w| w[1] == last_sink_node) {
            let arrow = op.iter().position(|x| *x == "<-").unwrap_or(op.len());
            let mut any = false;
            for (k, r) in op[(arrow + 1).min(op.len())..].iter().enumerate() {
                let id = r.split('.').next().unwrap_or("");
                if let Some(pn) = nodes.iter().find(|w| w[1] == id) {
                    if (pn[2] == "tee" || pn[2] == "union") && pn[3] == "1" {
                        rec.count(&format!("unary-{}-at-port:{}:{}", pn[2], op[2], k));
                        any = true;
                    }
                }
            }
            if any {
                rec.count("blocking-port-behind-unary-union-or-tee");
            }
        }
    }
    rec.count(&format!("ticks:{ticks}"));
    if nonempty > 0 {
        rec.nontrivial();
    }
    let Ok(outs) = outs else { return };
    // --- property oracles on the real code
    // (a) causality / no retraction: what a tick emitted does not depend on later ticks' inputs
    if ticks >= 2 {
        let cut = ticks / 2;
        let prefix: Vec<Vec<Vec<u64>>> = inputs.iter().map(|s| s[..cut].to_vec()).collect();
        if let Ok(po) = hv_common::catch(std::panic::AssertUnwindSafe(|| (p.run)(&prefix, cut))) {
            let same = (0..cut).all(|t| show_outputs(&po[t], &modes) == show_outputs(&outs[t], &modes));
            rec.check(same, "tick-output-depends-on-later-input", &format!("prog={}", p.name));
        }
    }
    // (a') every operator input port is fed by the producer the program text connects to it (the
    // partitioned graph of the real dfir_lang pipeline, computed when the corpus was built)
    let opname = |w: &str| w.split('`').nth(1).and_then(|d| d.split(' ').next()).unwrap_or("?").to_string();
    rec.check(p.wiring.is_empty(), &format!("input-port-miswired@{}", opname(p.wiring)), &format!("prog={} {}", p.name, p.wiring));
    if with_variant {
        rec.check(p.vwiring.is_empty(), &format!("variant-input-port-miswired@{}", opname(p.vwiring)), &format!("prog={} {} perturb={}", p.name, p.vwiring, p.perturb.replace('\n', " / ")));
    }
    // (b) the blocking operator's documented result from the raw inputs (C23 corpus)
    if p.kind == "blocking" {
        blocking_oracle(p, p.oracle, "blocking-input-incomplete", inputs, &outs, rec);
    }
    if p.kind == "keyed" {
        blocking_oracle(p, p.oracle, "documented-result-violated", inputs, &outs, rec);
        if let Some(Ok(vo)) = &vouts {
            blocking_oracle(p, p.oracle, "variant-documented-result-violated", inputs, vo, rec);
        }
    }
    if p.kind != "finding" {
        sorted_oracle(p.name, p.desc, &outs, "output-not-sorted-by-key", rec);
        if let Some(Ok(vo)) = &vouts {
            sorted_oracle(p.name, p.vdesc, vo, "variant-output-not-sorted-by-key", rec);
        }
    }
    if let Some(tag) = unit_oracle_tag(p) {
        rec.count("unit-oracle");
        blocking_oracle(p, &tag, "documented-result-violated", inputs, &outs, rec);
    }
    // (c) original vs shape-perturbed variant (C22)
    if let Some(Ok(vo)) = &vouts {
        for t in 0..ticks {
            let a = show_outputs(&outs[t], &modes);
            let b = show_outputs(&vo[t], &modes);
            let sig = if p.oracle.starts_with("finding:") { format!("shape-dependent-output@{}", &p.oracle[8..]) } else { "shape-dependent-output".to_string() };
            rec.check(a == b, &sig, &format!("prog={} tick={} original={} variant={} perturb={}", p.name, t, a, b, p.perturb.replace('\n', " / ")));
        }
    } else if let Some(Err(e)) = &vouts {
        rec.check(false, "variant-panicked", &format!("prog={} {e}", p.name));
    }
}

fn replay(path: &std::path::PathBuf, mode: &str, rec: &mut Recorder) {
    // a replay file holds cases: `#case n prog=<name> ...`, then lines; we take the program by
    // name (its node lines must equal the compiled program's) and the tick lines' inputs.
    let lines = hv_common::read_lines(path);
    let mut i = 0;
    while i < lines.len() {
        if !lines[i].starts_with("#case ") {
            i += 1;
            continue;
        }
        let head = lines[i].clone();
        let mut j = i + 1;
        while j < lines.len() && !lines[j].starts_with("#case ") {
            j += 1;
        }
        let body = &lines[i + 1..j];
        let no: u64 = head.split(' ').nth(1).and_then(|x| x.parse().ok()).unwrap_or(0);
        let name = head.split(' ').find_map(|w| w.strip_prefix("prog=")).unwrap_or("");
        match find_prog(name) {
            None => {
                // not a program of the compiled corpus (the generator changed): nothing to run
                rec.case(no, &format!("prog={name} unknown"));
                rec.count("stale-corpus-case");
            }
            Some(p) => {
                let given: Vec<&String> = body.iter().filter(|l| l.starts_with("node ") || l.starts_with("sink ")).collect();
                let mine: Vec<&str> = p.desc.lines().collect();
                let same = given.len() == mine.len() && given.iter().zip(mine.iter()).all(|(a, b)| a.as_str() == *b);
                let mut per_tick: Vec<Vec<Vec<u64>>> = vec![];
                let mut ok = true;
                for l in body.iter().filter(|l| l.starts_with("tick ")) {
                    let w: Vec<&str> = l.split(' ').collect();
                    match w.get(2).and_then(|s| parse_inputs(s)) {
                        Some(v) if v.len() == p.nsrc => per_tick.push(v),
                        _ => ok = false,
                    }
                }
                if !same || !ok {
                    // shrunk / stale case: not a program of the compiled corpus
                    rec.case(no, &format!("prog={name} stale"));
                    rec.count("stale-corpus-case");
                } else {
                    let ticks = per_tick.len();
                    let inputs: Vec<Vec<Vec<u64>>> = (0..p.nsrc).map(|s| (0..ticks).map(|t| per_tick[t][s].clone()).collect()).collect();
                    run_case(no, p, &inputs, mode, rec);
                }
            }
        }
        i = j;
    }
}

/// parse -> flat graph -> eliminate -> partition -> code generation of a DFIR text with the real
/// `dfir_lang` pipeline (no rustc): does the program compile as far as DFIR is concerned?
fn dfir_compiles(src: &str) -> Result<usize, String> {
    let code = syn::parse_str::<dfir_lang::parse::DfirCode>(src).map_err(|e| format!("parse: {e}"))?;
    match hv_common::catch(std::panic::AssertUnwindSafe(|| dfir_lang::graph::build_dfir_code(code, &quote::quote!(dfir_rs)))) {
        Ok(Ok(out)) => Ok(out.partitioned_graph.subgraph_toposort().len()),
        Ok(Err(d)) => Err(format!("diagnostics: {}", d.iter().map(|x| x.to_string()).collect::<Vec<_>>().join(" / ").chars().take(200).collect::<String>())),
        Err(e) => Err(format!("panic: {e}")),
    }
}

/// same-tick cycles: the original and every shape-perturbed variant must be rejected alike
const CYCLIC_PAIRS: &[(&str, &str)] = &[
    (
        "a = union() -> map(|x: u64| x + 1) -> tee(); source_iter([1u64]) -> [0]a; a -> [1]a; a -> for_each(|x: u64| drop(x));",
        "a = union() -> map(|x: u64| x + 1) -> identity::<u64>() -> tee(); source_iter([1u64]) -> [0]a; a -> [1]a; a -> for_each(|x: u64| drop(x));",
    ),
    (
        "a = union() -> map(|x: u64| x + 1) -> tee(); source_iter([1u64]) -> [0]a; a -> [1]a; a -> for_each(|x: u64| drop(x));",
        "a = union() -> map(|x: u64| x + 1) -> tee(); source_iter([1u64]) -> [0]a; a -> t2; t2 = tee(); t2 -> [1]a; t2 -> for_each(|x: u64| drop(x)); a -> for_each(|x: u64| drop(x));",
    ),
    (
        "j = join::<'static>() -> map(|x: (u64, (u64, u64))| (x.0, x.1.0)) -> tee(); source_iter([(1u64, 1u64)]) -> [0]j; j -> [1]j; j -> for_each(|x: (u64, u64)| drop(x));",
        "j = join::<'static>() -> map(|x: (u64, (u64, u64))| (x.0, x.1.0)) -> tee(); source_iter([(1u64, 1u64)]) -> [0]j; u = union(); j -> [0]u; source_iter(Vec::<(u64, u64)>::new()) -> [1]u; u -> [1]j; j -> for_each(|x: (u64, u64)| drop(x));",
    ),
    (
        // broken by defer_tick: both accepted
        "a = union() -> map(|x: u64| x + 1) -> tee(); source_iter([1u64]) -> [0]a; a -> defer_tick() -> [1]a; a -> for_each(|x: u64| drop(x));",
        "a = union() -> map(|x: u64| x + 1) -> identity::<u64>() -> tee(); source_iter([1u64]) -> [0]a; a -> defer_tick() -> map(|x: u64| x) -> [1]a; a -> for_each(|x: u64| drop(x));",
    ),
];

/// C22: compile-or-not must agree between a program and its shape-perturbed variant
fn compile_agreement(progs: &[&ProgInfo], rec: &mut Recorder) {
    for p in progs {
        if p.vsrc.is_empty() {
            continue;
        }
        let a = dfir_compiles(p.src);
        let b = dfir_compiles(p.vsrc);
        rec.count(if a.is_ok() { "compile:ok" } else { "compile:err" });
        rec.check(a.is_ok() == b.is_ok(), "compile-disagreement", &format!("prog={} original={:?} variant={:?}", p.name, a, b));
        // the corpus is compiled by rustc, so the DFIR stage must have accepted it
        rec.check(a.is_ok(), "corpus-program-rejected-by-dfir_lang", &format!("prog={} {:?}", p.name, a));
        if let (Ok(x), Ok(y)) = (&a, &b) {
            if x != y {
                rec.count("variant-has-different-subgraph-count");
            }
        }
    }
    for (i, (o, v)) in CYCLIC_PAIRS.iter().enumerate() {
        let a = dfir_compiles(o);
        let b = dfir_compiles(v);
        rec.count(if a.is_ok() { "compile:ok" } else { "compile:err" });
        rec.check(a.is_ok() == b.is_ok(), "compile-disagreement", &format!("cyclic-pair={i} original={:?} variant={:?}", a, b));
        rec.check(a.is_ok() == (i == 3), "cyclic-pair-unexpected-verdict", &format!("cyclic-pair={i} original={:?}", a));
    }
}

fn main() {
    let args = Args::parse();
    hv_common::quiet_panics();
    let mut rec = Recorder::new(
        "one case = one compiled dfir_syntax! program of the corpus (operator x persistence x {plain, behind-tee, before-union} contexts, random DAGs, blocking-input pipelines incl. unary union()/tee() chains directly at every blocking input port, shape-perturbed variants incl. unary union/tee at every port of every two-input operator) run tick by tick on a generated input history (2-6 ticks, 0-7 items per source and tick, small domains); non-trivial = some sink emitted an item; distinct = distinct (program, history) texts",
    );
    let mode = args.mode.clone();
    if !["c21", "c22", "c23"].contains(&mode.as_str()) {
        eprintln!("unknown mode {mode}");
        std::process::exit(2);
    }
    if let Some(pth) = &args.replay {
        replay(pth, &mode, &mut rec);
        rec.finish(&args.out);
        return;
    }
    let progs: Vec<&ProgInfo> = PROGS
        .iter()
        .filter(|p| match mode.as_str() {
            "c21" => p.kind != "finding",
            "c22" => p.vrun.is_some() && (p.kind != "finding" || args.extra.contains_key("findings")),
            _ => p.kind == "blocking",
        })
        .collect();
    let root = Rng::new(args.seed);
    for i in 0..args.cases {
        let mut rng = root.fork(i);
        let p = progs[(i as usize) % progs.len()];
        let ticks = rng.range(2, if args.tier == "thorough" { 6 } else { 4 }) as usize;
        let inputs = gen_inputs(&mut rng, p.nsrc, ticks, &args.tier);
        run_case(i + 1, p, &inputs, &mode, &mut rec);
    }
    if mode == "c22" {
        compile_agreement(&progs, &mut rec);
    }
    rec.count_n("corpus-programs", progs.len() as u64);
    rec.finish(&args.out);
}
