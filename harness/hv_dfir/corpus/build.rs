//! Corpus generator: writes `$OUT_DIR/corpus.rs` with several hundred `dfir_syntax!` programs
//! (every modelled operator x persistence x {plain, forced-push, forced-pull} context, random
//! multi-operator DAGs, blocking-input pipelines of varying depth, shape-perturbed variants),
//! each with its textual description (`node` / `sink` / `perturb` op lines) for the Lean driver.
//! The corpus is a fixed function of `CORPUS_SEED` (inputs vary with `--seed` at run time).
use hv_common::Rng;
use std::fmt::Write as _;

const CORPUS_SEED: u64 = 0xD0F1_2024;

#[derive(Clone, PartialEq, Debug)]
enum Ty {
    N,
    U,
    P(Box<Ty>, Box<Ty>),
    V(Box<Ty>),
    O(Box<Ty>),
    E(Box<Ty>, Box<Ty>),
}
use Ty::*;
fn p(a: Ty, b: Ty) -> Ty {
    P(Box::new(a), Box::new(b))
}
impl Ty {
    fn rust(&self) -> String {
        match self {
            N => "u64".into(),
            U => "()".into(),
            P(a, b) => format!("({}, {})", a.rust(), b.rust()),
            V(a) => format!("Vec<{}>", a.rust()),
            O(a) => format!("Option<{}>", a.rust()),
            E(a, b) => format!("EitherOrBoth<{}, {}>", a.rust(), b.rust()),
        }
    }
    /// `Ord` available and equal to the model's order
    fn sortable(&self) -> bool {
        match self {
            N | U => true,
            P(a, b) => a.sortable() && b.sortable(),
            V(a) | O(a) => a.sortable(),
            E(..) => false,
        }
    }
    fn is_kv(&self) -> bool {
        matches!(self, P(k, _) if **k == N)
    }
    fn is_kn(&self) -> bool {
        matches!(self, P(k, v) if **k == N && **v == N)
    }
    fn depth(&self) -> usize {
        match self {
            N | U => 1,
            P(a, b) | E(a, b) => 1 + a.depth().max(b.depth()),
            V(a) | O(a) => 1 + a.depth(),
        }
    }
}

/// an output port of a node that has not been consumed yet
#[derive(Clone, Debug)]
struct Out {
    node: usize,
    port: usize,
    ty: Ty,
    /// the item order is determined by the model (no hash iteration upstream)
    ordered: bool,
    /// a crude bound on the number of items per tick
    est: usize,
    /// a lazily evaluated (pull adaptor) operator with cross-tick state or a side effect is
    /// reachable upstream through lazy operators only (see `short-circuit` rule in FRAMEWORK notes)
    lazy_stateful: bool,
}

#[derive(Clone)]
struct NodeD {
    id: usize,
    desc: String,
    ins: Vec<(usize, usize)>,
    /// input port labels (`0`, `pos`, ..); empty = chain form `producer -> op`
    in_labels: Vec<String>,
    /// operator expression (may be a small chain `map(..) -> op() -> map(..)`)
    expr: String,
    /// extra statements (with `{id}` already substituted)
    post: String,
    out_labels: Vec<String>,
    out_tys: Vec<Ty>,
}

#[derive(Clone)]
struct SinkD {
    node: usize,
    port: usize,
    ordered: bool,
}

#[derive(Clone, Default)]
struct Builder {
    nodes: Vec<NodeD>,
    nsrc: usize,
    sinks: Vec<SinkD>,
    next_id: usize,
    /// operators used (for the coverage histogram)
    ops: Vec<String>,
}

#[derive(Clone, Copy, PartialEq)]
enum Pe {
    T,
    S,
}
impl Pe {
    fn w(self) -> &'static str {
        if self == Pe::T { "tick" } else { "static" }
    }
    fn l(self) -> &'static str {
        if self == Pe::T { "'tick" } else { "'static" }
    }
}
const PES: [Pe; 2] = [Pe::T, Pe::S];

const M: u64 = 1000003;

impl Builder {
    fn fresh(&mut self) -> usize {
        let i = self.next_id;
        self.next_id += 1;
        i
    }
    fn node(&self, id: usize) -> &NodeD {
        self.nodes.iter().find(|n| n.id == id).unwrap()
    }
    fn label(&self, r: (usize, usize)) -> String {
        self.node(r.0).out_labels[r.1].clone()
    }
    fn ty(&self, r: (usize, usize)) -> Ty {
        self.node(r.0).out_tys[r.1].clone()
    }
    fn source(&mut self) -> Out {
        let id = self.fresh();
        let i = self.nsrc;
        self.nsrc += 1;
        self.nodes.push(NodeD { id, desc: format!("source {i}"), ins: vec![], in_labels: vec![], expr: format!("source_stream(r{i})"), post: String::new(), out_labels: vec![format!("n{id}")], out_tys: vec![N] });
        Out { node: id, port: 0, ty: N, ordered: true, est: 6, lazy_stateful: false }
    }
    fn empty(&mut self, ty: &Ty) -> Out {
        let id = self.fresh();
        self.nodes.push(NodeD { id, desc: "empty".into(), ins: vec![], in_labels: vec![], expr: format!("source_iter(Vec::<{}>::new())", ty.rust()), post: String::new(), out_labels: vec![format!("n{id}")], out_tys: vec![ty.clone()] });
        Out { node: id, port: 0, ty: ty.clone(), ordered: true, est: 0, lazy_stateful: false }
    }
    /// one input, one output
    fn un(&mut self, i: &Out, desc: &str, code: &str, ty: Ty, ordered: bool, est: usize, lazy_stateful: bool) -> Out {
        let id = self.fresh();
        self.ops.push(desc.split(' ').next().unwrap().to_string());
        self.nodes.push(NodeD { id, desc: desc.into(), ins: vec![(i.node, i.port)], in_labels: vec![], expr: code.into(), post: String::new(), out_labels: vec![format!("n{id}")], out_tys: vec![ty.clone()] });
        Out { node: id, port: 0, ty, ordered, est: est.min(100000), lazy_stateful }
    }
    /// several inputs (with their input-port labels), one output
    fn multi(&mut self, ins: &[(&Out, &str)], desc: &str, code: &str, ty: Ty, ordered: bool, est: usize, lazy_stateful: bool) -> Out {
        let id = self.fresh();
        self.ops.push(desc.split(' ').next().unwrap().to_string());
        self.nodes.push(NodeD { id, desc: desc.into(), ins: ins.iter().map(|(o, _)| (o.node, o.port)).collect(), in_labels: ins.iter().map(|(_, l)| l.to_string()).collect(), expr: code.into(), post: String::new(), out_labels: vec![format!("n{id}")], out_tys: vec![ty.clone()] });
        Out { node: id, port: 0, ty, ordered, est: est.min(100000), lazy_stateful }
    }
    fn tee(&mut self, i: &Out, n: usize) -> Vec<Out> {
        let id = self.fresh();
        self.ops.push("tee".into());
        self.nodes.push(NodeD { id, desc: format!("tee {n}"), ins: vec![(i.node, i.port)], in_labels: vec![], expr: "tee()".into(), post: String::new(), out_labels: vec![format!("n{id}"); n], out_tys: vec![i.ty.clone(); n] });
        (0..n).map(|k| Out { node: id, port: k, ty: i.ty.clone(), ordered: i.ordered, est: i.est, lazy_stateful: false }).collect()
    }
    fn sink(&mut self, o: &Out) {
        self.sinks.push(SinkD { node: o.node, port: o.port, ordered: o.ordered });
    }
    fn desc_lines(&self) -> Vec<String> {
        let mut ls = vec![];
        for n in &self.nodes {
            let refs: Vec<String> = n.ins.iter().map(|(a, b)| format!("{a}.{b}")).collect();
            ls.push(format!("node {} {} <-{}{}", n.id, n.desc, if refs.is_empty() { "" } else { " " }, refs.join(" ")));
        }
        for (k, s) in self.sinks.iter().enumerate() {
            ls.push(format!("sink {k} {}.{} {}", s.node, s.port, if s.ordered { "seq" } else { "bag" }));
        }
        ls
    }
    /// the DFIR program text (the body of the `dfir_syntax!` invocation)
    fn body(&self) -> String {
        let mut s = String::new();
        for n in &self.nodes {
            let id = n.id;
            if n.ins.is_empty() {
                let _ = writeln!(s, "        n{id} = {};", n.expr);
            } else if n.in_labels.is_empty() {
                let _ = writeln!(s, "        n{id} = {} -> {};", self.label(n.ins[0]), n.expr);
            } else {
                let _ = write!(s, "        n{id} = {};", n.expr);
                for (r, l) in n.ins.iter().zip(n.in_labels.iter()) {
                    let _ = write!(s, " {} -> [{l}]n{id};", self.label(*r));
                }
                let _ = writeln!(s);
            }
            if !n.post.is_empty() {
                let _ = writeln!(s, "        {}", n.post);
            }
        }
        for (k, sk) in self.sinks.iter().enumerate() {
            let _ = writeln!(s, "        {} -> for_each(|x: {}| o{k}c.borrow_mut().push(HV::show(&x)));", self.label((sk.node, sk.port)), self.ty((sk.node, sk.port)).rust());
        }
        s
    }
    /// Rust source of `fn run_<name>(inputs, ticks) -> per tick per sink strings`
    fn emit(&self, name: &str) -> String {
        let mut s = String::new();
        let _ = writeln!(s, "#[allow(unused_variables, unused_mut, clippy::all)]");
        let _ = writeln!(s, "pub fn run_{name}(inputs: &[Vec<Vec<u64>>], ticks: usize) -> Vec<Vec<Vec<String>>> {{");
        for i in 0..self.nsrc {
            let _ = writeln!(s, "    let (s{i}, r{i}) = dfir_rs::util::unbounded_channel::<u64>();");
        }
        for k in 0..self.sinks.len() {
            let _ = writeln!(s, "    let o{k}: Out = Default::default(); let o{k}c = o{k}.clone();");
        }
        let _ = writeln!(s, "    let mut df = dfir_rs::dfir_syntax! {{");
        s.push_str(&self.body());
        let _ = writeln!(s, "    }};");
        let _ = writeln!(s, "    let mut res = Vec::new();");
        let _ = writeln!(s, "    for t in 0..ticks {{");
        for i in 0..self.nsrc {
            let _ = writeln!(s, "        for x in &inputs[{i}][t] {{ s{i}.send(*x).unwrap(); }}");
        }
        let _ = writeln!(s, "        df.run_tick_sync();");
        let outs: Vec<String> = (0..self.sinks.len()).map(|k| format!("std::mem::take(&mut *o{k}.borrow_mut())")).collect();
        let _ = writeln!(s, "        res.push(vec![{}]);", outs.join(", "));
        let _ = writeln!(s, "    }}");
        let _ = writeln!(s, "    res");
        let _ = writeln!(s, "}}");
        s
    }
}

// ------------------------------------------------------------------ operator catalogue

fn acc_body(f: &str, t: &Ty) -> String {
    // closure body updating `*a` (u64) with item `x: T`
    match f {
        "sum" => "*a += x".into(),
        "poly" => format!("*a = (*a * 31 + hv(&x)) % {M}"),
        "cnt" => "*a += 1".into(),
        "max" => "if *a < x { *a = x }".into(),
        "first" => "let _ = x".into(),
        "last" => "*a = x".into(),
        _ => panic!("{f} {t:?}"),
    }
}
fn acc_needs_n(f: &str) -> bool {
    matches!(f, "sum" | "max" | "last")
}
fn acc_order_sensitive(f: &str) -> bool {
    matches!(f, "poly" | "first" | "last")
}

/// all unary operator instances applicable to `i`; returns (desc, code, out type, ordered, est, lazy_stateful)
/// `lazy_in` = i.lazy_stateful
fn unary_menu(i: &Out) -> Vec<(String, String, Ty, bool, usize, bool)> {
    let t = &i.ty;
    let tr = t.rust();
    let o = i.ordered;
    let e = i.est;
    let lz = i.lazy_stateful;
    let small = t.depth() <= 3;
    let mut v: Vec<(String, String, Ty, bool, usize, bool)> = vec![];
    // maps
    v.push(("map id".into(), format!("map(|x: {tr}| x)"), t.clone(), o, e, lz));
    v.push(("map hv".into(), format!("map(|x: {tr}| hv(&x))"), N, o, e, lz));
    v.push(("map kv3".into(), format!("map(|x: {tr}| {{ let h = hv(&x); (h % 3, h) }})"), p(N, N), o, e, lz));
    if small {
        v.push(("map kvk".into(), format!("map(|x: {tr}| (hv(&x) % 4, x))"), p(N, t.clone()), o, e, lz));
    }
    if *t == N {
        v.push(("map inc".into(), "map(|x: u64| x + 1)".into(), N, o, e, lz));
        v.push(("map dbl".into(), "map(|x: u64| x * 2)".into(), N, o, e, lz));
        v.push(("map m100".into(), "map(|x: u64| x % 100)".into(), N, o, e, lz));
        v.push(("map vec2".into(), "map(|x: u64| vec![x, x + 10])".into(), V(Box::new(N)), o, e, lz));
        v.push(("map opt".into(), "map(|x: u64| if x % 2 == 0 { Some(x) } else { None })".into(), O(Box::new(N)), o, e, lz));
        v.push(("filter_map half".into(), "filter_map(|x: u64| if x % 2 == 0 { Some(x / 2) } else { None })".into(), N, o, e, lz));
        v.push(("flat_map dup".into(), "flat_map(|x: u64| vec![x, x + 10])".into(), N, o, e * 2, lz));
        v.push(("flat_map rng".into(), "flat_map(|x: u64| 0..(x % 3))".into(), N, o, e * 2, lz));
    }
    if let P(a, b) = t {
        v.push(("map swap".into(), format!("map(|x: {tr}| (x.1, x.0))"), p((**b).clone(), (**a).clone()), o, e, lz));
        v.push(("map fst".into(), format!("map(|x: {tr}| x.0)"), (**a).clone(), o, e, lz));
        v.push(("map snd".into(), format!("map(|x: {tr}| x.1)"), (**b).clone(), o, e, lz));
    }
    v.push(("filter even".into(), format!("filter(|x: &{tr}| hv(x) % 2 == 0)"), t.clone(), o, e, lz));
    v.push(("filter lt3".into(), format!("filter(|x: &{tr}| hv(x) % 5 < 3)"), t.clone(), o, e, lz));
    v.push(("filter_map hnz".into(), format!("filter_map(|x: {tr}| {{ let h = hv(&x); if h % 3 != 0 {{ Some(h) }} else {{ None }} }})"), N, o, e, lz));
    match t {
        V(a) | O(a) => v.push(("flatten".into(), "flatten()".into(), (**a).clone(), o, e * 2, lz)),
        _ => {}
    }
    v.push(("identity".into(), format!("identity::<{tr}>()"), t.clone(), o, e, lz));
    v.push(("inspect".into(), format!("inspect(|x: &{tr}| {{ let _ = hv(x); }})"), t.clone(), o, e, lz));
    for pe in PES {
        if o && small {
            v.push((format!("enumerate {}", pe.w()), format!("enumerate::<{}>() -> map(|x: (usize, {tr})| (x.0 as u64, x.1))", pe.l()), p(N, t.clone()), o, e, lz || pe == Pe::S));
        }
        v.push((format!("unique {}", pe.w()), format!("unique::<{}>()", pe.l()), t.clone(), o, e, lz || pe == Pe::S));
    }
    v.push(("persist".into(), format!("persist::<'static, {tr}>()"), t.clone(), o, e * 6, false));
    v.push(("multiset_delta".into(), format!("map(|x: {tr}| x) -> multiset_delta() -> map(|x: {tr}| x)"), t.clone(), o, e, true));
    if t.sortable() {
        v.push(("sort".into(), "sort()".into(), t.clone(), true, e, false));
        v.push(("sort_by_key self".into(), format!("sort_by_key(|x: &{tr}| x)"), t.clone(), true, e, false));
        if let P(a, b) = t {
            if a.sortable() {
                v.push(("sort_by_key kfst".into(), format!("sort_by_key(|x: &{tr}| &x.0)"), t.clone(), false, e, false));
            }
            if b.sortable() {
                v.push(("sort_by_key ksnd".into(), format!("sort_by_key(|x: &{tr}| &x.1)"), t.clone(), false, e, false));
            }
        }
    }
    for pe in PES {
        for f in ["sum", "poly", "max", "last"] {
            if acc_needs_n(f) && *t != N {
                continue;
            }
            if acc_order_sensitive(f) && !o {
                continue;
            }
            // fold: accumulator u64 starting at 0
            if f != "last" && f != "first" {
                let body = acc_body(f, t);
                for (opn, ow) in [("fold", "fold"), ("fold_no_replay", "fold_no_replay")] {
                    v.push((format!("{ow} {} {f}", pe.w()), format!("{opn}::<{}>(|| 0u64, |a: &mut u64, x: {tr}| {{ {body}; }})", pe.l()), N, true, 1, false));
                }
            }
            // reduce: items are u64
            if *t == N && f != "cnt" {
                let body = match f {
                    "poly" => format!("*a = (*a * 31 + x % {M}) % {M}"),
                    _ => acc_body(f, t),
                };
                for opn in ["reduce", "reduce_no_replay"] {
                    v.push((format!("{opn} {} {f}", pe.w()), format!("{opn}::<{}>(|a: &mut u64, x: u64| {{ {body}; }})", pe.l()), N, true, 1, false));
                }
            }
        }
        if let P(k, val) = t {
            if **val == N && k.depth() <= 2 {
                let kr = k.rust();
                for f in ["sum", "poly"] {
                    if acc_order_sensitive(f) && !o {
                        continue;
                    }
                    let body = acc_body(f, &N);
                    v.push((format!("fold_keyed {} {f}", pe.w()), format!("fold_keyed::<{}, {kr}, u64>(|| 0u64, |a: &mut u64, x: u64| {{ {body}; }})", pe.l()), p((**k).clone(), N), false, e, false));
                    if f != "cnt" {
                        let body = if f == "poly" { format!("*a = (*a * 31 + x % {M}) % {M}") } else { body };
                        v.push((format!("reduce_keyed {} {f}", pe.w()), format!("reduce_keyed::<{}, {kr}, u64>(|a: &mut u64, x: u64| {{ {body}; }})", pe.l()), p((**k).clone(), N), false, e, false));
                    }
                }
            }
        }
        if *t == N && o {
            v.push((format!("scan {} runsum", pe.w()), format!("scan::<{}>(|| 0u64, |a: &mut u64, x: u64| {{ *a += x; Some(*a) }})", pe.l()), N, true, e, lz || pe == Pe::S));
            v.push((format!("scan {} stop20", pe.w()), format!("scan::<{}>(|| 0u64, |a: &mut u64, x: u64| {{ *a += x; if *a > 20 {{ None }} else {{ Some(*a) }} }})", pe.l()), N, true, e, lz || pe == Pe::S));
        }
        if *t == N {
            v.push((format!("lattice_fold {}", pe.w()), format!("map(|x: u64| Max::new(x)) -> lattice_fold::<{}>(|| Max::new(0u64)) -> map(|m: Max<u64>| m.into_reveal())", pe.l()), N, true, 1, false));
            v.push((format!("lattice_reduce {}", pe.w()), format!("map(|x: u64| Max::new(x)) -> lattice_reduce::<{}>() -> map(|m: Max<u64>| m.into_reveal())", pe.l()), N, true, 1, false));
        }
    }
    v.push(("defer_tick".into(), format!("defer_tick::<{tr}>()"), t.clone(), o, e, false));
    v.push(("defer_tick_lazy".into(), "defer_tick_lazy()".into(), t.clone(), o, e, false));
    v
}

/// multi-output unary operators
fn multi_out(b: &mut Builder, i: &Out, which: &str, pe: Pe, n: usize) -> Vec<Out> {
    let id = b.fresh();
    let tr = i.ty.rust();
    let mk = |port: usize, ty: Ty, ordered: bool| Out { node: id, port, ty, ordered, est: i.est, lazy_stateful: false };
    let ins = vec![(i.node, i.port)];
    match which {
        "partition" => {
            b.ops.push("partition".into());
            b.nodes.push(NodeD { id, desc: format!("partition {n}"), ins, in_labels: vec![], expr: format!("partition(|x: &{tr}, n: usize| (hv(x) % (n as u64)) as usize)"), post: String::new(), out_labels: (0..n).map(|k| format!("n{id}[{k}]")).collect(), out_tys: vec![i.ty.clone(); n] });
            (0..n).map(|k| mk(k, i.ty.clone(), i.ordered)).collect()
        }
        "unzip" => {
            let P(a, c) = &i.ty else { panic!() };
            b.ops.push("unzip".into());
            b.nodes.push(NodeD { id, desc: "unzip".into(), ins, in_labels: vec![], expr: "unzip()".into(), post: String::new(), out_labels: vec![format!("n{id}[0]"), format!("n{id}[1]")], out_tys: vec![(**a).clone(), (**c).clone()] });
            vec![mk(0, (**a).clone(), i.ordered), mk(1, (**c).clone(), i.ordered)]
        }
        "state" => {
            assert!(i.ty == N && i.ordered);
            b.ops.push("state".into());
            b.nodes.push(NodeD {
                id,
                desc: format!("state {}", pe.w()),
                ins,
                in_labels: vec![],
                expr: format!("map(|x: u64| Max::new(x)) -> state::<{}, Max<u64>>()", pe.l()),
                post: format!("n{id}_i = n{id}[items] -> map(|m: Max<u64>| m.into_reveal()); n{id}_s = n{id}[state] -> map(|m: Max<u64>| m.into_reveal());"),
                out_labels: vec![format!("n{id}_i"), format!("n{id}_s")],
                out_tys: vec![N, N],
            });
            vec![mk(0, N, true), mk(1, N, true)]
        }
        _ => panic!(),
    }
}

fn accum_code(a: &str) -> String {
    let (k, f) = a.split_once(':').unwrap();
    let body = if f == "poly" { format!("*a = (*a * 31 + x % {M}) % {M}") } else { acc_body(f, &N) };
    match k {
        "fold" => format!("Fold::new(|| 0u64, |a: &mut u64, x: u64| {{ {body}; }})"),
        "reduce" => format!("Reduce::new(|a: &mut u64, x: u64| {{ {body}; }})"),
        "foldfrom" => format!("FoldFrom::new(|x: u64| x + 3, |a: &mut u64, x: u64| {{ {body}; }})"),
        _ => panic!(),
    }
}
const ACCUMS: [&str; 3] = ["fold:poly", "reduce:sum", "foldfrom:sum"];

/// binary operator instances applicable to (a, b): (desc, code, in-port labels, type, ordered, est, lazy_stateful)
/// `sc` = both inputs are free of lazily evaluated stateful operators (needed by short-circuiting operators)
fn binary_menu(a: &Out, b: &Out) -> Vec<(String, String, [&'static str; 2], Ty, bool, usize, bool)> {
    let mut v = vec![];
    let o = a.ordered && b.ordered;
    let lz = a.lazy_stateful || b.lazy_stateful;
    let ab = p(a.ty.clone(), b.ty.clone());
    let small = ab.depth() <= 4;
    if !small {
        return v;
    }
    let ex = (a.est * b.est).max(1);
    for pl in PES {
        for pr in PES {
            let pp = format!("{} {}", pl.w(), pr.w());
            let ppl = format!("{}, {}", pl.l(), pr.l());
            let grow = if pl == Pe::S || pr == Pe::S { 36 } else { 1 };
            if let (P(ka, va), P(kb, vb)) = (&a.ty, &b.ty) {
                if **ka == N && **kb == N {
                    let jt = p(N, p((**va).clone(), (**vb).clone()));
                    v.push((format!("join {pp}"), format!("join::<{ppl}>()"), ["0", "1"], jt.clone(), false, ex * grow, false));
                    v.push((format!("join_multiset {pp}"), format!("join_multiset::<{ppl}>()"), ["0", "1"], jt.clone(), false, ex * grow, false));
                    v.push((format!("join_multiset_half {pp}"), format!("join_multiset_half::<{ppl}>()"), ["build", "probe"], p(N, p((**vb).clone(), (**va).clone())), o, ex * grow, if pr == Pe::T { b.lazy_stateful } else { false }));
                    if **va == N {
                        for acc in ACCUMS {
                            if acc.ends_with("poly") && !a.ordered {
                                continue;
                            }
                            v.push((format!("join_fused_lhs {acc} {pp}"), format!("join_fused_lhs::<{ppl}>({})", accum_code(acc)), ["0", "1"], p(N, p(N, (**vb).clone())), b.ordered, (a.est * b.est).max(1) * grow, if pr == Pe::T { b.lazy_stateful } else { false }));
                        }
                    }
                    if **vb == N {
                        for acc in ACCUMS {
                            if acc.ends_with("poly") && !b.ordered {
                                continue;
                            }
                            // the second persistence argument governs port 0 (see model)
                            v.push((format!("join_fused_rhs {acc} {pp}"), format!("join_fused_rhs::<{ppl}>({})", accum_code(acc)), ["0", "1"], p(N, p((**va).clone(), N)), a.ordered, (a.est * b.est).max(1) * grow, if pr == Pe::T { a.lazy_stateful } else { false }));
                        }
                    }
                    if **va == N && **vb == N {
                        for (al, ar) in [("fold:sum", "reduce:sum"), ("reduce:max", "fold:cnt"), ("foldfrom:sum", "fold:poly"), ("reduce:poly", "foldfrom:sum")] {
                            if (al.ends_with("poly") && !a.ordered) || (ar.ends_with("poly") && !b.ordered) {
                                continue;
                            }
                            v.push((format!("join_fused {al} {ar} {pp}"), format!("join_fused::<{ppl}>({}, {})", accum_code(al), accum_code(ar)), ["0", "1"], p(N, p(N, N)), false, ex, false));
                        }
                    }
                }
            }
            v.push((format!("cross_join {pp}"), format!("cross_join::<{ppl}>()"), ["0", "1"], ab.clone(), false, ex * grow, false));
            v.push((format!("cross_join_multiset {pp}"), format!("cross_join_multiset::<{ppl}>()"), ["0", "1"], ab.clone(), o, ex * grow, false));
            if let P(ka, _) = &a.ty {
                if **ka == b.ty {
                    v.push((format!("anti_join {pp}"), format!("anti_join::<{ppl}>()"), ["pos", "neg"], a.ty.clone(), a.ordered, a.est * if pl == Pe::S { 6 } else { 1 }, if pl == Pe::T { a.lazy_stateful } else { false }));
                }
            }
            if a.ty == b.ty {
                v.push((format!("difference {pp}"), format!("difference::<{ppl}>()"), ["pos", "neg"], a.ty.clone(), a.ordered, a.est * if pl == Pe::S { 6 } else { 1 }, if pl == Pe::T { a.lazy_stateful } else { false }));
            }
            if o {
                v.push((format!("zip {pp}"), format!("zip::<{ppl}>()"), ["0", "1"], ab.clone(), true, a.est.min(b.est) * grow, false));
            }
        }
    }
    if o {
        v.push(("zip_longest".into(), "zip_longest()".into(), ["0", "1"], E(Box::new(a.ty.clone()), Box::new(b.ty.clone())), true, a.est.max(b.est), lz));
    }
    if a.ty == b.ty {
        v.push(("chain".into(), "chain()".into(), ["0", "1"], a.ty.clone(), o, a.est + b.est, lz));
        if o && !lz {
            for n in [1usize, 3, 7] {
                v.push((format!("chain_first_n {n}"), format!("chain_first_n({n})"), ["0", "1"], a.ty.clone(), true, n, false));
            }
        }
    }
    if b.ordered && !lz {
        for pe in PES {
            v.push((format!("cross_singleton {}", pe.w()), format!("cross_singleton::<{}>()", pe.l()), ["input", "single"], ab.clone(), a.ordered, a.est, pe == Pe::S));
        }
    }
    if !b.lazy_stateful {
        v.push(("defer_signal".into(), "defer_signal()".into(), ["input", "signal"], a.ty.clone(), a.ordered, a.est * 6, false));
    }
    v
}

fn union_n(b: &mut Builder, ins: &[Out]) -> Out {
    let refs: Vec<(&Out, String)> = ins.iter().enumerate().map(|(k, o)| (o, k.to_string())).collect();
    let refs2: Vec<(&Out, &str)> = refs.iter().map(|(o, s)| (*o, s.as_str())).collect();
    b.multi(&refs2, &format!("union {}", ins.len()), "union()", ins[0].ty.clone(), ins.iter().all(|o| o.ordered), ins.iter().map(|o| o.est).sum(), ins.iter().any(|o| o.lazy_stateful))
}

// ------------------------------------------------------------------ program families

struct ProgOut {
    name: String,
    kind: &'static str,
    b: Builder,
    /// (perturb op lines, variant builder)
    variant: Option<(Vec<String>, Builder)>,
    /// blocking-input oracle tag (C23), e.g. "fold_sum", "anti_join"
    oracle: String,
    /// model description of the original when it is not the node-by-node one (fused chains, F22)
    desc_override: Option<Vec<String>>,
    /// the original is the same program as `run_<alias>` (several variants of one original): not emitted again
    run_alias: Option<String>,
}

/// bring a u64 source to the type an operator instance needs
fn prep(b: &mut Builder, i: &Out, want: &str, rng: &mut Rng) -> Out {
    match want {
        "N" => i.clone(),
        "KN" => b.un(i, "map kv3", "map(|x: u64| { let h = hv(&x); (h % 3, h) })", p(N, N), i.ordered, i.est, i.lazy_stateful),
        "KV" => {
            if rng.chance(1, 2) {
                b.un(i, "map kv3", "map(|x: u64| { let h = hv(&x); (h % 3, h) })", p(N, N), i.ordered, i.est, i.lazy_stateful)
            } else {
                b.un(i, "map kvk", "map(|x: u64| (hv(&x) % 4, x))", p(N, N), i.ordered, i.est, i.lazy_stateful)
            }
        }
        "VEC" => b.un(i, "map vec2", "map(|x: u64| vec![x, x + 10])", V(Box::new(N)), i.ordered, i.est, i.lazy_stateful),
        "OPT" => b.un(i, "map opt", "map(|x: u64| if x % 2 == 0 { Some(x) } else { None })", O(Box::new(N)), i.ordered, i.est, i.lazy_stateful),
        "K" => b.un(i, "map k3", "map(|x: u64| x % 3)", N, i.ordered, i.est, i.lazy_stateful),
        _ => panic!(),
    }
}

/// context wrappers: 0 = plain, 1 = forced push (behind a 2-way tee), 2 = forced pull (in front of a 2-way union)
fn ctx_in(b: &mut Builder, i: Out, ctx: usize) -> Out {
    if ctx == 1 {
        let ts = b.tee(&i, 2);
        b.sink(&ts[1]);
        ts[0].clone()
    } else {
        i
    }
}
fn ctx_out(b: &mut Builder, o: Out, ctx: usize) -> Out {
    if ctx == 2 {
        let e = b.empty(&o.ty);
        union_n(b, &[o, e])
    } else {
        o
    }
}

fn unit_programs(out: &mut Vec<ProgOut>, rng: &mut Rng) {
    // unary: for every instance reachable from a u64 / KN / KV / VEC / OPT stream
    let mut seen = std::collections::BTreeSet::new();
    for want in ["N", "KN", "VEC", "OPT"] {
        let mut probe = Builder::default();
        let s = probe.source();
        let s = prep(&mut probe, &s, want, rng);
        let menu = unary_menu(&s);
        for (mi, (desc, _, _, _, _, _)) in menu.iter().enumerate() {
            if !seen.insert(desc.clone()) {
                continue;
            }
            for ctx in 0..3 {
                let mut b = Builder::default();
                let s = b.source();
                let s = prep(&mut b, &s, want, rng);
                let s = ctx_in(&mut b, s, ctx);
                let m = &unary_menu(&s)[mi];
                let o = b.un(&s, &m.0, &m.1, m.2.clone(), m.3, m.4, m.5);
                let o = ctx_out(&mut b, o, ctx);
                b.sink(&o);
                out.push(ProgOut { name: format!("u{}", out.len()), kind: "unit", b, variant: None, oracle: String::new(), desc_override: None, run_alias: None });
            }
        }
    }
    // multi-output
    for (which, want) in [("partition", "N"), ("partition", "KN"), ("unzip", "KN"), ("state", "N")] {
        for pe in PES {
            if which != "state" && pe == Pe::S {
                continue;
            }
            for ctx in 0..2 {
                let mut b = Builder::default();
                let s = b.source();
                let s = prep(&mut b, &s, want, rng);
                let s = ctx_in(&mut b, s, ctx);
                let n = 2 + (out.len() % 2);
                let os = multi_out(&mut b, &s, which, pe, n);
                for o in os {
                    let o = ctx_out(&mut b, o, if ctx == 1 { 2 } else { 0 });
                    b.sink(&o);
                }
                out.push(ProgOut { name: format!("u{}", out.len()), kind: "unit", b, variant: None, oracle: String::new(), desc_override: None, run_alias: None });
            }
        }
    }
    // binary
    let mut seen = std::collections::BTreeSet::new();
    for (wa, wb) in [("N", "N"), ("KN", "KN"), ("KV", "K"), ("KN", "N")] {
        let mut probe = Builder::default();
        let a = probe.source();
        let a = prep(&mut probe, &a, wa, rng);
        let c = probe.source();
        let c = prep(&mut probe, &c, wb, rng);
        let menu = binary_menu(&a, &c);
        for (mi, m) in menu.iter().enumerate() {
            if !seen.insert(m.0.clone()) {
                continue;
            }
            for ctx in 0..2 {
                let mut b = Builder::default();
                let a = b.source();
                let a = prep(&mut b, &a, wa, rng);
                let c = b.source();
                let c = prep(&mut b, &c, wb, rng);
                let a = ctx_in(&mut b, a, ctx);
                let c = if ctx == 1 && mi % 2 == 0 { ctx_in(&mut b, c, ctx) } else { c };
                let menu = binary_menu(&a, &c);
                let Some(m) = menu.iter().find(|x| x.0 == m.0) else { continue };
                let o = b.multi(&[(&a, m.2[0]), (&c, m.2[1])], &m.0, &m.1, m.3.clone(), m.4, m.5, m.6);
                let o = ctx_out(&mut b, o, ctx);
                b.sink(&o);
                out.push(ProgOut { name: format!("u{}", out.len()), kind: "unit", b, variant: None, oracle: String::new(), desc_override: None, run_alias: None });
            }
        }
    }
    // union / tee
    for n in [2usize, 3] {
        let mut b = Builder::default();
        let ins: Vec<Out> = (0..n).map(|_| b.source()).collect();
        let u = union_n(&mut b, &ins);
        let ts = b.tee(&u, n);
        for t in ts {
            b.sink(&t);
        }
        out.push(ProgOut { name: format!("u{}", out.len()), kind: "unit", b, variant: None, oracle: String::new(), desc_override: None, run_alias: None });
    }
}

/// a random typed DAG of `steps` operators over 1-3 sources
fn random_program(rng: &mut Rng, steps: usize) -> Builder {
    let mut b = Builder::default();
    let nsrc = rng.range(1, 3) as usize;
    let mut open: Vec<Out> = (0..nsrc).map(|_| b.source()).collect();
    for _ in 0..steps {
        if open.is_empty() {
            break;
        }
        let k = rng.below(open.len() as u64) as usize;
        match rng.below(10) {
            0..=4 => {
                let i = open.remove(k);
                let menu: Vec<_> = unary_menu(&i).into_iter().filter(|m| m.4 <= 400).collect();
                let m = rng.pick(&menu).clone();
                let o = b.un(&i, &m.0, &m.1, m.2, m.3, m.4, m.5);
                open.push(o);
            }
            5 => {
                let i = open.remove(k);
                let n = rng.range(2, 3) as usize;
                open.extend(b.tee(&i, n));
            }
            6 => {
                let i = open.remove(k);
                let which = match &i.ty {
                    P(..) if rng.chance(1, 2) => "unzip",
                    N if i.ordered && rng.chance(1, 3) => "state",
                    _ => "partition",
                };
                let pe = *rng.pick(&PES);
                let n = rng.range(2, 3) as usize;
                open.extend(multi_out(&mut b, &i, which, pe, n));
            }
            _ => {
                if open.len() < 2 {
                    continue;
                }
                let a = open.remove(k);
                let k2 = rng.below(open.len() as u64) as usize;
                let c = open.remove(k2);
                // make the types fit a random wish
                let (a, c) = match rng.below(4) {
                    0 => {
                        let a2 = if a.ty.is_kv() { a } else { let m = unary_menu(&a).into_iter().find(|m| m.0 == "map kv3").unwrap(); b.un(&a, &m.0, &m.1, m.2, m.3, m.4, m.5) };
                        let c2 = if c.ty.is_kv() { c } else { let m = unary_menu(&c).into_iter().find(|m| m.0 == "map kv3").unwrap(); b.un(&c, &m.0, &m.1, m.2, m.3, m.4, m.5) };
                        (a2, c2)
                    }
                    1 => {
                        let a2 = if a.ty.is_kn() { a } else { let m = unary_menu(&a).into_iter().find(|m| m.0 == "map kv3").unwrap(); b.un(&a, &m.0, &m.1, m.2, m.3, m.4, m.5) };
                        let c2 = if c.ty == N { c } else { let m = unary_menu(&c).into_iter().find(|m| m.0 == "map hv").unwrap(); b.un(&c, &m.0, &m.1, m.2, m.3, m.4, m.5) };
                        let c3 = b.un(&c2, "map k3", "map(|x: u64| x % 3)", N, c2.ordered, c2.est, c2.lazy_stateful);
                        (a2, c3)
                    }
                    2 => {
                        let a2 = if a.ty == N { a } else { let m = unary_menu(&a).into_iter().find(|m| m.0 == "map hv").unwrap(); b.un(&a, &m.0, &m.1, m.2, m.3, m.4, m.5) };
                        let c2 = if c.ty == N { c } else { let m = unary_menu(&c).into_iter().find(|m| m.0 == "map hv").unwrap(); b.un(&c, &m.0, &m.1, m.2, m.3, m.4, m.5) };
                        (a2, c2)
                    }
                    _ => (a, c),
                };
                let menu: Vec<_> = binary_menu(&a, &c).into_iter().filter(|m| m.5 <= 400).collect();
                if menu.is_empty() {
                    open.push(a);
                    open.push(c);
                    continue;
                }
                if a.ty == c.ty && rng.chance(1, 5) {
                    let u = union_n(&mut b, &[a, c]);
                    open.push(u);
                    continue;
                }
                let m = rng.pick(&menu).clone();
                let o = b.multi(&[(&a, m.2[0]), (&c, m.2[1])], &m.0, &m.1, m.3, m.4, m.5, m.6);
                open.push(o);
            }
        }
    }
    for o in open {
        b.sink(&o);
    }
    b
}

/// pass-through pipeline of the given depth in front of `i` (multiset preserving; order preserving
/// unless a partition/union diamond is used)
fn passthrough(b: &mut Builder, mut i: Out, depth: usize, rng: &mut Rng) -> Out {
    for _ in 0..depth {
        let tr = i.ty.rust();
        i = match rng.below(6) {
            0 => b.un(&i, "identity", &format!("identity::<{tr}>()"), i.ty.clone(), i.ordered, i.est, i.lazy_stateful),
            1 => b.un(&i, "map id", &format!("map(|x: {tr}| x)"), i.ty.clone(), i.ordered, i.est, i.lazy_stateful),
            2 => {
                let ts = b.tee(&i, 2);
                b.sink(&ts[1]);
                ts[0].clone()
            }
            3 => {
                let e = b.empty(&i.ty);
                if rng.chance(1, 2) { union_n(b, &[i, e]) } else { union_n(b, &[e, i]) }
            }
            4 => {
                // diamond: partition into 2, rejoin with a union (a permutation of the stream)
                let n = rng.range(2, 3) as usize;
                let ps = multi_out(b, &i, "partition", Pe::T, n);
                let mut u = union_n(b, &ps);
                u.ordered = i.ordered; // the model computes the exact order (port order)
                u
            }
            _ => {
                // tee into two branches that each pass a disjoint half, rejoin
                let ts = b.tee(&i, 2);
                let a = b.un(&ts[0], "filter even", &format!("filter(|x: &{tr}| hv(x) % 2 == 0)"), i.ty.clone(), i.ordered, i.est, false);
                let c = b.un(&ts[1], "filter odd", &format!("filter(|x: &{tr}| hv(x) % 2 != 0)"), i.ty.clone(), i.ordered, i.est, false);
                union_n(b, &[a, c])
            }
        };
    }
    i
}

fn blocking_programs(out: &mut Vec<ProgOut>, rng: &mut Rng, count: usize) {
    let kinds = ["fold_sum", "fold_cnt", "reduce_max", "sort", "persist", "anti_join", "difference", "fold_keyed", "join", "unique", "cross_join_multiset", "reduce_keyed", "lattice_reduce", "zip", "multiset_delta"];
    for c in 0..count {
        let kind = kinds[c % kinds.len()];
        let depth = (c / kinds.len()) % 7;
        let mut b = Builder::default();
        let s0 = b.source();
        let d0 = depth;
        let d1 = rng.below(depth as u64 + 1) as usize;
        match kind {
            "fold_sum" | "fold_cnt" | "reduce_max" | "sort" | "persist" | "unique" | "lattice_reduce" | "multiset_delta" => {
                let i = passthrough(&mut b, s0, d0, rng);
                let pe = *rng.pick(&PES);
                let (desc, code): (String, String) = match kind {
                    "fold_sum" => (format!("fold {} sum", pe.w()), format!("fold::<{}>(|| 0u64, |a: &mut u64, x: u64| {{ *a += x; }})", pe.l())),
                    "fold_cnt" => (format!("fold {} cnt", pe.w()), format!("fold::<{}>(|| 0u64, |a: &mut u64, x: u64| {{ *a += 1; }})", pe.l())),
                    "reduce_max" => (format!("reduce {} max", pe.w()), format!("reduce::<{}>(|a: &mut u64, x: u64| {{ if *a < x {{ *a = x }}; }})", pe.l())),
                    "sort" => ("sort".into(), "sort()".into()),
                    "persist" => ("persist".into(), "persist::<'static, u64>()".into()),
                    "unique" => (format!("unique {}", pe.w()), format!("unique::<{}>()", pe.l())),
                    "multiset_delta" => ("multiset_delta".into(), "map(|x: u64| x) -> multiset_delta() -> map(|x: u64| x)".into()),
                    _ => (format!("lattice_reduce {}", pe.w()), format!("map(|x: u64| Max::new(x)) -> lattice_reduce::<{}>() -> map(|m: Max<u64>| m.into_reveal())", pe.l())),
                };
                let ordered = kind == "sort" || i.ordered;
                let o = b.un(&i, &desc, &code, N, ordered, 36, false);
                b.sink(&o);
                out.push(ProgOut { name: format!("b{c}"), kind: "blocking", b, variant: None, oracle: desc, desc_override: None, run_alias: None });
            }
            "fold_keyed" | "reduce_keyed" => {
                let k = prep(&mut b, &s0, "KN", rng);
                let i = passthrough(&mut b, k, d0, rng);
                let pe = *rng.pick(&PES);
                let (desc, code) = if kind == "fold_keyed" {
                    (format!("fold_keyed {} sum", pe.w()), format!("fold_keyed::<{}, u64, u64>(|| 0u64, |a: &mut u64, x: u64| {{ *a += x; }})", pe.l()))
                } else {
                    (format!("reduce_keyed {} max", pe.w()), format!("reduce_keyed::<{}, u64, u64>(|a: &mut u64, x: u64| {{ if *a < x {{ *a = x }}; }})", pe.l()))
                };
                let o = b.un(&i, &desc, &code, p(N, N), false, 36, false);
                b.sink(&o);
                out.push(ProgOut { name: format!("b{c}"), kind: "blocking", b, variant: None, oracle: desc, desc_override: None, run_alias: None });
            }
            _ => {
                let s1 = b.source();
                let (wa, wb) = match kind {
                    "anti_join" => ("KN", "K"),
                    "join" => ("KN", "KN"),
                    _ => ("N", "N"),
                };
                let a = prep(&mut b, &s0, wa, rng);
                let c2 = prep(&mut b, &s1, wb, rng);
                let a = passthrough(&mut b, a, d1, rng);
                let c2 = passthrough(&mut b, c2, d0, rng);
                let pl = *rng.pick(&PES);
                let pr = *rng.pick(&PES);
                let menu = binary_menu(&a, &c2);
                let want = format!("{kind} {} {}", pl.w(), pr.w());
                let m = menu.iter().find(|m| m.0 == want).unwrap_or_else(|| panic!("{want}")).clone();
                let o = b.multi(&[(&a, m.2[0]), (&c2, m.2[1])], &m.0, &m.1, m.3, m.4, m.5, m.6);
                b.sink(&o);
                out.push(ProgOut { name: format!("b{c}"), kind: "blocking", b, variant: None, oracle: want, desc_override: None, run_alias: None });
            }
        }
    }
}

// ------------------------------------------------------------------ shape perturbation (C22)

/// apply one perturbation to a builder: returns the `perturb` op line and mutates `b`
fn perturb(b: &mut Builder, rng: &mut Rng) -> Option<String> {
    let mut cands = vec![];
    for (ni, n) in b.nodes.iter().enumerate() {
        for k in 0..n.ins.len() {
            cands.push((ni, k));
        }
    }
    if cands.is_empty() {
        return None;
    }
    let (idx, k) = *rng.pick(&cands);
    let stage = *rng.pick(&["identity", "map_id", "tee1", "union1", "tee_null", "union_empty", "tee_null", "union_empty"]);
    let target_id = b.nodes[idx].id;
    Some(perturb_at(b, target_id, k, stage))
}

/// insert `stage` in front of input `k` of node `target_id`
fn perturb_at(b: &mut Builder, target_id: usize, k: usize, stage: &str) -> String {
    let idx = b.nodes.iter().position(|n| n.id == target_id).unwrap();
    let r = b.nodes[idx].ins[k];
    let ty = b.ty(r);
    let tr = ty.rust();
    let fresh = b.next_id;
    b.next_id += 2;
    let one = |desc: &str, expr: String, post: String, nout: usize| NodeD { id: fresh, desc: desc.into(), ins: vec![r], in_labels: vec![], expr, post, out_labels: vec![format!("n{fresh}"); nout], out_tys: vec![ty.clone(); nout] };
    let newn: Vec<NodeD> = match stage {
        "identity" => vec![one("identity", format!("identity::<{tr}>()"), String::new(), 1)],
        "map_id" => vec![one("map id", format!("map(|x: {tr}| x)"), String::new(), 1)],
        "tee1" => vec![one("tee 1", "tee()".into(), String::new(), 1)],
        "union1" => vec![NodeD { id: fresh, desc: "union 1".into(), ins: vec![r], in_labels: vec!["0".into()], expr: "union()".into(), post: String::new(), out_labels: vec![format!("n{fresh}")], out_tys: vec![ty.clone()] }],
        // the same unary union written `x -> union() -> ..` (its input port is elided, not `[0]`)
        "union1e" => vec![one("union 1", "union()".into(), String::new(), 1)],
        "tee_null" => vec![one("tee 2", "tee()".into(), format!("n{fresh} -> for_each(|_x: {tr}| {{}});"), 2)],
        _ => vec![
            NodeD { id: fresh + 1, desc: "empty".into(), ins: vec![], in_labels: vec![], expr: format!("source_iter(Vec::<{tr}>::new())"), post: String::new(), out_labels: vec![format!("n{}", fresh + 1)], out_tys: vec![ty.clone()] },
            NodeD { id: fresh, desc: "union 2".into(), ins: vec![r, (fresh + 1, 0)], in_labels: vec!["0".into(), "1".into()], expr: "union()".into(), post: String::new(), out_labels: vec![format!("n{fresh}")], out_tys: vec![ty.clone()] },
        ],
    };
    let mut nodes = vec![];
    for (ni, n) in b.nodes.iter().enumerate() {
        if ni == idx {
            nodes.extend(newn.clone());
            let mut t = n.clone();
            t.ins[k] = (fresh, 0);
            nodes.push(t);
        } else {
            nodes.push(n.clone());
        }
    }
    b.nodes = nodes;
    let stage = if stage == "union1e" { "union1" } else { stage };
    format!("perturb {stage} {fresh} {target_id} {k}")
}


/// F22 witnesses: a lazily evaluated stateful operator fused (same subgraph) with a consumer that
/// stops pulling early; the variant separates them with a handoff (tee + dropped branch).
fn finding_programs(out: &mut Vec<ProgOut>) {
    let kv = |b: &mut Builder, i: &Out| b.un(i, "map kv3", "map(|x: u64| { let h = hv(&x); (h % 3, h) })", p(N, N), true, i.est, false);
    // (a) enumerate::<'static> -> chain_first_n(1)
    {
        let mut b = Builder::default();
        let s0 = b.source();
        let s1 = b.source();
        let e = b.un(&s0, "enumerate static", "enumerate::<'static>() -> map(|x: (usize, u64)| (x.0 as u64, x.1))", p(N, N), true, 6, true);
        let k = kv(&mut b, &s1);
        let c = b.multi(&[(&e, "0"), (&k, "1")], "chain_first_n 1", "chain_first_n(1)", p(N, N), true, 1, false);
        b.sink(&c);
        let cid = c.node;
        let mut v = b.clone();
        v.next_id = b.next_id + 100;
        let line = perturb_at(&mut v, cid, 0, "tee_null");
        let _ = line;
        let vl: Vec<String> = v.desc_lines().into_iter().filter(|l| l.starts_with("node ")).map(|l| format!("v{l}")).collect();
        let d = vec!["node 0 source 0 <-".to_string(), "node 1 source 1 <-".into(), "node 3 map kv3 <- 1.0".into(), "node 4 fused_enum_chain_first_n 1 <- 0.0 3.0".into(), "sink 0 4.0 seq".into()];
        out.push(ProgOut { name: "f0".into(), kind: "finding", b, variant: Some((vl, v)), oracle: "finding:lazy-shortcircuit".into(), desc_override: Some(d), run_alias: None });
    }
    // (b) unique::<'static> -> [input]cross_singleton (single side empty in some ticks)
    {
        let mut b = Builder::default();
        let s0 = b.source();
        let s1 = b.source();
        let u = b.un(&s0, "unique static", "unique::<'static>()", N, true, 6, true);
        let c = b.multi(&[(&u, "input"), (&s1, "single")], "cross_singleton tick", "cross_singleton::<'tick>()", p(N, N), true, 6, false);
        b.sink(&c);
        let cid = c.node;
        let mut v = b.clone();
        v.next_id = b.next_id + 100;
        let line = perturb_at(&mut v, cid, 0, "tee_null");
        let _ = line;
        let vl: Vec<String> = v.desc_lines().into_iter().filter(|l| l.starts_with("node ")).map(|l| format!("v{l}")).collect();
        let d = vec!["node 0 source 0 <-".to_string(), "node 1 source 1 <-".into(), "node 3 fused_unique_cross_singleton <- 0.0 1.0".into(), "sink 0 3.0 seq".into()];
        out.push(ProgOut { name: "f1".into(), kind: "finding", b, variant: Some((vl, v)), oracle: "finding:lazy-shortcircuit".into(), desc_override: Some(d), run_alias: None });
    }
    // (c) unique::<'static> -> [signal]defer_signal
    {
        let mut b = Builder::default();
        let s0 = b.source();
        let s1 = b.source();
        let u = b.un(&s1, "unique static", "unique::<'static>()", N, true, 6, true);
        let c = b.multi(&[(&s0, "input"), (&u, "signal")], "defer_signal", "defer_signal()", N, true, 36, false);
        b.sink(&c);
        let cid = c.node;
        let mut v = b.clone();
        v.next_id = b.next_id + 100;
        let line = perturb_at(&mut v, cid, 1, "tee_null");
        let _ = line;
        let vl: Vec<String> = v.desc_lines().into_iter().filter(|l| l.starts_with("node ")).map(|l| format!("v{l}")).collect();
        let d = vec!["node 0 source 0 <-".to_string(), "node 1 source 1 <-".into(), "node 3 fused_unique_defer_signal <- 0.0 1.0".into(), "sink 0 3.0 seq".into()];
        out.push(ProgOut { name: "f2".into(), kind: "finding", b, variant: Some((vl, v)), oracle: "finding:lazy-shortcircuit".into(), desc_override: Some(d), run_alias: None });
    }
}

// ------------------------------------------------------------------ unary union()/tee() directly at input ports

/// The shapes `eliminate_extra_unions_tees` splices out of the flat graph (`remove_intermediate_node`),
/// as the LAST stages in front of an input port: `tee` = `x -> tee()` with one consumer, `unionE` =
/// `x -> union()` (elided input port), `union0` = `u = union(); x -> [0]u` (explicit input port), and chains.
const SPLICES: [&[&str]; 6] = [&["tee"], &["unionE"], &["union0"], &["tee", "unionE"], &["union0", "tee"], &["unionE", "union0", "tee"]];

fn splice(b: &mut Builder, mut i: Out, shape: &[&str]) -> Out {
    for st in shape {
        let lz = i.lazy_stateful;
        i = match *st {
            "tee" => {
                let mut o = b.tee(&i, 1).remove(0);
                o.lazy_stateful = lz;
                o
            }
            "unionE" => b.un(&i, "union 1", "union()", i.ty.clone(), i.ordered, i.est, lz),
            "union0" => b.multi(&[(&i, "0")], "union 1", "union()", i.ty.clone(), i.ordered, i.est, lz),
            _ => panic!(),
        };
    }
    i
}

/// (description = oracle tag, code) of a one-input blocking operator of the C23 families
fn blocking_unary_op(kind: &str, pe: Pe) -> (String, String) {
    match kind {
        "fold_sum" => (format!("fold {} sum", pe.w()), format!("fold::<{}>(|| 0u64, |a: &mut u64, x: u64| {{ *a += x; }})", pe.l())),
        "fold_cnt" => (format!("fold {} cnt", pe.w()), format!("fold::<{}>(|| 0u64, |a: &mut u64, x: u64| {{ *a += 1; }})", pe.l())),
        "reduce_max" => (format!("reduce {} max", pe.w()), format!("reduce::<{}>(|a: &mut u64, x: u64| {{ if *a < x {{ *a = x }}; }})", pe.l())),
        "sort" => ("sort".into(), "sort()".into()),
        "persist" => ("persist".into(), "persist::<'static, u64>()".into()),
        "unique" => (format!("unique {}", pe.w()), format!("unique::<{}>()", pe.l())),
        "multiset_delta" => ("multiset_delta".into(), "map(|x: u64| x) -> multiset_delta() -> map(|x: u64| x)".into()),
        "lattice_reduce" => (format!("lattice_reduce {}", pe.w()), format!("map(|x: u64| Max::new(x)) -> lattice_reduce::<{}>() -> map(|m: Max<u64>| m.into_reveal())", pe.l())),
        "fold_keyed" => (format!("fold_keyed {} sum", pe.w()), format!("fold_keyed::<{}, u64, u64>(|| 0u64, |a: &mut u64, x: u64| {{ *a += x; }})", pe.l())),
        "reduce_keyed" => (format!("reduce_keyed {} max", pe.w()), format!("reduce_keyed::<{}, u64, u64>(|a: &mut u64, x: u64| {{ if *a < x {{ *a = x }}; }})", pe.l())),
        _ => panic!("{kind}"),
    }
}

/// C23: for every blocking input port of the oracle's catalogue, pipelines (depth 0-2 of the usual
/// pass-through stages) whose last stage(s) directly in front of the port are unary `union()` / `tee()`
/// (every shape of `SPLICES`), on either port, on both ports, for every persistence combination.
fn splice_blocking_programs(out: &mut Vec<ProgOut>, rng: &mut Rng) {
    let mut c = 0usize;
    let unary = ["fold_sum", "fold_cnt", "reduce_max", "sort", "persist", "unique", "lattice_reduce", "multiset_delta", "fold_keyed", "reduce_keyed"];
    for (ki, kind) in unary.iter().enumerate() {
        for j in 0..4 {
            let shape = if j < 3 { SPLICES[j] } else { SPLICES[3 + ki % 3] };
            let pe = PES[(ki + j) % 2];
            let mut b = Builder::default();
            let s0 = b.source();
            let keyed = kind.ends_with("_keyed");
            let i = if keyed { prep(&mut b, &s0, "KN", rng) } else { s0 };
            let d = rng.below(3) as usize;
            let i = passthrough(&mut b, i, d, rng);
            let i = splice(&mut b, i, shape);
            let (desc, code) = blocking_unary_op(kind, pe);
            let ordered = *kind == "sort" || (i.ordered && !keyed);
            let o = b.un(&i, &desc, &code, if keyed { p(N, N) } else { N }, ordered, 36, false);
            b.sink(&o);
            out.push(ProgOut { name: format!("s{c}"), kind: "blocking", b, variant: None, oracle: desc, desc_override: None, run_alias: None });
            c += 1;
        }
        // behind a named OUTPUT port: source -> partition(2); `[0]` (the even items) -> unary union/tee ->
        // pipeline -> unary union/tee -> operator, `[1]` dropped into an earlier sink (oracle tag `evens ..`)
        {
            let pe = PES[ki % 2];
            let mut b = Builder::default();
            let s0 = b.source();
            let ps = multi_out(&mut b, &s0, "partition", Pe::T, 2);
            b.sink(&ps[1]);
            let i = splice(&mut b, ps[0].clone(), SPLICES[ki % 6]);
            let keyed = kind.ends_with("_keyed");
            let i = if keyed { prep(&mut b, &i, "KN", rng) } else { i };
            let d = rng.below(2) as usize;
            let i = passthrough(&mut b, i, d, rng);
            let i = splice(&mut b, i, SPLICES[(ki + 1) % 3]);
            let (desc, code) = blocking_unary_op(kind, pe);
            let ordered = *kind == "sort" || (i.ordered && !keyed);
            let o = b.un(&i, &desc, &code, if keyed { p(N, N) } else { N }, ordered, 36, false);
            b.sink(&o);
            out.push(ProgOut { name: format!("s{c}"), kind: "blocking", b, variant: None, oracle: format!("evens {desc}"), desc_override: None, run_alias: None });
            c += 1;
        }
    }
    let binary = ["anti_join", "difference", "join", "cross_join_multiset", "cross_join", "zip"];
    let combos = [(Pe::T, Pe::T), (Pe::T, Pe::S), (Pe::S, Pe::T), (Pe::S, Pe::S)];
    for (ki, kind) in binary.iter().enumerate() {
        // (spliced ports, shape index): each port alone x {3 single shapes, 1 chain}, then both ports
        let mut plans: Vec<([Option<usize>; 2], usize)> = vec![];
        for port in 0..2 {
            for j in 0..4 {
                let sh = if j < 3 { j } else { 3 + (ki + port) % 3 };
                let mut pl = [None, None];
                pl[port] = Some(sh);
                plans.push((pl, j));
            }
        }
        plans.push(([Some(ki % 3), Some((ki + 1) % 3)], ki % 4));
        plans.push(([Some(3 + ki % 3), Some((ki + 2) % 3)], (ki + 2) % 4));
        for (pl, j) in plans {
            let (pel, per) = if *kind == "zip" { (Pe::T, Pe::T) } else { combos[j] };
            let mut b = Builder::default();
            let s0 = b.source();
            let s1 = b.source();
            let (wa, wb) = match *kind {
                "anti_join" => ("KN", "K"),
                "join" => ("KN", "KN"),
                _ => ("N", "N"),
            };
            let a = prep(&mut b, &s0, wa, rng);
            let c2 = prep(&mut b, &s1, wb, rng);
            let da = rng.below(3) as usize;
            let dc = rng.below(3) as usize;
            let a = passthrough(&mut b, a, da, rng);
            let c2 = passthrough(&mut b, c2, dc, rng);
            let a = if let Some(sh) = pl[0] { splice(&mut b, a, SPLICES[sh]) } else { a };
            let c2 = if let Some(sh) = pl[1] { splice(&mut b, c2, SPLICES[sh]) } else { c2 };
            let menu = binary_menu(&a, &c2);
            let want = format!("{kind} {} {}", pel.w(), per.w());
            let m = menu.iter().find(|m| m.0 == want).unwrap_or_else(|| panic!("{want}")).clone();
            let o = b.multi(&[(&a, m.2[0]), (&c2, m.2[1])], &m.0, &m.1, m.3, m.4, m.5, m.6);
            b.sink(&o);
            out.push(ProgOut { name: format!("s{c}"), kind: "blocking", b, variant: None, oracle: want, desc_override: None, run_alias: None });
            c += 1;
        }
    }
}

/// C22: for every two-input operator of the catalogue (one persistence combination each, rotating) and
/// each of its input ports: the pair (original, the same program with a unary `tee()` / `union()` with
/// `[0]` input port / `union()` with elided input port inserted directly in front of that port), plus one
/// pair with a chain of two of them; the same behind each output port of partition / unzip. One compiled
/// original is shared by its variants.
fn port_perturb_programs(out: &mut Vec<ProgOut>, rng: &mut Rng) {
    let mut seen = std::collections::BTreeSet::new();
    let mut idx = 0usize;
    // `targets[port]` = (node, input index) in front of which the stages are inserted
    let push_pairs = |out: &mut Vec<ProgOut>, b: Builder, targets: [(usize, usize); 2], idx: usize| {
        let orig = format!("p{idx}");
        let mut plans: Vec<(String, Vec<(usize, &str)>)> = vec![];
        for port in 0..2 {
            for st in ["tee1", "union1", "union1e"] {
                plans.push((format!("{orig}_{port}{st}"), vec![(port, st)]));
            }
        }
        let cp = idx % 2;
        plans.push((format!("{orig}_chain"), if idx % 4 < 2 { vec![(cp, "tee1"), (cp, "union1e")] } else { vec![(cp, "union1"), (cp, "tee1")] }));
        for (vi, (name, steps)) in plans.into_iter().enumerate() {
            let mut v = b.clone();
            v.next_id = b.next_id + 100;
            let lines: Vec<String> = steps.iter().map(|(port, st)| perturb_at(&mut v, targets[*port].0, targets[*port].1, st)).collect();
            out.push(ProgOut { name: if vi == 0 { orig.clone() } else { name }, kind: "port", b: b.clone(), variant: Some((lines, v)), oracle: String::new(), desc_override: None, run_alias: if vi == 0 { None } else { Some(orig.clone()) } });
        }
    };
    for (wa, wb) in [("N", "N"), ("KN", "KN"), ("KV", "K"), ("KN", "N")] {
        let mut probe = Builder::default();
        let a = probe.source();
        let a = prep(&mut probe, &a, wa, rng);
        let c = probe.source();
        let c = prep(&mut probe, &c, wb, rng);
        let menu = binary_menu(&a, &c);
        let mut names: Vec<String> = vec![];
        for m in &menu {
            let nm = m.0.split(' ').next().unwrap().to_string();
            if !names.contains(&nm) {
                names.push(nm);
            }
        }
        for nm in names {
            if !seen.insert(nm.clone()) {
                continue;
            }
            let entries: Vec<_> = menu.iter().filter(|m| m.0.split(' ').next().unwrap() == nm).collect();
            let pick = entries[idx % entries.len()].0.clone();
            let mut b = Builder::default();
            let a = b.source();
            let a = prep(&mut b, &a, wa, rng);
            let c = b.source();
            let c = prep(&mut b, &c, wb, rng);
            let menu2 = binary_menu(&a, &c);
            let m = menu2.iter().find(|x| x.0 == pick).unwrap().clone();
            let o = b.multi(&[(&a, m.2[0]), (&c, m.2[1])], &m.0, &m.1, m.3.clone(), m.4, m.5, m.6);
            b.sink(&o);
            push_pairs(out, b, [(o.node, 0), (o.node, 1)], idx);
            idx += 1;
        }
    }
    // union with two inputs
    {
        let mut b = Builder::default();
        let ins: Vec<Out> = (0..2).map(|_| b.source()).collect();
        let u = union_n(&mut b, &ins);
        b.sink(&u);
        push_pairs(out, b, [(u.node, 0), (u.node, 1)], idx);
        idx += 1;
    }
    // the same directly behind the named OUTPUT ports of partition / unzip (the consumers of `n[0]`, `n[1]`)
    for which in ["partition", "unzip"] {
        let mut b = Builder::default();
        let s = b.source();
        let s = if which == "unzip" { prep(&mut b, &s, "KN", rng) } else { s };
        let os = multi_out(&mut b, &s, which, Pe::T, 2);
        let mut tg = [(0usize, 0usize); 2];
        for (k, o) in os.iter().enumerate() {
            let tr = o.ty.rust();
            let m = b.un(o, "map id", &format!("map(|x: {tr}| x)"), o.ty.clone(), o.ordered, o.est, false);
            b.sink(&m);
            tg[k] = (m.node, 0);
        }
        push_pairs(out, b, tg, idx);
        idx += 1;
    }
}

// ------------------------------------------------------------------ user closures deciding the order

/// `sort_by_key` with a key that is NOT order-compatible with the item's own `Ord`, made observable as a
/// sequence (the stock menu entries `kfst` / `ksnd` are compared as bags: the sort is unstable):
///  * `sortk_items`: items `(x % 4, x)` sorted by `&x.1` - the key determines the item, so the order is
///    exact; by the whole item they would come grouped by `x % 4`;
///  * `sortk_keys`: items `(x, x % 3)` sorted by `&x.1`, then projected to the key - the sequence of keys is
///    exact although items with equal keys may come in any order;
///  * `sortk_fst`: items `(x % 4, x)` sorted by `&x.0`, projected to the key (control: compatible with Ord).
/// Each in the three contexts (plain, behind a tee = push side, in front of a union = pull side) for C21 and
/// as C22 pairs (original, variant forced onto the push side / onto the pull side / both / identity).
fn keyed_chain(b: &mut Builder, s: &Out, which: &str) -> (Out, usize) {
    // returns (output, id of the sort_by_key node)
    match which {
        "sortk_items" => {
            let k = b.un(s, "map kvk", "map(|x: u64| (hv(&x) % 4, x))", p(N, N), s.ordered, s.est, false);
            let o = b.un(&k, "sort_by_key ksnd", "sort_by_key(|x: &(u64, u64)| &x.1)", p(N, N), true, s.est, false);
            let sid = o.node;
            (b.un(&o, "map id", "map(|x: (u64, u64)| x)", p(N, N), true, s.est, false), sid)
        }
        "sortk_keys" => {
            let k = b.un(s, "map kv3", "map(|x: u64| { let h = hv(&x); (h % 3, h) })", p(N, N), s.ordered, s.est, false);
            let w = b.un(&k, "map swap", "map(|x: (u64, u64)| (x.1, x.0))", p(N, N), s.ordered, s.est, false);
            let o = b.un(&w, "sort_by_key ksnd", "sort_by_key(|x: &(u64, u64)| &x.1)", p(N, N), false, s.est, false);
            let sid = o.node;
            (b.un(&o, "map snd", "map(|x: (u64, u64)| x.1)", N, true, s.est, false), sid)
        }
        "sortk_fst" => {
            let k = b.un(s, "map kvk", "map(|x: u64| (hv(&x) % 4, x))", p(N, N), s.ordered, s.est, false);
            let o = b.un(&k, "sort_by_key kfst", "sort_by_key(|x: &(u64, u64)| &x.0)", p(N, N), false, s.est, false);
            let sid = o.node;
            (b.un(&o, "map fst", "map(|x: (u64, u64)| x.0)", N, true, s.est, false), sid)
        }
        _ => panic!(),
    }
}

fn keyed_programs(out: &mut Vec<ProgOut>) {
    let mut c = 0usize;
    for which in ["sortk_items", "sortk_keys", "sortk_fst"] {
        // C21: the sort directly behind a 2-way tee (push side) / its consumer in front of a 2-way union (pull side)
        for ctx in 0..4 {
            let mut b = Builder::default();
            let s = b.source();
            let (o, sid) = keyed_chain(&mut b, &s, which);
            let consumer = o.node;
            b.sink(&o);
            let mut lines = vec![];
            let mut v = b.clone();
            v.next_id = b.next_id + 100;
            if ctx == 1 || ctx == 3 {
                lines.push(perturb_at(&mut v, sid, 0, "tee_null"));
            }
            if ctx == 2 || ctx == 3 {
                lines.push(perturb_at(&mut v, consumer, 0, "union_empty"));
            }
            // the C21 program is the perturbed one itself (its own description), no variant
            let _ = lines;
            out.push(ProgOut { name: format!("k{c}"), kind: "keyed", b: v, variant: None, oracle: which.into(), desc_override: None, run_alias: None });
            c += 1;
        }
        // C22 pairs sharing the plain original
        let mut b = Builder::default();
        let s = b.source();
        let (o, sid) = keyed_chain(&mut b, &s, which);
        let consumer = o.node;
        b.sink(&o);
        let orig = format!("k{c}");
        let plans: [&[(usize, &str)]; 5] = [&[(sid, "tee_null")], &[(consumer, "union_empty")], &[(sid, "tee_null"), (consumer, "union_empty")], &[(sid, "identity")], &[(sid, "tee1"), (consumer, "union1")]];
        for (vi, steps) in plans.iter().enumerate() {
            let mut v = b.clone();
            v.next_id = b.next_id + 100;
            let lines: Vec<String> = steps.iter().map(|(t, st)| perturb_at(&mut v, *t, 0, st)).collect();
            out.push(ProgOut { name: if vi == 0 { orig.clone() } else { format!("{orig}_{vi}") }, kind: "keyed", b: b.clone(), variant: Some((lines, v)), oracle: which.into(), desc_override: None, run_alias: if vi == 0 { None } else { Some(orig.clone()) } });
        }
        c += 1;
    }
}

// ------------------------------------------------------------------ wiring of the partitioned graph

fn is_splice(n: &NodeD) -> bool {
    n.desc == "tee 1" || n.desc == "union 1"
}

/// Run the program text through the real `dfir_lang` pipeline (parse, flat graph, eliminate, partition;
/// no rustc) and compare, for every operator input of the description, which producer the partitioned
/// graph connects to which input port (through handoffs) with the program as written (unary unions and
/// tees resolved to what feeds them). Returns (node id, text, the operator still receives the same sequence of
/// item types = rustc will still accept the program and the execution oracles judge it).
fn wiring_check(b: &Builder) -> Vec<(Option<usize>, String, bool)> {
    use dfir_lang::graph::{GraphNode, GraphNodeId};
    let text = b.body();
    let code = match syn::parse_str::<dfir_lang::parse::DfirCode>(&text) {
        Ok(c) => c,
        Err(e) => return vec![(None, format!("parse: {e}"), false)],
    };
    let built = std::panic::catch_unwind(std::panic::AssertUnwindSafe(|| dfir_lang::graph::build_dfir_code(code, &quote::quote!(dfir_rs))));
    let g = match built {
        Ok(Ok(o)) => o.partitioned_graph,
        Ok(Err(d)) => return vec![(None, format!("dfir_lang rejects the program: {}", d.iter().map(|x| x.to_string()).collect::<Vec<_>>().join(" / ").chars().take(200).collect::<String>()), false)],
        Err(_) => return vec![(None, "dfir_lang panicked on the program".into(), false)],
    };
    let var = |n: GraphNodeId| g.node_varname(n).map(|v| v.0.to_string());
    let producers = |n: GraphNodeId| -> Vec<(String, String, String)> {
        let mut v = vec![];
        for (e, pnode) in g.node_predecessors(n) {
            let dst = g.edge_ports(e).1.to_string();
            let (mut e, mut pnode) = (e, pnode);
            let mut guard = 0;
            while matches!(g.node(pnode), GraphNode::Handoff { .. }) && guard < 64 {
                let Some((e2, p2)) = g.node_predecessors(pnode).next() else { break };
                e = e2;
                pnode = p2;
                guard += 1;
            }
            let src = g.edge_ports(e).0.to_string();
            v.push((var(pnode).unwrap_or_else(|| "?".into()), src, dst));
        }
        v
    };
    let mut errs = vec![];
    for n in &b.nodes {
        if n.ins.is_empty() || is_splice(n) {
            continue;
        }
        let me = format!("n{}", n.id);
        let gn: Vec<GraphNodeId> = g.node_ids().filter(|&x| var(x).as_deref() == Some(me.as_str())).collect();
        let mut got: Vec<(String, String, String)> = gn.iter().flat_map(|&x| producers(x)).filter(|(v, _, _)| *v != me).collect();
        got.sort();
        let mut exp = vec![];
        for (k, r) in n.ins.iter().enumerate() {
            let mut r = *r;
            while is_splice(b.node(r.0)) {
                r = b.node(r.0).ins[0];
            }
            let label = b.label(r);
            let (v, sp) = match label.split_once('[') {
                Some((v, rest)) => (v.to_string(), rest.trim_end_matches(']').to_string()),
                None => (label.clone(), "[]".to_string()),
            };
            let dp = if n.in_labels.is_empty() { "[]".to_string() } else { n.in_labels[k].clone() };
            exp.push((v, sp, dp));
        }
        exp.sort();
        if got != exp {
            // What matters is which producer an operator receives as its k-th input: code generation
            // hands an operator its inputs in the order of their destination ports (integers, then names
            // alphabetically, then elided; equal ports: unspecified). A changed port label that leaves that
            // order alone is not reported here (C20's business); a changed order / producer is.
            let key = |d: &str| -> (u8, u64, String) {
                if d == "[]" {
                    (2, 0, String::new())
                } else if let Ok(i) = d.parse::<u64>() {
                    (0, i, String::new())
                } else {
                    (1, 0, d.to_string())
                }
            };
            let ty_of = |v: &str, sp: &str| -> Option<Ty> {
                let label = if sp == "[]" { v.to_string() } else { format!("{v}[{sp}]") };
                b.nodes.iter().find_map(|m| m.out_labels.iter().position(|l| *l == label).map(|k| m.out_tys[k].clone())).or_else(|| {
                    // an output port the program does not have (a lost / changed source port): still typed
                    // when every output of that operator has the same item type
                    let pre = format!("{v}[");
                    let m = b.nodes.iter().find(|m| m.out_labels.iter().any(|l| *l == v || l.starts_with(&pre)))?;
                    m.out_tys.iter().all(|t| *t == m.out_tys[0]).then(|| m.out_tys[0].clone())
                })
            };
            // producers in input order; None = two different producers on equal ports
            let order = |v: &Vec<(String, String, String)>| -> Option<Vec<(String, String)>> {
                let mut w: Vec<((u8, u64, String), (String, String))> = v.iter().map(|(a, s, d)| (key(d), (a.clone(), s.clone()))).collect();
                w.sort();
                let tie = w.windows(2).any(|p| p[0].0 == p[1].0 && p[0].1 != p[1].1);
                if tie { None } else { Some(w.into_iter().map(|x| x.1).collect()) }
            };
            let (eo, go) = (order(&exp), order(&got));
            if eo.is_some() && eo == go {
                continue;
            }
            // Does rustc still accept the program (then the execution oracles judge it)? Yes when the
            // operator still receives the same sequence of item types.
            let tys = |o: &Option<Vec<(String, String)>>| -> Option<Vec<Ty>> { o.as_ref().and_then(|v| v.iter().map(|(a, s)| ty_of(a, s)).collect()) };
            let got_tys: Option<Vec<Ty>> = got.iter().map(|(a, s, _)| ty_of(a, s)).collect();
            let exp_tys: Option<Vec<Ty>> = exp.iter().map(|(a, s, _)| ty_of(a, s)).collect();
            let uniform = |t: &Option<Vec<Ty>>| t.as_ref().is_some_and(|v| v.iter().all(|x| *x == v[0]));
            let all_same = got.len() == exp.len() && uniform(&got_tys) && uniform(&exp_tys) && got_tys.as_ref().map(|v| v.first().cloned()) == exp_tys.as_ref().map(|v| v.first().cloned());
            let compiles = all_same
                || match (tys(&eo), tys(&go)) {
                    (Some(a), Some(c)) => a == c,
                    _ => false,
                };
            let f = |v: &Vec<(String, String, String)>| v.iter().map(|(a, s, d)| format!("{a}{}->[{}]", if s == "[]" { String::new() } else { format!("[{s}]") }, if d == "[]" { "" } else { d })).collect::<Vec<_>>().join(",");
            errs.push((Some(n.id), format!("node {} `{}` written {} partitioned-graph {}", n.id, n.desc, f(&exp), f(&got)), compiles));
        }
    }
    errs
}

/// (text for ProgInfo.wiring, replace the function by a stub because rustc may reject the mis-wired program)
fn wiring_verdict(b: &Builder) -> (String, bool) {
    let errs = wiring_check(b);
    let quarantine = errs.iter().any(|e| !e.2);
    (errs.iter().map(|e| e.1.clone()).collect::<Vec<_>>().join("; "), quarantine)
}

fn with_variant(mut po: ProgOut, rng: &mut Rng, nperturb: usize) -> ProgOut {
    let mut v = po.b.clone();
    // ids of fresh nodes start above every id of the original
    v.next_id = po.b.next_id + 100;
    let mut lines = vec![];
    for _ in 0..nperturb {
        if let Some(l) = perturb(&mut v, rng) {
            lines.push(l);
        }
    }
    if !lines.is_empty() {
        po.variant = Some((lines, v));
    }
    po
}

fn rust_str(s: &str) -> String {
    format!("{:?}", s)
}

fn main() {
    println!("cargo:rerun-if-changed=build.rs");
    println!("cargo:rerun-if-env-changed=HV_DFIR_SCALE");
    let scale: usize = std::env::var("HV_DFIR_SCALE").ok().and_then(|s| s.parse().ok()).unwrap_or(100);
    let root = Rng::new(CORPUS_SEED);
    let mut progs: Vec<ProgOut> = vec![];
    let mut rng = root.fork(1);
    unit_programs(&mut progs, &mut rng);
    if scale < 100 {
        let stride = (100 / scale.max(1)).max(1);
        progs = progs.into_iter().enumerate().filter(|(i, _)| i % stride == 0).map(|(_, p)| p).collect();
    }
    let nunit = progs.len();
    // variants for every 4th unit program
    let mut rngv = root.fork(2);
    let mut progs: Vec<ProgOut> = progs.into_iter().enumerate().map(|(i, po)| if i % 5 == 0 { let n = 1 + (i / 5) % 2; with_variant(po, &mut rngv, n) } else { po }).collect();
    // random programs, each with a variant
    let nrand = 90 * scale / 100;
    for i in 0..nrand {
        let mut rng = root.fork(1000 + i as u64);
        let steps = 2 + (i % 9);
        let b = random_program(&mut rng, steps);
        let po = ProgOut { name: format!("r{i}"), kind: "random", b, variant: None, oracle: String::new(), desc_override: None, run_alias: None };
        let np = rng.range(1, 3) as usize;
        progs.push(with_variant(po, &mut rng, np));
    }
    // blocking-input pipelines (C23), each second one with a variant
    let nblock = 90 * scale / 100;
    let mut bl = vec![];
    let mut rngb = root.fork(3);
    blocking_programs(&mut bl, &mut rngb, nblock);
    for (i, po) in bl.into_iter().enumerate() {
        progs.push(if i % 3 == 0 { with_variant(po, &mut rngb, 2) } else { po });
    }
    let _ = nunit;
    finding_programs(&mut progs);
    // unary union()/tee() directly at input ports (always at full scale): C23 pipelines, C22 pairs
    let mut rngs = root.fork(4);
    splice_blocking_programs(&mut progs, &mut rngs);
    let mut rngp = root.fork(5);
    port_perturb_programs(&mut progs, &mut rngp);
    // sort_by_key with keys that disagree with the item order, observable as sequences, on both sides
    keyed_programs(&mut progs);

    // the wiring the real dfir_lang pipeline gives every program; a program whose inputs it connects
    // differently from the text in a way rustc may reject is replaced by a stub (reported by the harness)
    std::panic::set_hook(Box::new(|_| {}));
    let verdicts: Vec<((String, bool), Option<(String, bool)>)> = progs.iter().map(|po| (wiring_verdict(&po.b), po.variant.as_ref().map(|(_, v)| wiring_verdict(v)))).collect();
    let _ = std::panic::take_hook();
    let stub = |name: &str, nsink: usize| format!("pub fn run_{name}(_inputs: &[Vec<Vec<u64>>], ticks: usize) -> Vec<Vec<Vec<String>>> {{ quarantined(ticks, {nsink}) }}\n");

    let mut src = String::new();
    let _ = writeln!(src, "// generated by build.rs -- {} programs", progs.len());
    let mut nstub = 0;
    for (po, (w, vw)) in progs.iter().zip(verdicts.iter()) {
        if po.run_alias.is_none() {
            if w.1 {
                nstub += 1;
                src.push_str(&stub(&po.name, po.b.sinks.len()));
            } else {
                src.push_str(&po.b.emit(&po.name));
            }
        }
        if let Some((_, v)) = &po.variant {
            if vw.as_ref().is_some_and(|x| x.1) {
                nstub += 1;
                src.push_str(&stub(&format!("{}_v", po.name), v.sinks.len()));
            } else {
                src.push_str(&v.emit(&format!("{}_v", po.name)));
            }
        }
    }
    let _ = writeln!(src, "pub static PROGS: &[ProgInfo] = &[");
    for (po, (w, vw)) in progs.iter().zip(verdicts.iter()) {
        let desc = po.desc_override.clone().unwrap_or_else(|| po.b.desc_lines()).join("\n");
        let (pl, vrun, vdesc) = match &po.variant {
            Some((ls, v)) => (ls.join("\n"), format!("Some(run_{}_v)", po.name), v.desc_lines().join("\n")),
            None => (String::new(), "None".into(), String::new()),
        };
        let mut ops = po.b.ops.clone();
        ops.sort();
        ops.dedup();
        let _ = writeln!(
            src,
            "    ProgInfo {{ name: {}, kind: {}, nsrc: {}, nsink: {}, desc: {}, perturb: {}, vdesc: {}, oracle: {}, ops: {}, src: {}, vsrc: {}, wiring: {}, vwiring: {}, run: run_{}, vrun: {} }},",
            rust_str(&po.name),
            rust_str(po.kind),
            po.b.nsrc,
            po.b.sinks.len(),
            rust_str(&desc),
            rust_str(&pl),
            rust_str(&vdesc),
            rust_str(&po.oracle),
            rust_str(&ops.join(",")),
            rust_str(&po.b.body()),
            rust_str(&po.variant.as_ref().map(|(_, v)| v.body()).unwrap_or_default()),
            rust_str(&w.0),
            rust_str(&vw.as_ref().map(|x| x.0.clone()).unwrap_or_default()),
            po.run_alias.as_deref().unwrap_or(&po.name),
            vrun
        );
    }
    let _ = writeln!(src, "];");
    let nmis = verdicts.iter().filter(|(w, vw)| !w.0.is_empty() || vw.as_ref().is_some_and(|x| !x.0.is_empty())).count();
    println!("cargo:warning=hv_dfir corpus: {} programs, {} with variants, {} functions; wiring differs from the text in {} programs ({} functions stubbed)", progs.len(), progs.iter().filter(|p| p.variant.is_some()).count(), progs.iter().filter(|p| p.run_alias.is_none()).count() + progs.iter().filter(|p| p.variant.is_some()).count(), nmis, nstub);
    let out = std::path::PathBuf::from(std::env::var("OUT_DIR").unwrap()).join("corpus.rs");
    // (written only when the content changes: an unchanged corpus is not recompiled)
    if std::fs::read_to_string(&out).ok().as_deref() != Some(src.as_str()) {
        std::fs::write(&out, &src).unwrap();
    }
    // a copy for inspection
    let _ = std::fs::write(std::env::var("HV_DFIR_CORPUS_COPY").unwrap_or_else(|_| "/tmp/hv_dfir_corpus.rs".into()), &src);
}
