//! C10 harness: drives the real `variadics` collections with generated histories and
//! writes the transcript for the Lean driver `hvdrv_var` plus the property oracle.
use hv_common::{Args, Recorder, Rng};
use std::collections::BTreeMap;
use variadics::variadic_collections::{
    VariadicCollection, VariadicColumnMultiset, VariadicCountedHashSet, VariadicHashSet,
};
use variadics::{VariadicExt, var_expr, var_type};

type T1 = var_type!(u32);
type T2 = var_type!(u32, u32);
type T3 = var_type!(u32, u32, u32);

/// Arity-erased tuple used by the generator and the oracle.
type Tup = Vec<u32>;

trait Schema: Sized + Clone {
    fn from_tup(t: &Tup) -> Self;
    fn to_tup(&self) -> Tup;
}
impl Schema for T1 {
    fn from_tup(t: &Tup) -> Self {
        var_expr!(t[0])
    }
    fn to_tup(&self) -> Tup {
        let var_expr!(a) = self;
        vec![*a]
    }
}
impl Schema for T2 {
    fn from_tup(t: &Tup) -> Self {
        var_expr!(t[0], t[1])
    }
    fn to_tup(&self) -> Tup {
        let var_expr!(a, b) = self;
        vec![*a, *b]
    }
}
impl Schema for T3 {
    fn from_tup(t: &Tup) -> Self {
        var_expr!(t[0], t[1], t[2])
    }
    fn to_tup(&self) -> Tup {
        let var_expr!(a, b, c) = self;
        vec![*a, *b, *c]
    }
}

fn show_tup(t: &Tup) -> String {
    t.iter().map(|x| x.to_string()).collect::<Vec<_>>().join(",")
}
fn show_list(ts: &[Tup]) -> String {
    if ts.is_empty() { "-".into() } else { ts.iter().map(show_tup).collect::<Vec<_>>().join(";") }
}
fn show_sorted(mut ts: Vec<Tup>) -> String {
    ts.sort();
    show_list(&ts)
}
fn parse_tup(s: &str) -> Option<Tup> {
    s.split(',').map(|p| p.parse().ok()).collect()
}
fn parse_tups(s: &str) -> Option<Vec<Tup>> {
    if s == "-" { Some(vec![]) } else { s.split(';').map(parse_tup).collect() }
}

/// A collection of erased arity; each method calls the real implementation.
trait DynColl {
    fn insert(&mut self, t: &Tup) -> bool;
    fn extend(&mut self, ts: &[Tup]);
    fn len(&self) -> usize;
    fn is_empty(&self) -> bool;
    fn contains(&self, t: &Tup) -> bool;
    fn get(&self, t: &Tup) -> String;
    fn iter(&self) -> Vec<Tup>;
    fn drain(&mut self) -> Vec<Tup>;
    fn into_iter_all(&self) -> Vec<Tup>;
    fn eq_dyn(&self, other: &dyn DynColl) -> Option<bool>;
    fn as_any(&self) -> &dyn std::any::Any;
    fn ordered(&self) -> bool;
}

macro_rules! impl_hs {
    ($ty:ty) => {
        impl DynColl for VariadicHashSet<$ty, std::hash::RandomState> {
            fn insert(&mut self, t: &Tup) -> bool { VariadicCollection::insert(self, <$ty>::from_tup(t)) }
            fn extend(&mut self, ts: &[Tup]) { Extend::extend(self, ts.iter().map(<$ty>::from_tup)) }
            fn len(&self) -> usize { VariadicCollection::len(self) }
            fn is_empty(&self) -> bool { VariadicCollection::is_empty(self) }
            fn contains(&self, t: &Tup) -> bool { VariadicCollection::contains(self, <$ty>::from_tup(t).as_ref_var()) }
            fn get(&self, t: &Tup) -> String {
                match VariadicHashSet::get(self, <$ty>::from_tup(t).as_ref_var()) {
                    Some(u) => show_tup(&u.to_tup()),
                    None => "none".into(),
                }
            }
            fn iter(&self) -> Vec<Tup> { VariadicCollection::iter(self).map(|r| <$ty as variadics::CloneVariadic>::clone_ref_var(r)).map(|o: $ty| o.to_tup()).collect() }
            fn drain(&mut self) -> Vec<Tup> { VariadicCollection::drain(self).map(|o| o.to_tup()).collect() }
            fn into_iter_all(&self) -> Vec<Tup> { self.clone().into_iter().map(|o| o.to_tup()).collect() }
            fn eq_dyn(&self, other: &dyn DynColl) -> Option<bool> { other.as_any().downcast_ref::<Self>().map(|o| self == o) }
            fn as_any(&self) -> &dyn std::any::Any { self }
            fn ordered(&self) -> bool { false }
        }
    };
}
macro_rules! impl_cs {
    ($ty:ty) => {
        impl DynColl for VariadicCountedHashSet<$ty, std::hash::RandomState> {
            fn insert(&mut self, t: &Tup) -> bool { VariadicCollection::insert(self, <$ty>::from_tup(t)) }
            fn extend(&mut self, ts: &[Tup]) { Extend::extend(self, ts.iter().map(<$ty>::from_tup)) }
            fn len(&self) -> usize { VariadicCollection::len(self) }
            fn is_empty(&self) -> bool { VariadicCollection::is_empty(self) }
            fn contains(&self, t: &Tup) -> bool { VariadicCollection::contains(self, <$ty>::from_tup(t).as_ref_var()) }
            fn get(&self, t: &Tup) -> String {
                match VariadicCountedHashSet::get(self, <$ty>::from_tup(t).as_ref_var()) {
                    Some((u, n)) => format!("{}x{}", show_tup(&u.to_tup()), n),
                    None => "none".into(),
                }
            }
            fn iter(&self) -> Vec<Tup> { VariadicCollection::iter(self).map(|r| <$ty as variadics::CloneVariadic>::clone_ref_var(r)).map(|o: $ty| o.to_tup()).collect() }
            fn drain(&mut self) -> Vec<Tup> { VariadicCollection::drain(self).map(|o| o.to_tup()).collect() }
            fn into_iter_all(&self) -> Vec<Tup> { self.clone().into_iter().map(|o| o.to_tup()).collect() }
            fn eq_dyn(&self, other: &dyn DynColl) -> Option<bool> { other.as_any().downcast_ref::<Self>().map(|o| self == o) }
            fn as_any(&self) -> &dyn std::any::Any { self }
            fn ordered(&self) -> bool { false }
        }
    };
}
macro_rules! impl_col {
    ($ty:ty) => {
        impl DynColl for VariadicColumnMultiset<$ty> {
            fn insert(&mut self, t: &Tup) -> bool { VariadicCollection::insert(self, <$ty>::from_tup(t)) }
            fn extend(&mut self, ts: &[Tup]) { Extend::extend(self, ts.iter().map(<$ty>::from_tup)) }
            fn len(&self) -> usize { VariadicCollection::len(self) }
            fn is_empty(&self) -> bool { VariadicCollection::is_empty(self) }
            fn contains(&self, t: &Tup) -> bool { VariadicCollection::contains(self, <$ty>::from_tup(t).as_ref_var()) }
            fn get(&self, _t: &Tup) -> String { "bad-op".into() }
            fn iter(&self) -> Vec<Tup> { VariadicCollection::iter(self).map(|r| <$ty as variadics::CloneVariadic>::clone_ref_var(r)).map(|o: $ty| o.to_tup()).collect() }
            fn drain(&mut self) -> Vec<Tup> { VariadicCollection::drain(self).map(|o| o.to_tup()).collect() }
            fn into_iter_all(&self) -> Vec<Tup> { self.clone().into_iter().map(|o| o.to_tup()).collect() }
            fn eq_dyn(&self, _other: &dyn DynColl) -> Option<bool> { None }
            fn as_any(&self) -> &dyn std::any::Any { self }
            fn ordered(&self) -> bool { true }
        }
    };
}
impl_hs!(T1); impl_hs!(T2); impl_hs!(T3);
impl_cs!(T1); impl_cs!(T2); impl_cs!(T3);
impl_col!(T1); impl_col!(T2); impl_col!(T3);

fn new_coll(kind: &str, arity: usize) -> Option<Box<dyn DynColl>> {
    Some(match (kind, arity) {
        ("hs", 1) => Box::new(VariadicHashSet::<T1, _>::new()),
        ("hs", 2) => Box::new(VariadicHashSet::<T2, _>::new()),
        ("hs", 3) => Box::new(VariadicHashSet::<T3, _>::new()),
        ("cs", 1) => Box::new(VariadicCountedHashSet::<T1, _>::new()),
        ("cs", 2) => Box::new(VariadicCountedHashSet::<T2, _>::new()),
        ("cs", 3) => Box::new(VariadicCountedHashSet::<T3, _>::new()),
        ("col", 1) => Box::new(VariadicColumnMultiset::<T1>::new()),
        ("col", 2) => Box::new(VariadicColumnMultiset::<T2>::new()),
        ("col", 3) => Box::new(VariadicColumnMultiset::<T3>::new()),
        _ => return None,
    })
}

/// Per-slot state: the real collection, its kind, and the abstract history (the oracle's
/// independent bookkeeping: everything inserted since the last drain).
struct Slot {
    kind: String,
    coll: Box<dyn DynColl>,
    hist: Vec<Tup>,
}

struct Runner {
    arity: usize,
    a: Slot,
    b: Slot,
}

fn multiset(ts: &[Tup]) -> BTreeMap<Tup, usize> {
    let mut m = BTreeMap::new();
    for t in ts {
        *m.entry(t.clone()).or_insert(0) += 1;
    }
    m
}

impl Runner {
    fn new(arity: usize) -> Self {
        Runner {
            arity,
            a: Slot { kind: "hs".into(), coll: new_coll("hs", arity).unwrap(), hist: vec![] },
            b: Slot { kind: "hs".into(), coll: new_coll("hs", arity).unwrap(), hist: vec![] },
        }
    }

    /// The property itself, evaluated on the real collection against the history.
    fn oracle(slot: &Slot, rec: &mut Recorder, what: &str) {
        let hist_ms = multiset(&slot.hist);
        let it = slot.coll.iter();
        let it_ms = multiset(&it);
        let into_ms = multiset(&slot.coll.into_iter_all());
        match slot.kind.as_str() {
            "hs" => {
                let distinct: BTreeMap<Tup, usize> = hist_ms.keys().map(|k| (k.clone(), 1)).collect();
                rec.check(it_ms == distinct, &format!("hs-iter-not-set@{what}"), &format!("hist={} iter={}", show_list(&slot.hist), show_list(&it)));
                rec.check(into_ms == distinct, &format!("hs-intoiter-not-set@{what}"), &show_list(&slot.hist));
                rec.check(slot.coll.len() == distinct.len(), &format!("hs-len@{what}"), &show_list(&slot.hist));
            }
            "cs" => {
                rec.check(it_ms == hist_ms, &format!("cs-iter-not-multiset@{what}"), &format!("hist={} iter={}", show_list(&slot.hist), show_list(&it)));
                rec.check(into_ms == hist_ms, &format!("cs-intoiter-not-multiset@{what}"), &show_list(&slot.hist));
                rec.check(slot.coll.len() == slot.hist.len(), &format!("cs-len@{what}"), &show_list(&slot.hist));
            }
            _ => {
                rec.check(it == slot.hist, &format!("col-iter-not-history@{what}"), &format!("hist={} iter={}", show_list(&slot.hist), show_list(&it)));
                rec.check(into_ms == hist_ms, &format!("col-intoiter-not-multiset@{what}"), &show_list(&slot.hist));
                rec.check(slot.coll.len() == slot.hist.len(), &format!("col-len@{what}"), &show_list(&slot.hist));
            }
        }
        rec.check(slot.coll.is_empty() == slot.hist.is_empty(), &format!("{}-isempty@{what}", slot.kind), &show_list(&slot.hist));
    }

    /// Execute one op line on the real collections; returns the implementation's answer.
    fn exec(&mut self, line: &str, rec: &mut Recorder) -> String {
        let parts: Vec<&str> = line.split(' ').collect();
        if parts[0] == "eq" && parts.len() == 1 {
            return match self.a.coll.eq_dyn(self.b.coll.as_ref()) {
                Some(r) => {
                    let want = if self.a.kind == "hs" {
                        multiset(&self.a.hist).keys().collect::<Vec<_>>() == multiset(&self.b.hist).keys().collect::<Vec<_>>()
                    } else {
                        multiset(&self.a.hist) == multiset(&self.b.hist)
                    };
                    rec.check(r == want, &format!("{}-eq", self.a.kind), &format!("A={} B={} got={r}", show_list(&self.a.hist), show_list(&self.b.hist)));
                    rec.count(if r { "eq=true" } else { "eq=false" });
                    r.to_string()
                }
                None => "bad-op".into(),
            };
        }
        let arity = self.arity;
        let slot = match parts[0] {
            "A" => &mut self.a,
            "B" => &mut self.b,
            _ => return "bad-op".into(),
        };
        let ok_tup = |t: &Tup| t.len() == arity;
        match &parts[1..] {
            ["new", k] => match new_coll(k, arity) {
                Some(c) => {
                    *slot = Slot { kind: k.to_string(), coll: c, hist: vec![] };
                    "ok".into()
                }
                None => "bad-op".into(),
            },
            ["insert", t] => match parse_tup(t).filter(ok_tup) {
                Some(t) => {
                    let was = slot.hist.contains(&t);
                    let r = slot.coll.insert(&t);
                    slot.hist.push(t);
                    let want = if slot.kind == "hs" { !was } else { true };
                    rec.check(r == want, &format!("{}-insert-flag", slot.kind), line);
                    rec.count(&format!("insert:{}:{}", slot.kind, if was { "dup" } else { "new" }));
                    Self::oracle(slot, rec, "insert");
                    r.to_string()
                }
                None => "bad-op".into(),
            },
            ["extend", ts] => match parse_tups(ts).filter(|ts| ts.iter().all(ok_tup)) {
                Some(ts) => {
                    slot.coll.extend(&ts);
                    rec.count(&format!("extend:{}:n={}", slot.kind, ts.len().min(4)));
                    slot.hist.extend(ts);
                    Self::oracle(slot, rec, "extend");
                    "ok".into()
                }
                None => "bad-op".into(),
            },
            ["len"] => slot.coll.len().to_string(),
            ["isempty"] => slot.coll.is_empty().to_string(),
            ["contains", t] => match parse_tup(t).filter(ok_tup) {
                Some(t) => {
                    let r = slot.coll.contains(&t);
                    rec.check(r == slot.hist.contains(&t), &format!("{}-contains", slot.kind), line);
                    rec.count(if r { "contains=true" } else { "contains=false" });
                    r.to_string()
                }
                None => "bad-op".into(),
            },
            ["get", t] => match parse_tup(t).filter(ok_tup) {
                Some(t) => slot.coll.get(&t),
                None => "bad-op".into(),
            },
            ["iter"] => {
                let v = slot.coll.iter();
                if slot.coll.ordered() { show_list(&v) } else { show_sorted(v) }
            }
            ["intoiter"] => {
                let v = slot.coll.into_iter_all();
                if slot.coll.ordered() { show_list(&v) } else { show_sorted(v) }
            }
            ["drain"] => {
                let v = slot.coll.drain();
                let ok = if slot.kind == "hs" {
                    multiset(&v) == multiset(&slot.hist).keys().map(|k| (k.clone(), 1)).collect()
                } else {
                    multiset(&v) == multiset(&slot.hist)
                };
                rec.check(ok, &format!("{}-drain", slot.kind), &format!("hist={} drained={}", show_list(&slot.hist), show_list(&v)));
                rec.count(&format!("drain:{}:n={}", slot.kind, v.len().min(4)));
                slot.hist.clear();
                Self::oracle(slot, rec, "drain");
                if slot.coll.ordered() { show_list(&v) } else { show_sorted(v) }
            }
            _ => "bad-op".into(),
        }
    }
}

fn gen_tup(rng: &mut Rng, arity: usize, dom: u64) -> Tup {
    (0..arity).map(|_| rng.below(dom) as u32).collect()
}

/// One generated history on slot(s); `dom` small so duplicates are frequent.
fn gen_case(rng: &mut Rng, arity: usize, kind: &str, steps: usize, dom: u64, malformed: bool) -> Vec<String> {
    let mut ls = vec![format!("A new {kind}")];
    let two = kind != "col";
    if two {
        ls.push(format!("B new {kind}"));
    }
    for _ in 0..steps {
        let slot = if two && rng.chance(1, 3) { "B" } else { "A" };
        let l = match rng.below(20) {
            0..=6 => format!("{slot} insert {}", show_tup(&gen_tup(rng, arity, dom))),
            7..=9 => {
                let n = rng.below(5) as usize;
                let ts: Vec<Tup> = (0..n).map(|_| gen_tup(rng, arity, dom)).collect();
                format!("{slot} extend {}", show_list(&ts))
            }
            10 => format!("{slot} drain"),
            11..=12 => format!("{slot} len"),
            13..=14 => format!("{slot} contains {}", show_tup(&gen_tup(rng, arity, dom))),
            15 => format!("{slot} {}", if rng.chance(1, 2) { "iter" } else { "intoiter" }),
            16 if kind != "col" => format!("{slot} get {}", show_tup(&gen_tup(rng, arity, dom))),
            17 => format!("{slot} isempty"),
            _ if two => "eq".to_string(),
            _ => format!("{slot} iter"),
        };
        ls.push(l);
    }
    if malformed {
        // the malformed stream: wrong arity, garbage, unknown slot, unknown kind
        ls.push(format!("A insert {}", show_tup(&gen_tup(rng, arity + 1, dom))));
        ls.push("A insert x,y".into());
        ls.push("C len".into());
        ls.push("A new tree".into());
        ls.push("A frobnicate".into());
    }
    ls.push("A iter".into());
    ls.push("A intoiter".into());
    if two {
        ls.push("B iter".into());
        ls.push("eq".into());
    }
    ls
}

/// Bounded-exhaustive: every sequence of `len` ops from a tiny alphabet, on both slots.
fn exhaustive_cases(kind: &str, len: usize) -> Vec<Vec<String>> {
    let alphabet: Vec<String> = ["A insert 0", "A insert 1", "B insert 0", "B insert 1", "A drain", "B extend 0;0;1", "eq"]
        .iter()
        .map(|s| s.to_string())
        .collect();
    let mut out = vec![];
    let n = alphabet.len();
    let total = n.pow(len as u32);
    for mut code in 0..total {
        let mut ls = vec![format!("A new {kind}"), format!("B new {kind}")];
        for _ in 0..len {
            ls.push(alphabet[code % n].clone());
            code /= n;
        }
        ls.push("A iter".into());
        ls.push("B iter".into());
        ls.push("A len".into());
        ls.push("eq".into());
        out.push(ls);
    }
    out
}

fn run_case(no: u64, tag: &str, arity: usize, lines: &[String], rec: &mut Recorder) {
    rec.case(no, tag);
    let mut r = Runner::new(arity);
    let mut saw_dup = false;
    let before = rec.hist.get("insert:hs:dup").copied().unwrap_or(0) + rec.hist.get("insert:cs:dup").copied().unwrap_or(0) + rec.hist.get("insert:col:dup").copied().unwrap_or(0);
    for l in lines {
        let out = r.exec(l, rec);
        rec.line(l, &out);
    }
    let after = rec.hist.get("insert:hs:dup").copied().unwrap_or(0) + rec.hist.get("insert:cs:dup").copied().unwrap_or(0) + rec.hist.get("insert:col:dup").copied().unwrap_or(0);
    if after > before {
        saw_dup = true;
    }
    if saw_dup {
        rec.nontrivial();
    }
}

fn main() {
    let args = Args::parse();
    let mut rec = Recorder::new(
        "histories of insert/extend/drain/len/contains/get/iter/eq on two slots over tuple domain {0..dom}^arity (arity 1..3, dom 2..4); non-trivial = the history inserts at least one duplicate tuple; distinct = distinct op-line sequences",
    );
    match args.mode.as_str() {
        "c10" => {
            if let Some(p) = &args.replay {
                // replay: the file holds op lines (with #case lines); arity from the tag `arity=<k>`
                let lines = hv_common::read_lines(p);
                let mut cur: Vec<String> = vec![];
                let mut tag = String::new();
                let mut no = 0u64;
                let mut arity = 2usize;
                let flush = |no: u64, tag: &str, arity: usize, cur: &mut Vec<String>, rec: &mut Recorder| {
                    if no > 0 || !cur.is_empty() {
                        run_case(no, tag, arity, cur, rec);
                    }
                    cur.clear();
                };
                let mut started = false;
                for l in lines {
                    if let Some(rest) = l.strip_prefix("#case ") {
                        if started {
                            flush(no, &tag, arity, &mut cur, &mut rec);
                        }
                        started = true;
                        let mut it = rest.splitn(2, ' ');
                        no = it.next().unwrap().parse().unwrap_or(0);
                        tag = it.next().unwrap_or("").to_string();
                        arity = tag.split(' ').find_map(|w| w.strip_prefix("arity=")).and_then(|v| v.parse().ok()).unwrap_or(2);
                    } else {
                        cur.push(l);
                    }
                }
                if started {
                    flush(no, &tag, arity, &mut cur, &mut rec);
                }
            } else {
                let root = Rng::new(args.seed);
                let mut no = 0u64;
                // bounded-exhaustive part
                let ex_len = if args.tier == "thorough" { 5 } else { 3 };
                for kind in ["hs", "cs"] {
                    for ls in exhaustive_cases(kind, ex_len) {
                        no += 1;
                        run_case(no, "arity=1 exhaustive", 1, &ls, &mut rec);
                    }
                }
                // random part
                for i in 0..args.cases {
                    let mut rng = root.fork(i);
                    let arity = 1 + rng.below(3) as usize;
                    let kind = *rng.pick(&["hs", "cs", "col"]);
                    let steps = rng.range(1, if args.tier == "thorough" { 60 } else { 25 }) as usize;
                    let dom = rng.range(2, 4);
                    let malformed = rng.chance(1, 10);
                    let ls = gen_case(&mut rng, arity, kind, steps, dom, malformed);
                    no += 1;
                    run_case(no, &format!("arity={arity} kind={kind}"), arity, &ls, &mut rec);
                }
            }
        }
        m => {
            eprintln!("unknown mode {m}");
            std::process::exit(2);
        }
    }
    rec.finish(&args.out);
}
