//! C14: the real `sinktools` adaptors over scripted, protocol-checking downstream sinks.
//! Line protocol and the fixed closures: see lean/HvSink/HvSink/Driver/C14.lean.
use crate::wk::{WakeLog, parse_list, show_list};
use futures::{Sink, Stream};
use hv_common::{Args, Recorder, Rng};
use sinktools::lazy::{LazySink, LazySource};
use sinktools::lazy_sink_source::LazySinkSource;
use sinktools::send_iter::SendIter;
use sinktools::send_stream::SendStream;
use sinktools::{SinkBuild, SinkBuilder};
use std::cell::{Cell, RefCell};
use std::collections::{HashMap, VecDeque};
use std::future::Future;
use std::pin::Pin;
use std::rc::Rc;
use std::task::{Context, Poll};

pub const RULE: &str = "C14: a case = one adaptor pipeline (map, filter, filter_map, inspect, for_each, try_for_each, flat_map, flatten, \
a 3-stage chain, unzip, demux_var, demux_map, demux_map_lazy, LazySink, LazySinkSource, LazySource, driven directly or by \
SendIter/SendStream) over scripted downstream sinks (ready/flush/close answer scripts, init-future and stream scripts) and a sequence of \
client calls; non-trivial = some downstream answered Pending or an init future / stream was pending; distinct = distinct op sequences";

fn f_map(x: u64) -> u64 {
    2 * x + 1
}
fn p_filter(x: &u64) -> bool {
    x % 3 != 0
}
fn g_filter_map(x: u64) -> Option<u64> {
    if x % 3 == 0 { None } else { Some(x + 10) }
}
fn g_flat(x: u64) -> Vec<u64> {
    (0..x % 3).map(|i| 10 * x + i).collect()
}

// ---------------------------------------------------------------------------- scripted downstream

#[derive(Clone, Copy, PartialEq)]
enum Ev {
    Ready(bool),
    Send(u64),
    Flush(bool),
    Close(bool),
}
fn show_evs(es: &[Ev]) -> String {
    if es.is_empty() {
        return "-".into();
    }
    es.iter()
        .map(|e| match e {
            Ev::Ready(b) => format!("r{}", *b as u8),
            Ev::Send(x) => format!("s{x}"),
            Ev::Flush(b) => format!("f{}", *b as u8),
            Ev::Close(b) => format!("c{}", *b as u8),
        })
        .collect::<Vec<_>>()
        .join(".")
}

#[derive(Default)]
struct DState {
    ready: VecDeque<bool>,
    flush: VecDeque<bool>,
    close: VecDeque<bool>,
    trace: Vec<Ev>,
    reported: usize,
    /// the sink's own protocol check: most recent poll_ready was Ready and no send since
    armed: bool,
    unreadied_sends: u64,
    /// unreadied sends that were the very first call on this sink (a lazily created sink, finding F5)
    unreadied_first: u64,
    pendings: u64,
}
#[derive(Clone, Default)]
struct DSink(Rc<RefCell<DState>>);
impl DSink {
    fn parse(s: &str) -> Option<DSink> {
        let parts: Vec<&str> = s.split('/').collect();
        if parts.len() != 3 {
            return None;
        }
        let bits = |p: &str| -> Option<VecDeque<bool>> {
            if p == "-" {
                return Some(VecDeque::new());
            }
            p.chars().map(|c| match c { '1' => Some(true), '0' => Some(false), _ => None }).collect()
        };
        Some(DSink(Rc::new(RefCell::new(DState { ready: bits(parts[0])?, flush: bits(parts[1])?, close: bits(parts[2])?, ..Default::default() }))))
    }
    fn poll(&self, which: u8, cx: &mut Context<'_>) -> Poll<Result<(), ()>> {
        let mut d = self.0.borrow_mut();
        let b = match which {
            0 => d.ready.pop_front(),
            1 => d.flush.pop_front(),
            _ => d.close.pop_front(),
        }
        .unwrap_or(true);
        d.trace.push(match which {
            0 => Ev::Ready(b),
            1 => Ev::Flush(b),
            _ => Ev::Close(b),
        });
        if which == 0 {
            d.armed = b;
        }
        if b {
            Poll::Ready(Ok(()))
        } else {
            d.pendings += 1;
            cx.waker().wake_by_ref();
            Poll::Pending
        }
    }
}
impl Sink<u64> for DSink {
    type Error = ();
    fn poll_ready(self: Pin<&mut Self>, cx: &mut Context<'_>) -> Poll<Result<(), ()>> {
        self.poll(0, cx)
    }
    fn start_send(self: Pin<&mut Self>, item: u64) -> Result<(), ()> {
        let mut d = self.0.borrow_mut();
        if !d.armed {
            if d.trace.is_empty() {
                d.unreadied_first += 1;
            } else {
                d.unreadied_sends += 1;
            }
        }
        d.armed = false;
        d.trace.push(Ev::Send(item));
        Ok(())
    }
    fn poll_flush(self: Pin<&mut Self>, cx: &mut Context<'_>) -> Poll<Result<(), ()>> {
        self.poll(1, cx)
    }
    fn poll_close(self: Pin<&mut Self>, cx: &mut Context<'_>) -> Poll<Result<(), ()>> {
        self.poll(2, cx)
    }
}

/// a future that is `Pending` while its script says `0`
struct ScriptFut<T> {
    polls: VecDeque<bool>,
    out: Option<T>,
    pendings: Rc<Cell<u64>>,
    done: Rc<Cell<bool>>,
}
impl<T: Unpin> Future for ScriptFut<T> {
    type Output = Result<T, ()>;
    fn poll(self: Pin<&mut Self>, cx: &mut Context<'_>) -> Poll<Self::Output> {
        let me = self.get_mut();
        match me.polls.pop_front() {
            Some(false) => {
                me.pendings.set(me.pendings.get() + 1);
                cx.waker().wake_by_ref();
                Poll::Pending
            }
            _ => {
                me.done.set(true);
                Poll::Ready(Ok(me.out.take().expect("init future polled after completion")))
            }
        }
    }
}

struct ScriptStream {
    script: VecDeque<Option<u64>>,
    pendings: Rc<Cell<u64>>,
}
impl Stream for ScriptStream {
    type Item = u64;
    fn poll_next(self: Pin<&mut Self>, cx: &mut Context<'_>) -> Poll<Option<u64>> {
        let me = self.get_mut();
        match me.script.pop_front() {
            None => Poll::Ready(None),
            Some(Some(x)) => Poll::Ready(Some(x)),
            Some(None) => {
                me.pendings.set(me.pendings.get() + 1);
                cx.waker().wake_by_ref();
                Poll::Pending
            }
        }
    }
}
fn parse_stream(s: &str) -> Option<VecDeque<Option<u64>>> {
    if s == "-" {
        return Some(VecDeque::new());
    }
    s.split(',').map(|t| if t == "p" { Some(None) } else { t.parse().ok().map(Some) }).collect()
}
fn parse_bits(s: &str) -> Option<VecDeque<bool>> {
    if s == "-" {
        return Some(VecDeque::new());
    }
    s.chars().map(|c| match c { '1' => Some(true), '0' => Some(false), _ => None }).collect()
}

// ------------------------------------------------------------------------------------- pipelines

trait DynSink {
    fn ready(&mut self, cx: &mut Context<'_>) -> Poll<bool>;
    fn send(&mut self, x: u64) -> bool;
    fn flush(&mut self, cx: &mut Context<'_>) -> Poll<bool>;
    fn close(&mut self, cx: &mut Context<'_>) -> Poll<bool>;
}
struct Wrap<S>(Pin<Box<S>>);
impl<S: Sink<u64>> DynSink for Wrap<S> {
    fn ready(&mut self, cx: &mut Context<'_>) -> Poll<bool> {
        self.0.as_mut().poll_ready(cx).map(|r| r.is_ok())
    }
    fn send(&mut self, x: u64) -> bool {
        self.0.as_mut().start_send(x).is_ok()
    }
    fn flush(&mut self, cx: &mut Context<'_>) -> Poll<bool> {
        self.0.as_mut().poll_flush(cx).map(|r| r.is_ok())
    }
    fn close(&mut self, cx: &mut Context<'_>) -> Poll<bool> {
        self.0.as_mut().poll_close(cx).map(|r| r.is_ok())
    }
}
fn wrap<S: Sink<u64> + 'static>(s: S) -> Box<dyn DynSink> {
    Box::new(Wrap(Box::pin(s)))
}

/// the pipe behind a shared handle, so that a `SendIter` / `SendStream` future can own "the sink"
#[derive(Clone)]
struct SharedPipe(Rc<RefCell<Box<dyn DynSink>>>);
impl Sink<u64> for SharedPipe {
    type Error = ();
    fn poll_ready(self: Pin<&mut Self>, cx: &mut Context<'_>) -> Poll<Result<(), ()>> {
        self.0.borrow_mut().ready(cx).map(|ok| if ok { Ok(()) } else { Err(()) })
    }
    fn start_send(self: Pin<&mut Self>, item: u64) -> Result<(), ()> {
        if self.0.borrow_mut().send(item) { Ok(()) } else { Err(()) }
    }
    fn poll_flush(self: Pin<&mut Self>, cx: &mut Context<'_>) -> Poll<Result<(), ()>> {
        self.0.borrow_mut().flush(cx).map(|ok| if ok { Ok(()) } else { Err(()) })
    }
    fn poll_close(self: Pin<&mut Self>, cx: &mut Context<'_>) -> Poll<Result<(), ()>> {
        self.0.borrow_mut().close(cx).map(|ok| if ok { Ok(()) } else { Err(()) })
    }
}

type NextFn = Box<dyn FnMut(&mut Context<'_>) -> Poll<Option<u64>>>;

struct Run {
    kind: String,
    pipe: Option<SharedPipe>,
    next: Option<NextFn>,
    drive: Option<Pin<Box<dyn Future<Output = Result<(), ()>>>>>,
    ds: Vec<(String, DSink)>,
    log: Rc<RefCell<Vec<u64>>>,
    log_reported: usize,
    has_log: bool,
    inits: Rc<Cell<u64>>,
    src_pendings: Rc<Cell<u64>>,
    dead: bool,
    wl: WakeLog,
    // oracle: what the client did
    client_armed: bool,
    client_violated: bool,
    sent: Vec<u64>,
    flushed_clean: bool,
    stream_expected: Vec<u64>,
    stream_got: Vec<u64>,
    drive_items: Vec<u64>,
    drive_done: bool,
    /// the source half was polled since the client's last `poll_ready` (LazySinkSource only)
    next_since_ready: bool,
    unreadied_seen: u64,
    unreadied_first_seen: u64,
    /// the init future has completed
    fut_done: Rc<Cell<bool>>,
}

fn make(kind: &str, args: &[&str]) -> Option<Run> {
    let mut fut = VecDeque::new();
    let mut stream = VecDeque::new();
    let mut dspecs = vec![];
    for a in args {
        if let Some(b) = a.strip_prefix("fut=") {
            fut = parse_bits(b)?;
        } else if let Some(b) = a.strip_prefix("stream=") {
            stream = parse_stream(b)?;
        } else {
            dspecs.push(DSink::parse(a)?);
        }
    }
    let fut_done = Rc::new(Cell::new(false));
    let log: Rc<RefCell<Vec<u64>>> = Rc::new(RefCell::new(vec![]));
    let inits = Rc::new(Cell::new(0u64));
    let src_pendings = Rc::new(Cell::new(0u64));
    let d = |i: usize| dspecs[i].clone();
    let mut ds: Vec<(String, DSink)> = vec![];
    let mut has_log = false;
    let mut next: Option<NextFn> = None;
    let stream_expected: Vec<u64> = stream.iter().flatten().copied().collect();
    let pipe: Option<Box<dyn DynSink>> = match (kind, dspecs.len()) {
        ("map", 1) => {
            ds.push(("d0".into(), d(0)));
            Some(wrap(SinkBuilder::<u64>::new().map(f_map).send_to(d(0))))
        }
        ("filter", 1) => {
            ds.push(("d0".into(), d(0)));
            Some(wrap(SinkBuilder::<u64>::new().filter(p_filter).send_to(d(0))))
        }
        ("filter_map", 1) => {
            ds.push(("d0".into(), d(0)));
            Some(wrap(SinkBuilder::<u64>::new().filter_map(g_filter_map).send_to(d(0))))
        }
        ("inspect", 1) => {
            ds.push(("d0".into(), d(0)));
            has_log = true;
            let l = log.clone();
            Some(wrap(SinkBuilder::<u64>::new().inspect(move |x: &u64| l.borrow_mut().push(*x)).send_to(d(0))))
        }
        ("for_each", 0) => {
            has_log = true;
            let l = log.clone();
            Some(wrap(SinkBuilder::<u64>::new().for_each(move |x: u64| l.borrow_mut().push(x))))
        }
        ("try_for_each", 0) => {
            has_log = true;
            let l = log.clone();
            Some(wrap(SinkBuilder::<u64>::new().try_for_each(move |x: u64| -> Result<(), ()> {
                l.borrow_mut().push(x);
                Ok(())
            })))
        }
        ("flat_map", 1) => {
            ds.push(("d0".into(), d(0)));
            Some(wrap(SinkBuilder::<u64>::new().flat_map(g_flat).send_to(d(0))))
        }
        ("flatten", 1) => {
            ds.push(("d0".into(), d(0)));
            Some(wrap(SinkBuilder::<u64>::new().map(g_flat).flatten::<Vec<u64>>().send_to(d(0))))
        }
        ("chain", 1) => {
            ds.push(("d0".into(), d(0)));
            Some(wrap(SinkBuilder::<u64>::new().map(f_map).flat_map(g_flat).filter(p_filter).send_to(d(0))))
        }
        ("unzip", 2) => {
            ds.push(("d0".into(), d(0)));
            ds.push(("d1".into(), d(1)));
            Some(wrap(SinkBuilder::<u64>::new().map(|x| (x, x + 100)).unzip(d(0), d(1))))
        }
        ("demux_var", 3) => {
            for i in 0..3 {
                ds.push((format!("d{i}"), d(i)));
            }
            let sinks = sinktools::variadics::var_expr!(d(0), d(1), d(2));
            Some(wrap(SinkBuilder::<u64>::new().map(|x| ((x % 4) as usize, x)).demux_var(sinks)))
        }
        ("demux_map", 3) => {
            for i in 0..3 {
                ds.push((format!("d{i}"), d(i)));
            }
            let m: HashMap<u64, DSink> = (0..3u64).map(|k| (k, d(k as usize))).collect();
            Some(wrap(SinkBuilder::<u64>::new().map(|x| (x % 4, x)).demux_map(m)))
        }
        ("demux_map_lazy", 3) => {
            for i in 0..3 {
                ds.push((format!("d{i}"), d(i)));
            }
            let specs = dspecs.clone();
            Some(wrap(SinkBuilder::<u64>::new().map(|x| (x % 4, x)).demux_map_lazy(move |k: &u64| {
                specs.get(*k as usize).cloned().unwrap_or_default()
            })))
        }
        ("lazy", 1) => {
            ds.push(("d0".into(), d(0)));
            let sink = d(0);
            let inits2 = inits.clone();
            let pend = src_pendings.clone();
            let fd = fut_done.clone();
            Some(wrap(LazySink::new(move || {
                inits2.set(inits2.get() + 1);
                ScriptFut { polls: fut, out: Some(sink), pendings: pend, done: fd }
            })))
        }
        ("lss", 1) => {
            ds.push(("d0".into(), d(0)));
            let st = ScriptStream { script: stream, pendings: src_pendings.clone() };
            let f = ScriptFut { polls: fut, out: Some((st, d(0))), pendings: src_pendings.clone(), done: fut_done.clone() };
            let (sink_half, src_half) = LazySinkSource::<_, ScriptStream, DSink, u64, ()>::new(f).split();
            let mut src = Box::pin(src_half);
            next = Some(Box::new(move |cx| src.as_mut().poll_next(cx)));
            Some(wrap(sink_half))
        }
        ("lazysrc", 0) => {
            let st = ScriptStream { script: stream, pendings: src_pendings.clone() };
            let inits2 = inits.clone();
            let pend = src_pendings.clone();
            let fd = fut_done.clone();
            let mut src = Box::pin(LazySource::new(move || {
                inits2.set(inits2.get() + 1);
                ScriptFut { polls: fut, out: Some(st), pendings: pend, done: fd }
            }));
            next = Some(Box::new(move |cx| src.as_mut().poll_next(cx)));
            None
        }
        _ => return None,
    };
    Some(Run {
        kind: kind.to_string(),
        pipe: pipe.map(|p| SharedPipe(Rc::new(RefCell::new(p)))),
        next,
        drive: None,
        ds,
        log,
        log_reported: 0,
        has_log,
        inits,
        src_pendings,
        dead: false,
        wl: WakeLog::default(),
        client_armed: false,
        client_violated: false,
        sent: vec![],
        flushed_clean: false,
        stream_expected,
        stream_got: vec![],
        drive_items: vec![],
        drive_done: false,
        next_since_ready: false,
        unreadied_seen: 0,
        unreadied_first_seen: 0,
        fut_done,
    })
}

impl Run {
    /// LazySink / LazySinkSource / LazySource: has the init future completed?
    fn src_inited(&self) -> bool {
        self.fut_done.get()
    }

    fn delta(&mut self) -> String {
        let mut out = String::new();
        for (name, d) in &self.ds {
            let mut st = d.0.borrow_mut();
            // a lazily created sink that was never touched is not listed (as in the model)
            if self.kind == "demux_map_lazy" && st.trace.is_empty() {
                continue;
            }
            let new = show_evs(&st.trace[st.reported..]);
            st.reported = st.trace.len();
            out.push_str(&format!(" {name}:{new}"));
        }
        if self.has_log {
            let l = self.log.borrow();
            out.push_str(&format!(" log:{}", show_list(&l[self.log_reported..])));
            self.log_reported = l.len();
        }
        out
    }

    /// what every downstream must have received, given what the client sent successfully
    fn expected(&self, name: &str, items: &[u64]) -> Vec<u64> {
        let xs = items.to_vec();
        match (self.kind.as_str(), name) {
            ("map", _) => xs.iter().map(|&x| f_map(x)).collect(),
            ("filter", _) => xs.into_iter().filter(p_filter).collect(),
            ("filter_map", _) => xs.into_iter().filter_map(g_filter_map).collect(),
            ("flat_map", _) | ("flatten", _) => xs.into_iter().flat_map(g_flat).collect(),
            ("chain", _) => xs.into_iter().map(f_map).flat_map(g_flat).filter(p_filter).collect(),
            ("unzip", "d1") => xs.iter().map(|&x| x + 100).collect(),
            ("demux_var", n) | ("demux_map", n) | ("demux_map_lazy", n) => {
                let k: u64 = n[1..].parse().unwrap();
                xs.into_iter().filter(|x| x % 4 == k).collect()
            }
            _ => xs,
        }
    }

    fn oracle(&mut self, op: &str, rec: &mut Recorder) {
        let kind = self.kind.clone();
        // (1) the downstream's own protocol check, independent of what the client did upstream of a
        // buffering adaptor: only meaningful while the client itself respected the protocol
        if !self.client_violated {
            let mut bad = 0;
            let mut bad_first = 0;
            for (_, d) in &self.ds {
                bad += d.0.borrow().unreadied_sends;
                bad_first += d.0.borrow().unreadied_first;
            }
            let suffix = if self.next_since_ready { "-after-source-poll" } else { "" };
            rec.check(bad == self.unreadied_seen, &format!("unreadied-start-send{suffix}@{kind}"), &format!("start_send reached a downstream sink without a preceding Ready poll_ready (op {op})"));
            self.unreadied_seen = bad;
            // the very first call on a sink is a start_send: only a lazily created sink can see that (F5)
            rec.check(bad_first == self.unreadied_first_seen, &format!("unreadied-first-start-send-to-fresh-sink{suffix}@{kind}"), &format!("a sink's first call was start_send, no poll_ready before it (op {op})"));
            self.unreadied_first_seen = bad_first;
            // (2) order / exactly once: what arrived is a prefix of what must arrive
            let all: Vec<u64> = self.sent.clone();
            for (name, d) in &self.ds {
                let got: Vec<u64> = d.0.borrow().trace.iter().filter_map(|e| if let Ev::Send(x) = e { Some(*x) } else { None }).collect();
                let want = self.expected(name, &all);
                let prefix = got.len() <= want.len() && got[..] == want[..got.len()];
                rec.check(prefix, &format!("order-or-duplicate@{kind}"), &format!("{name} got {} want prefix of {}", show_list(&got), show_list(&want)));
                if self.flushed_clean {
                    rec.check(got == want, &format!("lost-item-after-flush-or-close@{kind}"), &format!("{name} got {} want {}", show_list(&got), show_list(&want)));
                }
            }
            if self.has_log {
                let l = self.log.borrow();
                let prefix = l.len() <= all.len() && l[..] == all[..l.len()];
                let driving = self.drive.is_some() && !self.drive_done;
                rec.check(prefix && (kind == "inspect" || driving || l.len() == all.len()), &format!("closure-log@{kind}"), &show_list(&l));
            }
        }
        // (3) lazy initialisation at most once
        rec.check(self.inits.get() <= 1, &format!("lazy-init-twice@{kind}"), &format!("{} calls", self.inits.get()));
        // (4) the stream side delivers the stream's items in order
        let sp = self.stream_got.len() <= self.stream_expected.len() && self.stream_got[..] == self.stream_expected[..self.stream_got.len()];
        rec.check(sp, &format!("stream-order@{kind}"), &show_list(&self.stream_got));
    }

    fn poll_op(&mut self, op: &str, rec: &mut Recorder) -> String {
        let Some(pipe) = self.pipe.clone() else { return "bad-op".into() };
        let waker = self.wl.waker(0);
        let r = hv_common::catch(std::panic::AssertUnwindSafe(|| {
            let mut cx = Context::from_waker(&waker);
            let mut p = pipe.0.borrow_mut();
            match op {
                "ready" => p.ready(&mut cx),
                "flush" => p.flush(&mut cx),
                _ => p.close(&mut cx),
            }
        }));
        self.wl.take();
        match r {
            Err(_) => {
                self.dead = true;
                rec.check(false, &format!("panic-in-poll@{}", self.kind), op);
                "panic".into()
            }
            Ok(Poll::Ready(ok)) => {
                rec.check(ok, &format!("error@{}", self.kind), op);
                if op == "ready" {
                    self.client_armed = true;
                    self.next_since_ready = false;
                }
                if op == "flush" || op == "close" {
                    // a Ready flush *or close* means everything sent so far has reached the downstream sinks
                    self.flushed_clean = true;
                }
                let d = self.delta();
                self.oracle(op, rec);
                format!("ready{d}")
            }
            Ok(Poll::Pending) => {
                if op == "ready" {
                    self.client_armed = false;
                }
                rec.count("pending-answer");
                let d = self.delta();
                self.oracle(op, rec);
                format!("pending{d}")
            }
        }
    }

    fn exec(&mut self, line: &str, rec: &mut Recorder) -> String {
        if self.dead {
            return "dead".into();
        }
        let ws: Vec<&str> = line.split(' ').filter(|w| !w.is_empty()).collect();
        match ws.as_slice() {
            ["ready"] | ["flush"] | ["close"] => self.poll_op(ws[0], rec),
            ["send", x] => {
                let (Some(pipe), Ok(x)) = (self.pipe.clone(), x.parse::<u64>()) else { return "bad-op".into() };
                if !self.client_armed {
                    self.client_violated = true;
                    rec.count("client-sends-unreadied");
                }
                let armed = self.client_armed;
                if self.kind == "lss" && armed && self.next_since_ready {
                    // the window of findings F4 / F4b: the source half ran between Ready and start_send
                    rec.count(if self.src_inited() { "lss:send-after-source-poll-init-done" } else { "lss:send-after-source-poll-init-pending" });
                }
                self.client_armed = false;
                self.flushed_clean = false;
                let r = hv_common::catch(std::panic::AssertUnwindSafe(|| pipe.0.borrow_mut().send(x)));
                match r {
                    Err(msg) => {
                        self.dead = true;
                        let designed = matches!(self.kind.as_str(), "demux_var" | "demux_map") && x % 4 == 3;
                        rec.count("panic");
                        if armed && !self.client_violated && !designed {
                            // the client did everything right and the sink panicked
                            let suffix = if self.next_since_ready { "-after-source-poll" } else { "" };
                            rec.check(false, &format!("panic-after-ready{suffix}@{}", self.kind), &msg);
                        }
                        "panic".into()
                    }
                    Ok(ok) => {
                        rec.check(ok, &format!("error@{}", self.kind), "send");
                        self.sent.push(x);
                        let d = self.delta();
                        self.oracle("send", rec);
                        format!("ok{d}")
                    }
                }
            }
            ["next"] => {
                if self.next.is_none() {
                    return "bad-op".into();
                }
                self.next_since_ready = true;
                if self.kind == "lss" {
                    rec.count(if self.src_inited() { "lss:next-after-init" } else { "lss:next-before-init-done" });
                }
                let next = self.next.as_mut().unwrap();
                let waker = self.wl.waker(0);
                let r = hv_common::catch(std::panic::AssertUnwindSafe(|| {
                    let mut cx = Context::from_waker(&waker);
                    next(&mut cx)
                }));
                self.wl.take();
                let out = match r {
                    Err(_) => {
                        self.dead = true;
                        rec.check(false, &format!("panic-in-poll@{}", self.kind), "next");
                        return "panic".into();
                    }
                    Ok(Poll::Ready(Some(x))) => {
                        self.stream_got.push(x);
                        format!("item {x}")
                    }
                    Ok(Poll::Ready(None)) => {
                        rec.check(self.stream_got == self.stream_expected, &format!("stream-ended-early@{}", self.kind), &show_list(&self.stream_got));
                        "ended".into()
                    }
                    Ok(Poll::Pending) => {
                        rec.count("pending-answer");
                        "pending".into()
                    }
                };
                let d = if self.pipe.is_some() { self.delta() } else { String::new() };
                self.oracle("next", rec);
                format!("{out}{d}")
            }
            ["send_iter", items] => {
                let (Some(pipe), Some(items)) = (self.pipe.clone(), parse_list(items)) else { return "bad-op".into() };
                self.drive_items = items.clone();
                self.drive_done = false;
                self.drive = Some(Box::pin(SendIter::new(items.into_iter(), pipe)));
                "ok".into()
            }
            ["send_stream", script] => {
                let (Some(pipe), Some(script)) = (self.pipe.clone(), parse_stream(script)) else { return "bad-op".into() };
                self.drive_items = script.iter().flatten().copied().collect();
                self.drive_done = false;
                let st = ScriptStream { script, pendings: self.src_pendings.clone() };
                self.drive = Some(Box::pin(SendStream::new(st, pipe)));
                "ok".into()
            }
            ["drive"] => {
                if self.pipe.is_none() || self.drive.is_none() {
                    return "bad-op".into();
                }
                if self.drive_done {
                    // a completed future must not be polled again; the model's driver is re-pollable
                    // (it just polls ready+flush again), so emulate that with a fresh empty SendIter
                    let pipe = self.pipe.clone().unwrap();
                    self.drive = Some(Box::pin(SendIter::new(Vec::<u64>::new().into_iter(), pipe)));
                }
                let waker = self.wl.waker(0);
                let fut = self.drive.as_mut().unwrap();
                let r = hv_common::catch(std::panic::AssertUnwindSafe(|| {
                    let mut cx = Context::from_waker(&waker);
                    fut.as_mut().poll(&mut cx)
                }));
                self.wl.take();
                match r {
                    Err(msg) => {
                        self.dead = true;
                        rec.check(false, &format!("panic-in-driver@{}", self.kind), &msg);
                        "panic".into()
                    }
                    Ok(Poll::Ready(res)) => {
                        rec.check(res.is_ok(), &format!("error@{}", self.kind), "drive");
                        if !self.drive_done {
                            let its = std::mem::take(&mut self.drive_items);
                            self.sent.extend(its);
                        }
                        self.drive_done = true;
                        self.flushed_clean = true;
                        self.client_armed = false;
                        let d = self.delta();
                        self.oracle("drive", rec);
                        format!("ready{d}")
                    }
                    Ok(Poll::Pending) => {
                        rec.count("pending-answer");
                        // the driver is a correct client by construction: judge the downstream protocol
                        // and the order against everything the driver may have sent so far
                        let saved = self.sent.clone();
                        self.sent.extend(self.drive_items.iter().copied());
                        self.flushed_clean = false;
                        self.client_armed = false;
                        let d = self.delta();
                        self.oracle("drive", rec);
                        self.sent = saved;
                        format!("pending{d}")
                    }
                }
            }
            _ => "bad-op".into(),
        }
    }
}

fn run_lines(no: u64, tag: &str, lines: &[String], rec: &mut Recorder) {
    rec.case(no, tag);
    let before = rec.hist.get("pending-answer").copied().unwrap_or(0);
    let mut run: Option<Run> = None;
    for l in lines {
        let ws: Vec<&str> = l.split(' ').filter(|w| !w.is_empty()).collect();
        let out = if ws.first() == Some(&"pipe") && ws.len() >= 2 {
            if run.as_ref().is_some_and(|r| r.dead) {
                "dead".to_string()
            } else {
                match make(ws[1], &ws[2..]) {
                    Some(r) => {
                        rec.count(&format!("kind:{}", ws[1]));
                        run = Some(r);
                        "ok".into()
                    }
                    None => "bad-op".into(),
                }
            }
        } else {
            match run.as_mut() {
                Some(r) => r.exec(l, rec),
                None => "bad-op".into(),
            }
        };
        rec.line(l, &out);
    }
    let fut_pend = run.as_ref().map(|r| r.src_pendings.get()).unwrap_or(0);
    if rec.hist.get("pending-answer").copied().unwrap_or(0) > before || fut_pend > 0 {
        rec.nontrivial();
    }
}

pub fn replay_case(no: u64, tag: &str, lines: &[String], rec: &mut Recorder) {
    run_lines(no, tag, lines, rec);
}

const KINDS: &[(&str, usize)] = &[
    ("map", 1),
    ("filter", 1),
    ("filter_map", 1),
    ("inspect", 1),
    ("for_each", 0),
    ("try_for_each", 0),
    ("flat_map", 1),
    ("flatten", 1),
    ("chain", 1),
    ("unzip", 2),
    ("demux_var", 3),
    ("demux_map", 3),
    ("demux_map_lazy", 3),
    ("lazy", 1),
    ("lss", 1),
    ("lazysrc", 0),
];

fn gen_bits(rng: &mut Rng, max: u64, p_pending: u64) -> String {
    let n = rng.below(max + 1);
    if n == 0 {
        return "-".into();
    }
    (0..n).map(|_| if rng.below(10) < p_pending { '0' } else { '1' }).collect()
}
fn gen_d(rng: &mut Rng, p: u64) -> String {
    format!("{}/{}/{}", gen_bits(rng, 8, p), gen_bits(rng, 3, p), gen_bits(rng, 3, p))
}
fn gen_stream(rng: &mut Rng, base: u64) -> String {
    let n = rng.below(5);
    if n == 0 {
        return "-".into();
    }
    let mut k = 0;
    (0..n)
        .map(|_| {
            if rng.chance(1, 3) {
                "p".to_string()
            } else {
                k += 1;
                (base + k).to_string()
            }
        })
        .collect::<Vec<_>>()
        .join(",")
}

/// a polite client: `ready` until Ready, then `send`; sometimes a second `ready`, a flush, a `next`
fn gen_case(rng: &mut Rng, kind: &str, nd: usize, steps: usize, rude: bool) -> Vec<String> {
    let p = rng.range(0, 6);
    let mut head = format!("pipe {kind}");
    if matches!(kind, "lazy" | "lss" | "lazysrc") {
        head.push_str(&format!(" fut={}", gen_bits(rng, 4, 5)));
    }
    if matches!(kind, "lss" | "lazysrc") {
        head.push_str(&format!(" stream={}", gen_stream(rng, 500)));
    }
    for _ in 0..nd {
        head.push(' ');
        head.push_str(&gen_d(rng, p));
    }
    let mut ls = vec![head];
    let mut item = rng.below(5);
    let has_next = matches!(kind, "lss" | "lazysrc");
    if kind == "lazysrc" {
        for _ in 0..steps.min(10) {
            ls.push("next".into());
        }
        ls.push("ready".into());
        return ls;
    }
    let demux = kind.starts_with("demux");
    let mut next_item = |rng: &mut Rng| {
        item += 1 + rng.below(2);
        if demux && item % 4 == 3 && !rng.chance(1, 25) {
            item += 1;
        }
        item
    };
    if rng.chance(1, 4) {
        // driven by SendIter / SendStream
        let n = rng.below(6);
        let mut items: Vec<u64> = (0..n).map(|_| next_item(rng)).collect();
        items.retain(|x| !(demux && x % 4 == 3));
        if rng.chance(1, 2) {
            ls.push(format!("send_iter {}", show_list(&items)));
        } else {
            let sc: Vec<String> = items.iter().flat_map(|x| if rng.chance(1, 3) { vec!["p".to_string(), x.to_string()] } else { vec![x.to_string()] }).collect();
            ls.push(format!("send_stream {}", if sc.is_empty() { "-".into() } else { sc.join(",") }));
        }
        for _ in 0..30 {
            ls.push("drive".into());
        }
        ls.push("close".into());
        ls.push("close".into());
        return ls;
    }
    let mut armed_guess = false;
    for _ in 0..steps {
        match rng.below(12) {
            0..=4 => {
                // readiness loop (bounded), then send
                for _ in 0..rng.range(1, 4) {
                    ls.push("ready".into());
                }
                armed_guess = true;
                if has_next && rng.chance(1, 3) {
                    ls.push("next".into());
                }
                ls.push(format!("send {}", next_item(rng)));
                armed_guess = false;
            }
            5 => ls.push("ready".into()),
            6..=7 => ls.push("flush".into()),
            8 if has_next => ls.push("next".into()),
            9 if rude && !armed_guess => ls.push(format!("send {}", next_item(rng))),
            10 if rng.chance(1, 4) => ls.push("close".into()),
            _ => ls.push("ready".into()),
        }
    }
    // usually flush until clean and then close; one run in three closes with items possibly still buffered
    if !rng.chance(1, 3) {
        for _ in 0..10 {
            ls.push("flush".into());
        }
    }
    for _ in 0..(if rng.chance(1, 2) { 3 } else { 12 }) {
        ls.push("close".into());
    }
    ls
}

pub fn generate(args: &Args, rec: &mut Recorder) {
    let thorough = args.tier == "thorough";
    let root = Rng::new(args.seed);
    let mut no = 0u64;
    // bounded-exhaustive: every placement of up to 2 pendings in the first 4 readiness answers and the
    // first 2 flush answers, for each single-downstream kind, with a fixed polite client
    for (kind, nd) in KINDS.iter().filter(|k| k.1 == 1) {
        for rbits in 0..16u32 {
            if rbits.count_ones() > 2 {
                continue;
            }
            for fbits in 0..4u32 {
                for futbits in 0..(if matches!(*kind, "lazy" | "lss") { 4u32 } else { 1 }) {
                    let r: String = (0..4).map(|i| if rbits >> i & 1 == 1 { '0' } else { '1' }).collect();
                    let f: String = (0..2).map(|i| if fbits >> i & 1 == 1 { '0' } else { '1' }).collect();
                    let mut head = format!("pipe {kind}");
                    if matches!(*kind, "lazy" | "lss") {
                        let fb: String = (0..2).map(|i| if futbits >> i & 1 == 1 { '0' } else { '1' }).collect();
                        head.push_str(&format!(" fut={fb}"));
                    }
                    if *kind == "lss" {
                        head.push_str(" stream=p,7");
                    }
                    head.push_str(&format!(" {r}/{f}/1"));
                    let mut ls = vec![head];
                    for x in [1u64, 2, 5] {
                        for _ in 0..7 {
                            ls.push("ready".into());
                        }
                        ls.push(format!("send {x}"));
                    }
                    for _ in 0..8 {
                        ls.push("flush".into());
                    }
                    ls.push("close".into());
                    no += 1;
                    let _ = nd;
                    run_lines(no, "c14 exhaustive", &ls, rec);
                }
            }
        }
    }
    // bounded-exhaustive LazySinkSource interleavings: every word of length 5 (thorough: 6) over
    // {ready, send, next, flush} on both halves, for a few init-future / inner-readiness scripts
    // (covers every position of a source poll relative to Ready / start_send / initialisation)
    let heads: &[&str] = if thorough {
        &["fut=1 stream=7,p,8 1/1/1", "fut=01 stream=p,7 1/1/1", "fut=1 stream=7 01/01/1", "fut=001 stream=7,8 101/1/1"]
    } else {
        &["fut=01 stream=p,7 1/1/1", "fut=1 stream=7 01/01/1"]
    };
    let wl = if thorough { 6 } else { 5 };
    for head in heads {
        for w in 0..4u32.pow(wl) {
            let mut ls = vec![format!("pipe lss {head}")];
            let mut item = 0;
            let mut ww = w;
            for _ in 0..wl {
                ls.push(match ww % 4 {
                    0 => "ready".to_string(),
                    1 => {
                        item += 1;
                        format!("send {item}")
                    }
                    2 => "next".to_string(),
                    _ => "flush".to_string(),
                });
                ww /= 4;
            }
            for l in ["flush", "flush", "flush", "ready", "ready", "send 9", "flush", "flush", "close"] {
                ls.push(l.into());
            }
            no += 1;
            run_lines(no, "c14 lss-interleavings", &ls, rec);
        }
    }
    // random
    for i in 0..args.cases {
        let mut rng = root.fork(i);
        let (kind, nd) = *rng.pick(KINDS);
        let steps = rng.range(1, if thorough { 30 } else { 14 }) as usize;
        let rude = rng.chance(1, 8);
        let mut ls = gen_case(&mut rng, kind, nd, steps, rude);
        if rng.chance(1, 15) {
            ls.push("pipe nonsense 1/1/1".into());
            ls.push("send x".into());
            ls.push("frob".into());
        }
        no += 1;
        run_lines(no, "c14 random", &ls, rec);
    }
}
