//! Hand-rolled counting wakers: no runtime.  Every `wake` appends the waker's id to a shared log.
use std::sync::{Arc, Mutex};
use std::task::{Wake, Waker};

#[derive(Clone, Default)]
pub struct WakeLog(pub Arc<Mutex<Vec<usize>>>);

struct LogWaker {
    id: usize,
    log: WakeLog,
}
impl Wake for LogWaker {
    fn wake(self: Arc<Self>) {
        self.log.0.lock().unwrap().push(self.id);
    }
    fn wake_by_ref(self: &Arc<Self>) {
        self.log.0.lock().unwrap().push(self.id);
    }
}

impl WakeLog {
    pub fn waker(&self, id: usize) -> Waker {
        Waker::from(Arc::new(LogWaker { id, log: self.clone() }))
    }
    /// take what fired since the last call, in firing order
    pub fn take(&self) -> Vec<usize> {
        std::mem::take(&mut *self.0.lock().unwrap())
    }
}

pub fn show_list<T: ToString>(xs: &[T]) -> String {
    if xs.is_empty() { "-".into() } else { xs.iter().map(|x| x.to_string()).collect::<Vec<_>>().join(",") }
}
pub fn parse_list(s: &str) -> Option<Vec<u64>> {
    if s == "-" { Some(vec![]) } else { s.split(',').map(|p| p.parse().ok()).collect() }
}
