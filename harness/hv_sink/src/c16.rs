//! C16: the real `dfir_rs::util::unsync::mpsc` channel under explicit schedules.
//!
//! Two kinds of cases (see lean/HvSink/HvSink/Driver/C16.lean for the line protocol):
//!  * task level — real `async` sender / receiver tasks, `poll <t>` polls one task once with a
//!    counting waker; the executor's run queue is derived from the wakers that actually fired;
//!  * API level — every public operation of `Sender` / `Receiver` (send futures, `try_send`, the
//!    `Sink` interface, clone / drop / close) with arbitrary waker ids.
use crate::wk::{WakeLog, parse_list, show_list};
use dfir_rs::util::unsync::mpsc::{self, Receiver, SendError, Sender, TrySendError};
use futures::Sink;
use hv_common::{Args, Recorder, Rng};
use std::cell::{Cell, RefCell};
use std::collections::{BTreeMap, VecDeque};
use std::future::Future;
use std::num::NonZeroUsize;
use std::pin::Pin;
use std::rc::Rc;
use std::task::{Context, Poll};

pub const RULE: &str = "C16: task-level cases = (capacity, receive limit, sender programs, schedule of task polls incl. spurious polls), \
API-level cases = sequences of Sender/Receiver operations with explicit waker ids; non-trivial = at least one poll returned Pending \
while the channel was full (a sender parked) or a waker fired; distinct = distinct op-line sequences";

type Fut = Pin<Box<dyn Future<Output = ()>>>;
type SendFut = Pin<Box<dyn Future<Output = Result<(), SendError<u64>>>>>;

fn parse_cap(s: &str) -> Option<Option<usize>> {
    if s == "unb" {
        Some(None)
    } else {
        match s.parse::<usize>() {
            Ok(0) | Err(_) => None,
            Ok(k) => Some(Some(k)),
        }
    }
}

// ------------------------------------------------------------------------------------ task level

struct Tasks {
    log: WakeLog,
    futs: Vec<Option<Fut>>,
    sstat: Vec<Rc<Cell<u8>>>,
    rstat: Rc<Cell<u8>>,
    todo: Vec<Rc<RefCell<VecDeque<u64>>>>,
    got: Rc<RefCell<Vec<u64>>>,
    woken: Vec<bool>,
    // oracle bookkeeping (independent of the channel)
    cap: Option<usize>,
    pushed: Vec<u64>,
    was_stranded: (bool, bool, bool),
}

impl Tasks {
    fn new(cap: Option<usize>, limit: Option<usize>, progs: &[(Vec<u64>, bool)]) -> Tasks {
        let (s0, recv) = mpsc::channel::<u64>(cap.map(|c| NonZeroUsize::new(c).unwrap()));
        let got = Rc::new(RefCell::new(vec![]));
        let rstat = Rc::new(Cell::new(0u8));
        let mut futs: Vec<Option<Fut>> = vec![];
        {
            let got = got.clone();
            let rstat = rstat.clone();
            let mut recv: Receiver<u64> = recv;
            futs.push(Some(Box::pin(async move {
                let mut remaining = limit;
                loop {
                    if remaining == Some(0) {
                        rstat.set(2);
                        break;
                    }
                    match recv.recv().await {
                        Some(x) => {
                            got.borrow_mut().push(x);
                            remaining = remaining.map(|r| r - 1);
                        }
                        None => {
                            rstat.set(1);
                            break;
                        }
                    }
                }
                drop(recv);
            })));
        }
        let mut sstat = vec![];
        let mut todo = vec![];
        for (items, close_first) in progs {
            let st = Rc::new(Cell::new(0u8));
            let td = Rc::new(RefCell::new(items.iter().copied().collect::<VecDeque<u64>>()));
            let mut s: Sender<u64> = s0.clone();
            let close_first = *close_first;
            {
                let st = st.clone();
                let td = td.clone();
                futs.push(Some(Box::pin(async move {
                    loop {
                        let x = match td.borrow().front() {
                            Some(&x) => x,
                            None => break,
                        };
                        if s.send(x).await.is_err() {
                            st.set(2);
                            return;
                        }
                        td.borrow_mut().pop_front();
                    }
                    if close_first {
                        s.close_this_sender();
                    }
                    st.set(1);
                })));
            }
            sstat.push(st);
            todo.push(td);
        }
        drop(s0);
        let log = WakeLog::default();
        log.take();
        let n = futs.len();
        Tasks { log, futs, sstat, rstat, todo, got, woken: vec![true; n], cap, pushed: vec![], was_stranded: (false, false, false) }
    }

    fn done(&self, t: usize) -> bool {
        self.futs[t].is_none()
    }
    fn runnable(&self) -> Vec<usize> {
        (0..self.futs.len()).filter(|&t| self.woken[t] && !self.done(t)).collect()
    }

    fn poll(&mut self, t: usize, rec: &mut Recorder) -> String {
        let mut fired = vec![];
        if !self.done(t) {
            self.woken[t] = false;
            let before: usize = if t > 0 { self.todo[t - 1].borrow().len() } else { 0 };
            let head: Vec<u64> = if t > 0 { self.todo[t - 1].borrow().iter().copied().collect() } else { vec![] };
            let waker = self.log.waker(t);
            let mut cx = Context::from_waker(&waker);
            let r = self.futs[t].as_mut().unwrap().as_mut().poll(&mut cx);
            if r.is_ready() {
                self.futs[t] = None;
            }
            fired = self.log.take();
            for &w in &fired {
                if w < self.woken.len() {
                    self.woken[w] = true;
                }
            }
            if t > 0 {
                let after = self.todo[t - 1].borrow().len();
                self.pushed.extend_from_slice(&head[..before - after]);
                if r.is_pending() {
                    rec.count("task:sender-parked");
                }
            } else if r.is_pending() {
                rec.count("task:receiver-parked");
            }
            if !fired.is_empty() {
                rec.count("task:wakes-fired");
            }
        } else {
            rec.count("task:poll-of-finished-task");
        }
        self.oracle(rec);
        let status = if t == 0 {
            ["running", "none", "limit"][self.rstat.get() as usize]
        } else {
            ["running", "ok", "err"][self.sstat[t - 1].get() as usize]
        };
        let todo = if t == 0 { "-".to_string() } else { show_list(&self.todo[t - 1].borrow().iter().copied().collect::<Vec<_>>()) };
        format!("{status} w={} got={} todo={todo} q={}", show_list(&fired), show_list(&self.got.borrow()), show_list(&self.runnable()))
    }

    /// the property on the real code, after every poll
    fn oracle(&mut self, rec: &mut Recorder) {
        let got = self.got.borrow().clone();
        // FIFO / exactly once: what was received is a prefix of what was pushed, in push order
        let prefix = got.len() <= self.pushed.len() && got[..] == self.pushed[..got.len()];
        rec.check(prefix, "fifo-prefix@task", &format!("got={} pushed={}", show_list(&got), show_list(&self.pushed)));
        let n = self.futs.len();
        let senders_done = (1..n).all(|t| self.done(t));
        // closure consistency
        if self.rstat.get() == 1 {
            rec.check(senders_done, "recv-none-with-live-sender@task", "");
            rec.check(got[..] == self.pushed[..], "lossless-at-none@task", &format!("got={} pushed={}", show_list(&got), show_list(&self.pushed)));
        }
        for i in 0..n - 1 {
            if self.sstat[i].get() == 2 {
                rec.check(self.done(0), "send-err-but-receiver-alive@task", &format!("sender {i}"));
            }
            if self.sstat[i].get() == 1 {
                rec.check(self.todo[i].borrow().is_empty(), "sender-ok-with-unsent@task", &format!("sender {i}"));
            }
        }
        // liveness as a state predicate: a parked sender with room, nobody going to wake it
        let in_buf = self.pushed.len() - got.len().min(self.pushed.len());
        let room = self.cap.is_none_or(|c| in_buf < c);
        let recv_parked = !self.done(0) && !self.woken[0];
        let parked: Vec<usize> = (1..n).filter(|&t| !self.done(t) && !self.woken[t]).collect();
        let any_sender_runnable = (1..n).any(|t| !self.done(t) && self.woken[t]);
        let ss = recv_parked && room && !parked.is_empty() && !any_sender_runnable;
        rec.check(!ss || self.was_stranded.0, "stranded-sender@task", &format!("parked senders {} with room, receiver parked, no wake pending", show_list(&parked)));
        self.was_stranded.0 = ss;
        let recv_should_run = in_buf > 0 || senders_done;
        let rs = recv_parked && recv_should_run;
        rec.check(!rs || self.was_stranded.1, "stranded-receiver@task",
            &format!("receiver parked with {in_buf} buffered items, all senders done = {senders_done}, nobody woke it"));
        self.was_stranded.1 = rs;
        let mut dl = false;
        if self.runnable().is_empty() {
            rec.count("task:quiescent");
            let all_done = (0..n).all(|t| self.done(t));
            dl = !all_done;
            // a deadlock that is not already explained by one of the two specific predicates above
            rec.check(all_done || self.was_stranded.2 || ss || rs, "deadlock-at-quiescence@task", &format!("unfinished tasks {}", show_list(&(0..n).filter(|&t| !self.done(t)).collect::<Vec<_>>())));
            if all_done {
                rec.count("task:all-done");
            }
        }
        self.was_stranded.2 = dl;
    }
}

// ------------------------------------------------------------------------------------- API level

struct Api {
    log: WakeLog,
    recv: Option<Receiver<u64>>,
    handles: Vec<Option<Rc<Sender<u64>>>>,
    futs: Vec<(u64, usize, u64, SendFut)>,
    // oracle bookkeeping
    cap: Option<usize>,
    q: VecDeque<u64>,
    rclosed: bool,
    self_closed: Vec<bool>,
    wakes: BTreeMap<usize, u64>,
    parked_futs: BTreeMap<u64, (usize, u64)>,
    parked_ready: BTreeMap<usize, (usize, u64)>,
    parked_recv: Option<(usize, u64)>,
    was_stranded: (bool, bool),
}

impl Api {
    fn new(cap: Option<usize>) -> Api {
        let (s, r) = mpsc::channel::<u64>(cap.map(|c| NonZeroUsize::new(c).unwrap()));
        Api {
            log: WakeLog::default(),
            recv: Some(r),
            handles: vec![Some(Rc::new(s))],
            futs: vec![],
            cap,
            q: VecDeque::new(),
            rclosed: false,
            self_closed: vec![false],
            wakes: BTreeMap::new(),
            parked_futs: BTreeMap::new(),
            parked_ready: BTreeMap::new(),
            parked_recv: None,
            was_stranded: (false, false),
        }
    }
    fn wcount(&self, w: usize) -> u64 {
        self.wakes.get(&w).copied().unwrap_or(0)
    }
    fn fired(&mut self) -> Vec<usize> {
        let f = self.log.take();
        for &w in &f {
            *self.wakes.entry(w).or_insert(0) += 1;
        }
        f
    }
    fn has_fut(&self, s: usize) -> bool {
        self.futs.iter().any(|f| f.1 == s)
    }
    fn live_senders(&self) -> usize {
        (0..self.handles.len()).filter(|&i| self.handles[i].is_some() && !self.self_closed[i]).count()
    }
    fn room(&self) -> bool {
        self.cap.is_none_or(|c| self.q.len() < c)
    }
    fn sender_open(&self, s: usize) -> bool {
        !self.rclosed && !self.self_closed[s]
    }

    fn oracle(&mut self, op: &str, rec: &mut Recorder) {
        // sender side: parked senders (futures / poll_ready) and whether any of them has a wake pending
        let mut parked = 0;
        let mut woken = 0;
        for (_, &(w, c)) in self.parked_futs.iter() {
            parked += 1;
            if self.wcount(w) > c {
                woken += 1;
            }
        }
        for (_, &(w, c)) in self.parked_ready.iter() {
            parked += 1;
            if self.wcount(w) > c {
                woken += 1;
            }
        }
        let recv_parked = self.parked_recv.is_some_and(|(w, c)| self.wcount(w) == c);
        let stranded = !self.rclosed && recv_parked && self.room() && parked > 0 && woken == 0;
        rec.check(!stranded || self.was_stranded.0, &format!("stranded-sender@{op}"), &format!("{parked} parked senders, room, receiver parked, no wake pending"));
        self.was_stranded.0 = stranded;
        // after the receiver closed, every parked sender must have been told
        if self.rclosed {
            rec.check(woken == parked, &format!("close-did-not-wake-sender@{op}"), &format!("{parked} parked, {woken} woken"));
        }
        // receiver side
        let should_run = !self.q.is_empty() || self.live_senders() == 0;
        let rs = recv_parked && should_run;
        rec.check(!rs || self.was_stranded.1, &format!("stranded-receiver@{op}"),
            &format!("receiver parked, {} queued, {} live senders", self.q.len(), self.live_senders()));
        self.was_stranded.1 = rs;
    }

    fn exec(&mut self, line: &str, rec: &mut Recorder) -> String {
        let ws: Vec<&str> = line.split(' ').filter(|w| !w.is_empty()).collect();
        let nums: Option<Vec<u64>> = ws[1..].iter().map(|w| w.parse().ok()).collect();
        let Some(a) = nums else { return "bad-op".into() };
        let op = ws[0];
        let handle_ok = |me: &Api, s: u64| (s as usize) < me.handles.len() && me.handles[s as usize].is_some();
        let out = match (op, a.as_slice()) {
            ("fsend", &[f, s, x]) => {
                if !handle_ok(self, s) || self.futs.iter().any(|e| e.0 == f) {
                    return "bad-op".into();
                }
                let h = self.handles[s as usize].clone().unwrap();
                self.futs.push((f, s as usize, x, Box::pin(async move { h.send(x).await })));
                return "ok".into();
            }
            ("fpoll", &[f, w]) => {
                let Some(ix) = self.futs.iter().position(|e| e.0 == f) else { return "bad-op".into() };
                let s = self.futs[ix].1;
                let x = self.futs[ix].2;
                let waker = self.log.waker(w as usize);
                let mut cx = Context::from_waker(&waker);
                let r = self.futs[ix].3.as_mut().poll(&mut cx);
                let res = match r {
                    Poll::Pending => {
                        rec.check(!self.room() && self.sender_open(s), "send-pending-but-room-or-closed@fpoll", line);
                        self.parked_futs.insert(f, (w as usize, self.wcount(w as usize)));
                        rec.count("api:send-parked");
                        "pending".to_string()
                    }
                    Poll::Ready(Ok(())) => {
                        rec.check(self.room() && self.sender_open(s), "send-ok-but-full-or-closed@fpoll", line);
                        self.q.push_back(x);
                        self.parked_futs.remove(&f);
                        drop(self.futs.remove(ix));
                        "ok".to_string()
                    }
                    Poll::Ready(Err(SendError(y))) => {
                        rec.check(!self.sender_open(s), "send-err-but-open@fpoll", line);
                        rec.check(y == x, "send-err-returns-other-item@fpoll", line);
                        self.parked_futs.remove(&f);
                        drop(self.futs.remove(ix));
                        rec.count("api:send-err");
                        format!("err {y}")
                    }
                };
                format!("{res} w={}", show_list(&self.fired()))
            }
            ("fdrop", &[f]) => {
                let Some(ix) = self.futs.iter().position(|e| e.0 == f) else { return "bad-op".into() };
                drop(self.futs.remove(ix));
                self.parked_futs.remove(&f);
                rec.count("api:send-future-cancelled");
                return "ok".into();
            }
            ("try", &[s, x]) | ("start", &[s, x]) => {
                if !handle_ok(self, s) || (op == "start" && self.has_fut(s as usize)) {
                    return "bad-op".into();
                }
                let s = s as usize;
                let r: Result<(), TrySendError<Option<u64>>> = if op == "try" {
                    self.handles[s].as_ref().unwrap().try_send(x).map_err(|e| match e {
                        TrySendError::Full(i) => TrySendError::Full(Some(i)),
                        TrySendError::Closed(i) => TrySendError::Closed(Some(i)),
                    })
                } else {
                    self.parked_ready.remove(&s);
                    Pin::new(Rc::get_mut(self.handles[s].as_mut().unwrap()).unwrap()).start_send(x)
                };
                let res = match r {
                    Ok(()) => {
                        rec.check(self.room() && self.sender_open(s), "try-ok-but-full-or-closed", line);
                        self.q.push_back(x);
                        "ok".to_string()
                    }
                    Err(TrySendError::Full(y)) => {
                        rec.check(!self.room() && self.sender_open(s), "try-full-but-room", line);
                        rec.check(y == Some(x), "try-returns-other-item", line);
                        format!("full {x}")
                    }
                    Err(TrySendError::Closed(y)) => {
                        rec.check(!self.sender_open(s), "try-closed-but-open", line);
                        rec.check(y == Some(x), "try-returns-other-item", line);
                        format!("closed {x}")
                    }
                };
                format!("{res} w={}", show_list(&self.fired()))
            }
            ("ready", &[s, w]) | ("flush", &[s, w]) | ("pclose", &[s, w]) => {
                if !handle_ok(self, s) || self.has_fut(s as usize) {
                    return "bad-op".into();
                }
                let s = s as usize;
                let waker = self.log.waker(w as usize);
                let mut cx = Context::from_waker(&waker);
                let snd = Pin::new(Rc::get_mut(self.handles[s].as_mut().unwrap()).unwrap());
                let res = match op {
                    "ready" => match snd.poll_ready(&mut cx) {
                        Poll::Pending => {
                            rec.check(!self.room() && self.sender_open(s), "ready-pending-but-room-or-closed", line);
                            self.parked_ready.insert(s, (w as usize, self.wcount(w as usize)));
                            rec.count("api:ready-parked");
                            "pending"
                        }
                        Poll::Ready(Ok(())) => {
                            rec.check(self.room() && self.sender_open(s), "ready-but-full-or-closed", line);
                            self.parked_ready.remove(&s);
                            "ready"
                        }
                        Poll::Ready(Err(TrySendError::Closed(None))) => {
                            rec.check(!self.sender_open(s), "ready-closed-but-open", line);
                            self.parked_ready.remove(&s);
                            "closed"
                        }
                        Poll::Ready(Err(_)) => "other-error",
                    },
                    "flush" => match snd.poll_flush(&mut cx) {
                        Poll::Ready(Ok(())) => "ready",
                        _ => "other",
                    },
                    _ => match snd.poll_close(&mut cx) {
                        Poll::Ready(Ok(())) => {
                            self.self_closed[s] = true;
                            self.parked_ready.remove(&s);
                            "ok"
                        }
                        _ => "other",
                    },
                };
                format!("{res} w={}", show_list(&self.fired()))
            }
            ("sclose", &[s]) => {
                if !handle_ok(self, s) || self.has_fut(s as usize) {
                    return "bad-op".into();
                }
                let s = s as usize;
                Rc::get_mut(self.handles[s].as_mut().unwrap()).unwrap().close_this_sender();
                self.self_closed[s] = true;
                self.parked_ready.remove(&s);
                format!("ok w={}", show_list(&self.fired()))
            }
            ("isclosed", &[s]) => {
                if !handle_ok(self, s) {
                    return "bad-op".into();
                }
                let r = self.handles[s as usize].as_ref().unwrap().is_closed();
                rec.check(r == !self.sender_open(s as usize), "is-closed-inconsistent", line);
                return r.to_string();
            }
            ("clone", &[s]) => {
                if !handle_ok(self, s) {
                    return "bad-op".into();
                }
                let c: Sender<u64> = (**self.handles[s as usize].as_ref().unwrap()).clone();
                self.handles.push(Some(Rc::new(c)));
                self.self_closed.push(self.self_closed[s as usize]);
                return (self.handles.len() - 1).to_string();
            }
            ("sdrop", &[s]) => {
                if !handle_ok(self, s) || self.has_fut(s as usize) {
                    return "bad-op".into();
                }
                let h = self.handles[s as usize].take().unwrap();
                assert_eq!(Rc::strong_count(&h), 1);
                drop(h);
                self.parked_ready.remove(&(s as usize));
                format!("ok w={}", show_list(&self.fired()))
            }
            ("recv", &[w]) => {
                let Some(r) = self.recv.as_mut() else { return "bad-op".into() };
                let waker = self.log.waker(w as usize);
                let cx = Context::from_waker(&waker);
                let res = match r.poll_recv(&cx) {
                    Poll::Ready(Some(x)) => {
                        let want = self.q.pop_front();
                        rec.check(want == Some(x), "fifo@recv", &format!("got {x} expected {want:?}"));
                        self.parked_recv = None;
                        format!("some {x}")
                    }
                    Poll::Ready(None) => {
                        rec.check(self.q.is_empty(), "none-with-items@recv", "");
                        rec.check(self.rclosed || self.live_senders() == 0, "none-with-live-senders@recv", "");
                        self.parked_recv = None;
                        "none".into()
                    }
                    Poll::Pending => {
                        rec.check(self.q.is_empty(), "pending-with-items@recv", "");
                        rec.check(!self.rclosed && self.live_senders() > 0, "pending-but-closed@recv", "");
                        let w = w as usize;
                        // a fresh park: the wake counter is read after this poll
                        self.parked_recv = Some((w, self.wcount(w)));
                        rec.count("api:recv-parked");
                        "pending".into()
                    }
                };
                format!("{res} w={}", show_list(&self.fired()))
            }
            ("rclose", &[]) => {
                let Some(r) = self.recv.as_mut() else { return "bad-op".into() };
                r.close();
                self.rclosed = true;
                self.parked_recv = None;
                format!("ok w={}", show_list(&self.fired()))
            }
            ("rdrop", &[]) => {
                let Some(r) = self.recv.take() else { return "bad-op".into() };
                drop(r);
                self.rclosed = true;
                self.parked_recv = None;
                self.q.clear();
                format!("ok w={}", show_list(&self.fired()))
            }
            _ => return "bad-op".into(),
        };
        if out.contains("w=") && !out.ends_with("w=-") {
            rec.count("api:wakes-fired");
        }
        self.oracle(op, rec);
        out
    }
}

// ----------------------------------------------------------------------------------- case runner

struct Runner {
    tasks: Option<Tasks>,
    api: Option<Api>,
}

impl Runner {
    fn exec(&mut self, line: &str, rec: &mut Recorder) -> String {
        let ws: Vec<&str> = line.split(' ').filter(|w| !w.is_empty()).collect();
        match ws.as_slice() {
            ["sys", cap, limit, progs @ ..] => {
                let cap = parse_cap(cap);
                let limit: Option<Option<usize>> = if *limit == "none" { Some(None) } else { limit.parse().ok().map(Some) };
                let progs: Option<Vec<(Vec<u64>, bool)>> = progs
                    .iter()
                    .map(|p| {
                        let (body, c) = match p.strip_suffix('c') {
                            Some(b) => (b, true),
                            None => (*p, false),
                        };
                        parse_list(body).map(|l| (l, c))
                    })
                    .collect();
                match (cap, limit, progs) {
                    (Some(cap), Some(limit), Some(progs)) => {
                        self.tasks = Some(Tasks::new(cap, limit, &progs));
                        "ok".into()
                    }
                    _ => "bad-op".into(),
                }
            }
            ["poll", t] => match (self.tasks.as_mut(), t.parse::<usize>()) {
                (Some(ts), Ok(t)) if t < ts.futs.len() => ts.poll(t, rec),
                _ => "bad-op".into(),
            },
            ["chan", cap] => match parse_cap(cap) {
                Some(cap) => {
                    self.api = Some(Api::new(cap));
                    "ok".into()
                }
                None => "bad-op".into(),
            },
            [] => "bad-op".into(),
            _ => match self.api.as_mut() {
                Some(api) => api.exec(line, rec),
                None => "bad-op".into(),
            },
        }
    }
}

fn run_lines(no: u64, tag: &str, lines: &[String], rec: &mut Recorder) -> Runner {
    rec.case(no, tag);
    let mut r = Runner { tasks: None, api: None };
    let before = nontrivial_marks(rec);
    for l in lines {
        let out = r.exec(l, rec);
        rec.line(l, &out);
    }
    if nontrivial_marks(rec) > before {
        rec.nontrivial();
    }
    r
}

fn nontrivial_marks(rec: &Recorder) -> u64 {
    ["task:sender-parked", "task:wakes-fired", "api:send-parked", "api:ready-parked", "api:wakes-fired"]
        .iter()
        .map(|k| rec.hist.get(*k).copied().unwrap_or(0))
        .sum()
}

pub fn replay_case(no: u64, tag: &str, lines: &[String], rec: &mut Recorder) {
    run_lines(no, tag, lines, rec);
}

fn show_prog(p: &(Vec<u64>, bool)) -> String {
    format!("{}{}", show_list(&p.0), if p.1 { "c" } else { "" })
}

/// A task-level case whose schedule is given; afterwards the run queue is drained like an
/// executor would (polling only woken tasks), so that quiescence is reached and judged.
fn task_case(no: u64, tag: &str, cap: Option<usize>, limit: Option<usize>, progs: &[(Vec<u64>, bool)], sched: &[usize], rec: &mut Recorder) {
    rec.case(no, tag);
    let before = nontrivial_marks(rec);
    let mut r = Runner { tasks: None, api: None };
    let sys = format!(
        "sys {} {} {}",
        cap.map_or("unb".into(), |c| c.to_string()),
        limit.map_or("none".into(), |c| c.to_string()),
        progs.iter().map(show_prog).collect::<Vec<_>>().join(" ")
    );
    let sys = sys.trim_end().to_string();
    let out = r.exec(&sys, rec);
    rec.line(&sys, &out);
    for &t in sched {
        let l = format!("poll {t}");
        let out = r.exec(&l, rec);
        rec.line(&l, &out);
    }
    // drain: round-robin over the runnable tasks (bounded)
    let mut budget = 200;
    loop {
        let q = r.tasks.as_ref().map(|t| t.runnable()).unwrap_or_default();
        if q.is_empty() || budget == 0 {
            break;
        }
        for t in q {
            let l = format!("poll {t}");
            let out = r.exec(&l, rec);
            rec.line(&l, &out);
            budget -= 1;
        }
    }
    if nontrivial_marks(rec) > before {
        rec.nontrivial();
    }
}

fn gen_api_case(rng: &mut Rng, steps: usize, malformed: bool) -> Vec<String> {
    let cap = if rng.chance(1, 6) { "unb".to_string() } else { rng.range(1, 3).to_string() };
    let mut ls = vec![format!("chan {cap}")];
    let mut nh = 1u64; // handles ever created (some may be dropped; the harness answers bad-op then)
    let mut nf = 0u64;
    let mut item = 0u64;
    for _ in 0..steps {
        let s = rng.below(nh);
        let w = rng.below(4);
        let l = match rng.below(40) {
            0..=7 => {
                nf += 1;
                item += 1;
                format!("fsend {} {s} {item}", nf - 1)
            }
            8..=16 => format!("fpoll {} {w}", rng.below(nf.max(1))),
            17 => format!("fdrop {}", rng.below(nf.max(1))),
            18..=20 => {
                item += 1;
                format!("try {s} {item}")
            }
            21..=23 => format!("ready {s} {w}"),
            24..=25 => {
                item += 1;
                format!("start {s} {item}")
            }
            26 => format!("flush {s} {w}"),
            27 => format!("pclose {s} {w}"),
            28 => format!("sclose {s}"),
            29 => format!("isclosed {s}"),
            30..=31 if nh < 4 => {
                nh += 1;
                format!("clone {s}")
            }
            32 => format!("sdrop {s}"),
            33 if rng.chance(1, 4) => "rclose".to_string(),
            34 if rng.chance(1, 6) => "rdrop".to_string(),
            _ => format!("recv {}", 4 + rng.below(2)),
        };
        ls.push(l);
    }
    if malformed {
        ls.push("chan 0".into());
        ls.push("fpoll 99 0".into());
        ls.push("frobnicate 1".into());
        ls.push("try x y".into());
        ls.push("sdrop 17".into());
    }
    // drain what is left so FIFO is judged on everything that was accepted
    for _ in 0..4 {
        ls.push("recv 5".into());
    }
    ls
}

pub fn generate(args: &Args, rec: &mut Recorder) {
    let root = Rng::new(args.seed);
    let thorough = args.tier == "thorough";
    let mut no = 0u64;
    // 1. bounded-exhaustive schedules: every list of task ids of length L over small systems
    let configs: Vec<(Option<usize>, Option<usize>, Vec<(Vec<u64>, bool)>)> = vec![
        (Some(1), None, vec![(vec![1, 20], false), (vec![10], false)]),
        (Some(1), None, vec![(vec![1], false), (vec![2], true)]),
        (Some(2), None, vec![(vec![1, 2, 3], false), (vec![7, 8], false)]),
        (Some(1), Some(2), vec![(vec![1, 2], false), (vec![5, 6], false)]),
        (None, None, vec![(vec![1, 2], false), (vec![], true)]),
    ];
    let len = if thorough { 8 } else { 6 };
    for (cap, limit, progs) in &configs {
        let n = progs.len() + 1;
        let total = n.pow(len as u32);
        for mut code in 0..total {
            let mut sched = vec![];
            for _ in 0..len {
                sched.push(code % n);
                code /= n;
            }
            no += 1;
            task_case(no, "c16 kind=task exhaustive", *cap, *limit, progs, &sched, rec);
        }
    }
    // 2. random task systems; schedules mix executor-like choices (a woken task) with spurious polls
    for i in 0..args.cases {
        let mut rng = root.fork(i);
        no += 1;
        if rng.chance(1, 2) {
            let ns = rng.range(0, 4) as usize;
            let cap = if rng.chance(1, 5) { None } else { Some(rng.range(1, 3) as usize) };
            let limit = if rng.chance(1, 4) { Some(rng.range(0, 5) as usize) } else { None };
            let mut item = 0;
            let progs: Vec<(Vec<u64>, bool)> = (0..ns)
                .map(|_| {
                    let k = rng.range(0, 4);
                    let v = (0..k)
                        .map(|_| {
                            item += 1;
                            item
                        })
                        .collect();
                    (v, rng.chance(1, 4))
                })
                .collect();
            let steps = rng.range(0, if thorough { 40 } else { 20 }) as usize;
            let sched: Vec<usize> = (0..steps).map(|_| rng.below(ns as u64 + 1) as usize).collect();
            task_case(no, "c16 kind=task random", cap, limit, &progs, &sched, rec);
        } else {
            let steps = rng.range(1, if thorough { 60 } else { 30 }) as usize;
            let malformed = rng.chance(1, 12);
            let ls = gen_api_case(&mut rng, steps, malformed);
            run_lines(no, "c16 kind=api random", &ls, rec);
        }
    }
}
