//! C15: the real `MergeSource` over `TaggedSource`s over scripted streams.
//! Line protocol: see lean/HvSink/HvSink/Driver/C15.lean.
use crate::wk::{WakeLog, show_list};
use futures::Stream;
use hv_common::{Args, Recorder, Rng};
use hydro_deploy_integration::{MergeSource, TaggedSource};
use std::collections::BTreeSet;
use std::io;
use std::pin::Pin;
use std::sync::{Arc, Mutex};
use std::task::{Context, Poll};

pub const RULE: &str = "C15: a case = per-source scripts (ready Ok / ready Err / pending entries, sources ending at different \
times) merged by the real MergeSource over TaggedSources, polled until the merged stream ended (+2); non-trivial = some source ended \
while others were still live (deferred removal + cursor fix-up ran) or a poll returned Pending; distinct = distinct script sets";

#[derive(Clone, Copy, PartialEq, Debug)]
enum Tok {
    Ok(u64),
    Err(u64),
    Pending,
}

#[derive(Default)]
struct Shared {
    /// tags polled during the current `poll_next`, in order
    polled: Vec<u64>,
    /// sources that were polled again after they returned `None`
    polled_after_end: Vec<u64>,
}

struct Scripted {
    tag: u64,
    script: Vec<Tok>,
    pos: usize,
    ended: bool,
    shared: Arc<Mutex<Shared>>,
}
impl Stream for Scripted {
    type Item = Result<u64, io::Error>;
    fn poll_next(self: Pin<&mut Self>, cx: &mut Context<'_>) -> Poll<Option<Self::Item>> {
        let me = self.get_mut();
        let mut sh = me.shared.lock().unwrap();
        sh.polled.push(me.tag);
        if me.ended {
            sh.polled_after_end.push(me.tag);
            return Poll::Ready(None);
        }
        if me.pos == me.script.len() {
            me.ended = true;
            return Poll::Ready(None);
        }
        let t = me.script[me.pos];
        me.pos += 1;
        match t {
            Tok::Ok(x) => Poll::Ready(Some(Ok(x))),
            Tok::Err(k) => Poll::Ready(Some(Err(io::Error::other(k.to_string())))),
            Tok::Pending => {
                // a well-behaved source arranges a wake-up before returning Pending
                cx.waker().wake_by_ref();
                Poll::Pending
            }
        }
    }
}

type Tagged = TaggedSource<u64, Scripted>;
type Merged = MergeSource<Result<(u32, u64), io::Error>, Tagged>;

struct Run {
    merged: Pin<Box<Merged>>,
    shared: Arc<Mutex<Shared>>,
    log: WakeLog,
    // oracle: independent view of the scripts
    scripts: Vec<Vec<Tok>>,
    /// next script position of each source as the oracle sees it
    pos: Vec<usize>,
    /// source observed `None`
    finished: Vec<bool>,
    /// for each waiting-ready source: ids served since it became ready at its head
    served_while_waiting: Vec<BTreeSet<usize>>,
    merged_ended: bool,
    dead: bool,
}

fn parse_tok(s: &str) -> Option<Tok> {
    if s == "p" {
        Some(Tok::Pending)
    } else if let Some(r) = s.strip_prefix('e') {
        r.parse().ok().map(Tok::Err)
    } else {
        s.parse().ok().map(Tok::Ok)
    }
}
fn parse_script(s: &str) -> Option<Vec<Tok>> {
    if s == "-" { Some(vec![]) } else { s.split(',').map(parse_tok).collect() }
}
fn show_script(s: &[Tok]) -> String {
    if s.is_empty() {
        "-".into()
    } else {
        s.iter()
            .map(|t| match t {
                Tok::Ok(x) => x.to_string(),
                Tok::Err(k) => format!("e{k}"),
                Tok::Pending => "p".into(),
            })
            .collect::<Vec<_>>()
            .join(",")
    }
}

impl Run {
    fn new(scripts: Vec<Vec<Tok>>) -> Run {
        let shared = Arc::new(Mutex::new(Shared::default()));
        let sources: Vec<Pin<Box<Tagged>>> = scripts
            .iter()
            .enumerate()
            .map(|(i, sc)| {
                let tag = 100 + i as u64;
                let s = Scripted { tag, script: sc.clone(), pos: 0, ended: false, shared: shared.clone() };
                Box::pin(TaggedSource::verif_new(tag as u32, Box::pin(s)))
            })
            .collect();
        let n = scripts.len();
        Run {
            merged: Box::pin(MergeSource::verif_new(sources)),
            shared,
            log: WakeLog::default(),
            scripts,
            pos: vec![0; n],
            finished: vec![false; n],
            served_while_waiting: vec![BTreeSet::new(); n],
            merged_ended: false,
            dead: false,
        }
    }

    fn head_ready(&self, i: usize) -> bool {
        !self.finished[i] && self.pos[i] < self.scripts[i].len() && self.scripts[i][self.pos[i]] != Tok::Pending
    }

    fn next(&mut self, rec: &mut Recorder) -> String {
        let n = self.scripts.len();
        let ready_before: Vec<bool> = (0..n).map(|i| self.head_ready(i)).collect();
        let live_before = self.finished.iter().filter(|f| !**f).count();
        self.shared.lock().unwrap().polled.clear();
        let waker = self.log.waker(0);
        let mut cx = Context::from_waker(&waker);
        let merged = &mut self.merged;
        let r = match hv_common::catch(std::panic::AssertUnwindSafe(|| merged.as_mut().poll_next(&mut cx))) {
            Ok(r) => r,
            Err(msg) => {
                // index out of bounds / unwrap on a removed slot inside poll_next
                rec.check(false, "panic-in-poll-next", &msg);
                self.dead = true;
                return "panic".into();
            }
        };
        let polled = self.shared.lock().unwrap().polled.clone();
        self.log.take();
        let (len, cur) = self.merged.verif_state();
        let is_end = matches!(r, Poll::Ready(None));

        // ---- oracle ----
        let pae = self.shared.lock().unwrap().polled_after_end.clone();
        rec.check(pae.is_empty(), "source-polled-after-end", &show_list(&pae));
        let mut seen = BTreeSet::new();
        let dup = polled.iter().any(|t| !seen.insert(*t));
        rec.check(!dup, "source-polled-twice-in-one-poll", &show_list(&polled));
        rec.check(cur < len || (len == 0 && cur == 0), "cursor-out-of-bounds", &format!("len={len} cur={cur}"));
        // advance the oracle's view of every polled source by one script entry
        let mut served: Option<usize> = None;
        for (k, tag) in polled.iter().enumerate() {
            let i = (*tag - 100) as usize;
            if self.finished[i] {
                continue;
            }
            if self.pos[i] == self.scripts[i].len() {
                self.finished[i] = true;
                rec.count("source-ended");
                continue;
            }
            let t = self.scripts[i][self.pos[i]];
            self.pos[i] += 1;
            if t != Tok::Pending {
                // a ready entry must end the loop and be the output
                rec.check(k + 1 == polled.len(), "polled-on-after-ready-item", &show_list(&polled));
                served = Some(i);
            }
        }
        let live_after = self.finished.iter().filter(|f| !**f).count();
        if live_after < live_before && live_after > 0 {
            rec.count("removal-with-survivors");
        }
        let out = match r {
            Poll::Ready(Some(Ok((tag, x)))) => {
                let ok = served.is_some_and(|i| tag as u64 == 100 + i as u64 && self.scripts[i][self.pos[i] - 1] == Tok::Ok(x));
                rec.check(ok, "item-not-next-of-its-sender", &format!("got {tag}:{x}"));
                rec.count("out:item");
                format!("item {tag}:{x}")
            }
            Poll::Ready(Some(Err(e))) => {
                let k: u64 = e.to_string().parse().unwrap_or(u64::MAX);
                let ok = served.is_some_and(|i| self.scripts[i][self.pos[i] - 1] == Tok::Err(k));
                rec.check(ok, "error-not-next-of-its-sender", &format!("got err {k}"));
                rec.count("out:err");
                format!("err {k}")
            }
            Poll::Pending => {
                rec.check(served.is_none(), "ready-item-dropped", &show_list(&polled));
                // Pending is only justified after a full round over every live source
                rec.check(polled.len() == live_before, "pending-without-full-round", &format!("polled {} of {live_before}", polled.len()));
                rec.check(live_after > 0, "pending-with-no-source-left", "");
                rec.count("out:pending");
                "pending".into()
            }
            Poll::Ready(None) => {
                rec.check(served.is_none(), "ready-item-dropped", &show_list(&polled));
                rec.check(live_after == 0, "ended-with-live-source", &format!("{live_after} live"));
                let lost: Vec<usize> = (0..n).filter(|&i| self.pos[i] < self.scripts[i].len()).collect();
                rec.check(lost.is_empty(), "ended-with-unread-items", &show_list(&lost));
                self.merged_ended = true;
                rec.count("out:ended");
                "ended".into()
            }
        };
        if self.merged_ended {
            rec.check(is_end, "output-after-end", &out);
        }
        if live_after == 0 {
            rec.check(is_end, "all-sources-ended-but-merge-not", &out);
        }
        // fairness: a source that had a ready item at its head is served before any other
        // source is served twice
        if let Some(j) = served {
            for i in 0..n {
                if i != j && ready_before[i] {
                    let fresh = self.served_while_waiting[i].insert(j);
                    rec.check(fresh, "unfair-second-serve-before-ready-source", &format!("source {j} served twice while source {i} had a ready item"));
                }
            }
            self.served_while_waiting[j].clear();
        }
        for i in 0..n {
            if !ready_before[i] {
                self.served_while_waiting[i].clear();
            }
        }
        format!("{out} len={len} cur={cur} polled={}", show_list(&polled))
    }
}

fn exec(run: &mut Option<Run>, line: &str, rec: &mut Recorder) -> String {
    let ws: Vec<&str> = line.split(' ').filter(|w| !w.is_empty()).collect();
    match ws.as_slice() {
        ["merge", scripts @ ..] => match scripts.iter().map(|s| parse_script(s)).collect::<Option<Vec<_>>>() {
            Some(ss) => {
                *run = Some(Run::new(ss));
                "ok".into()
            }
            None => "bad-op".into(),
        },
        ["next"] => match run.as_mut() {
            Some(r) if r.dead => "dead".into(),
            Some(r) => r.next(rec),
            None => "bad-op".into(),
        },
        _ => "bad-op".into(),
    }
}

pub fn replay_case(no: u64, tag: &str, lines: &[String], rec: &mut Recorder) {
    rec.case(no, tag);
    let before = marks(rec);
    let mut run = None;
    for l in lines {
        let out = exec(&mut run, l, rec);
        rec.line(l, &out);
    }
    if marks(rec) > before {
        rec.nontrivial();
    }
}

fn marks(rec: &Recorder) -> u64 {
    ["removal-with-survivors", "out:pending"].iter().map(|k| rec.hist.get(*k).copied().unwrap_or(0)).sum()
}

/// run one configuration: poll until the merged stream ended, then twice more
fn merge_case(no: u64, tag: &str, scripts: &[Vec<Tok>], extra: &[&str], rec: &mut Recorder) {
    rec.case(no, tag);
    let before = marks(rec);
    let mut run = None;
    let l = format!("merge {}", scripts.iter().map(|s| show_script(s)).collect::<Vec<_>>().join(" "));
    let l = l.trim_end().to_string();
    let out = exec(&mut run, &l, rec);
    rec.line(&l, &out);
    let total: usize = scripts.iter().map(|s| s.len() + 1).sum();
    let mut after_end = 0;
    for _ in 0..total + 3 {
        let out = exec(&mut run, "next", rec);
        let ended = out.starts_with("ended");
        rec.line("next", &out);
        if ended {
            after_end += 1;
            if after_end == 3 {
                break;
            }
        }
    }
    for e in extra {
        let out = exec(&mut run, e, rec);
        rec.line(e, &out);
    }
    if marks(rec) > before {
        rec.nontrivial();
    }
}

/// all scripts of length <= max over {ready, pending}; ready values are unique per source
fn all_scripts(src: usize, max: usize) -> Vec<Vec<Tok>> {
    let mut out = vec![];
    for len in 0..=max {
        for code in 0..(1u32 << len) {
            let mut s = vec![];
            let mut k = 0;
            for b in 0..len {
                if code >> b & 1 == 1 {
                    s.push(Tok::Pending);
                } else {
                    k += 1;
                    s.push(Tok::Ok(src as u64 * 1000 + k));
                }
            }
            out.push(s);
        }
    }
    out
}

pub fn generate(args: &Args, rec: &mut Recorder) {
    let thorough = args.tier == "thorough";
    let mut no = 0u64;
    // bounded-exhaustive: every combination of short scripts
    let plans: &[(usize, usize)] = if thorough { &[(1, 3), (2, 3), (3, 3), (4, 2)] } else { &[(1, 3), (2, 3), (3, 2)] };
    for &(nsrc, max) in plans {
        let per: Vec<Vec<Vec<Tok>>> = (0..nsrc).map(|i| all_scripts(i, max)).collect();
        let mut idx = vec![0usize; nsrc];
        loop {
            let scripts: Vec<Vec<Tok>> = (0..nsrc).map(|i| per[i][idx[i]].clone()).collect();
            no += 1;
            merge_case(no, "c15 exhaustive", &scripts, &[], rec);
            let mut k = 0;
            while k < nsrc {
                idx[k] += 1;
                if idx[k] < per[k].len() {
                    break;
                }
                idx[k] = 0;
                k += 1;
            }
            if k == nsrc {
                break;
            }
        }
    }
    // random: more sources, longer scripts, errors, occasional malformed lines
    let root = Rng::new(args.seed);
    for i in 0..args.cases {
        let mut rng = root.fork(i);
        let nsrc = rng.range(0, 6) as usize;
        let pend = rng.range(0, 6);
        let scripts: Vec<Vec<Tok>> = (0..nsrc)
            .map(|s| {
                let len = rng.range(0, if thorough { 12 } else { 7 }) as usize;
                let mut k = 0;
                (0..len)
                    .map(|_| {
                        if rng.below(10) < pend {
                            Tok::Pending
                        } else if rng.chance(1, 12) {
                            Tok::Err(s as u64 * 1000 + 900 + rng.below(9))
                        } else {
                            k += 1;
                            Tok::Ok(s as u64 * 1000 + k)
                        }
                    })
                    .collect()
            })
            .collect();
        no += 1;
        let extra: &[&str] = if rng.chance(1, 10) { &["merge 1,x", "nxt", "next now"] } else { &[] };
        merge_case(no, "c15 random", &scripts, extra, rec);
    }
}
