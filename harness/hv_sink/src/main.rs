//! Harness for C14 / C15 / C16: drives the real sink adaptors, `MergeSource`, and the unsync
//! channel with generated schedules, writes the transcript for the Lean driver `hvdrv_sink`
//! and evaluates the properties on the real code with independent oracles.
mod c14;
mod c15;
mod c16;
mod wk;

use hv_common::{Args, Recorder};

/// split a replay file into cases: (number, tag, lines)
pub fn split_cases(lines: Vec<String>) -> Vec<(u64, String, Vec<String>)> {
    let mut out: Vec<(u64, String, Vec<String>)> = vec![];
    for l in lines {
        if let Some(rest) = l.strip_prefix("#case ") {
            let mut it = rest.splitn(2, ' ');
            let no = it.next().unwrap().parse().unwrap_or(0);
            let tag = it.next().unwrap_or("").to_string();
            out.push((no, tag, vec![]));
        } else if let Some(last) = out.last_mut() {
            last.2.push(l);
        } else {
            out.push((0, String::new(), vec![l]));
        }
    }
    out
}

fn main() {
    let args = Args::parse();
    hv_common::quiet_panics();
    let mut rec = match args.mode.as_str() {
        "c16" => Recorder::new(c16::RULE),
        "c15" => Recorder::new(c15::RULE),
        "c14" => Recorder::new(c14::RULE),
        m => {
            eprintln!("unknown mode {m}");
            std::process::exit(2);
        }
    };
    if let Some(p) = &args.replay {
        for (no, tag, lines) in split_cases(hv_common::read_lines(p)) {
            match args.mode.as_str() {
                "c16" => c16::replay_case(no, &tag, &lines, &mut rec),
                "c15" => c15::replay_case(no, &tag, &lines, &mut rec),
                "c14" => c14::replay_case(no, &tag, &lines, &mut rec),
                _ => unreachable!(),
            }
        }
    } else {
        match args.mode.as_str() {
            "c16" => c16::generate(&args, &mut rec),
            "c15" => c15::generate(&args, &mut rec),
            "c14" => c14::generate(&args, &mut rec),
            _ => unreachable!(),
        }
    }
    rec.finish(&args.out);
}
