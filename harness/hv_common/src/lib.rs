//! Shared support for the /verif harness crates: one PRNG, a transcript writer,
//! property-oracle failure records and run statistics.  No dependencies.
//!
//! Output convention (all files under `--out DIR`):
//!   ops.txt    one operation per line; `#case <n> ...` starts a case
//!   impl.txt   one line per line of ops.txt: what the real implementation answered
//!   prop.txt   one line per property-oracle failure: `FAIL case=<n> sig=<sig> <detail>`
//!   stats.json measured counts for the evidence file

use std::collections::{BTreeMap, BTreeSet};
use std::fmt::Write as _;
use std::fs;
use std::path::PathBuf;

/// SplitMix64: every random choice of a run derives from one seed.
#[derive(Clone)]
pub struct Rng(pub u64);
impl Rng {
    pub fn new(seed: u64) -> Self {
        Rng(seed)
    }
    pub fn next_u64(&mut self) -> u64 {
        self.0 = self.0.wrapping_add(0x9E37_79B9_7F4A_7C15);
        let mut z = self.0;
        z = (z ^ (z >> 30)).wrapping_mul(0xBF58_476D_1CE4_E5B9);
        z = (z ^ (z >> 27)).wrapping_mul(0x94D0_49BB_1331_11EB);
        z ^ (z >> 31)
    }
    /// uniform in 0..n (n > 0)
    pub fn below(&mut self, n: u64) -> u64 {
        self.next_u64() % n
    }
    pub fn range(&mut self, lo: u64, hi_incl: u64) -> u64 {
        lo + self.below(hi_incl - lo + 1)
    }
    pub fn chance(&mut self, num: u64, den: u64) -> bool {
        self.below(den) < num
    }
    pub fn pick<'a, T>(&mut self, xs: &'a [T]) -> &'a T {
        &xs[self.below(xs.len() as u64) as usize]
    }
    /// independent stream for case `i`, so a case replays alone
    pub fn fork(&self, i: u64) -> Rng {
        let mut r = Rng(self.0 ^ i.wrapping_mul(0xD6E8_FEB8_6659_FD93));
        r.next_u64();
        r
    }
}

/// Command line shared by all harness binaries.
pub struct Args {
    pub mode: String,
    pub seed: u64,
    pub cases: u64,
    pub out: PathBuf,
    pub replay: Option<PathBuf>,
    pub tier: String,
    pub extra: BTreeMap<String, String>,
}
impl Args {
    pub fn parse() -> Args {
        let mut it = std::env::args().skip(1);
        let mode = it.next().unwrap_or_else(|| usage());
        let mut a = Args {
            mode,
            seed: 1,
            cases: 100,
            out: PathBuf::from("."),
            replay: None,
            tier: "quick".into(),
            extra: BTreeMap::new(),
        };
        while let Some(k) = it.next() {
            let v = it.next().unwrap_or_else(|| usage());
            match k.as_str() {
                "--seed" => a.seed = v.parse().expect("seed"),
                "--cases" => a.cases = v.parse().expect("cases"),
                "--out" => a.out = PathBuf::from(v),
                "--replay" => a.replay = Some(PathBuf::from(v)),
                "--tier" => a.tier = v,
                _ if k.starts_with("--") => {
                    a.extra.insert(k[2..].to_string(), v);
                }
                _ => usage(),
            }
        }
        a
    }
}
fn usage() -> ! {
    eprintln!("usage: <bin> <mode> [--seed N] [--cases N] [--out DIR] [--replay FILE] [--tier quick|thorough]");
    std::process::exit(2)
}

/// Transcript + oracle + statistics collector.
pub struct Recorder {
    pub ops: String,
    pub imp: String,
    pub prop: String,
    pub case_no: u64,
    pub cases: u64,
    pub lines: u64,
    pub prop_failures: u64,
    pub prop_checks: u64,
    /// named counters (operation kinds, branches hit, sizes, ...)
    pub hist: BTreeMap<String, u64>,
    /// fingerprints of non-trivial cases
    pub nontrivial: BTreeSet<u64>,
    pub samples: Vec<String>,
    cur_case_text: String,
    cur_fp: Option<u64>,
    pub rule: String,
}
impl Recorder {
    pub fn new(rule: &str) -> Self {
        Recorder {
            ops: String::new(),
            imp: String::new(),
            prop: String::new(),
            case_no: 0,
            cases: 0,
            lines: 0,
            prop_failures: 0,
            prop_checks: 0,
            hist: BTreeMap::new(),
            nontrivial: BTreeSet::new(),
            samples: Vec::new(),
            cur_case_text: String::new(),
            cur_fp: None,
            rule: rule.to_string(),
        }
    }
    /// start case `n`; `tag` is free text kept on the `#case` line
    pub fn case(&mut self, n: u64, tag: &str) {
        self.case_no = n;
        self.cases += 1;
        self.cur_case_text.clear();
        self.cur_fp = None;
        let l = if tag.is_empty() { format!("#case {n}") } else { format!("#case {n} {tag}") };
        self.line(&l.clone(), &l);
    }
    /// one op line and what the implementation answered
    pub fn line(&mut self, op: &str, out: &str) {
        debug_assert!(!op.contains('\n') && !out.contains('\n'));
        self.ops.push_str(op);
        self.ops.push('\n');
        self.imp.push_str(out);
        self.imp.push('\n');
        self.cur_case_text.push_str(op);
        self.cur_case_text.push('|');
        self.lines += 1;
    }
    /// mark the current case as non-trivial (by the rule given to `new`)
    /// (idempotent per case: a case counts once however often this is called)
    pub fn nontrivial(&mut self) {
        let fp = fnv(self.cur_case_text.as_bytes());
        let first = self.cur_fp.is_none();
        if let Some(old) = self.cur_fp.take() {
            self.nontrivial.remove(&old);
        }
        self.nontrivial.insert(fp);
        self.cur_fp = Some(fp);
        if first && self.samples.len() < 5 {
            self.samples.push(self.cur_case_text.clone());
        }
    }
    pub fn count(&mut self, key: &str) {
        *self.hist.entry(key.to_string()).or_insert(0) += 1;
    }
    pub fn count_n(&mut self, key: &str, n: u64) {
        *self.hist.entry(key.to_string()).or_insert(0) += n;
    }
    /// property oracle: `ok == false` records a failure with a stable signature
    pub fn check(&mut self, ok: bool, sig: &str, detail: &str) {
        self.prop_checks += 1;
        if !ok {
            self.prop_failures += 1;
            let _ = writeln!(self.prop, "FAIL case={} sig={} {}", self.case_no, sig, detail.replace('\n', " "));
        }
    }
    pub fn finish(&self, out: &PathBuf) {
        fs::create_dir_all(out).expect("mkdir out");
        fs::write(out.join("ops.txt"), &self.ops).unwrap();
        fs::write(out.join("impl.txt"), &self.imp).unwrap();
        fs::write(out.join("prop.txt"), &self.prop).unwrap();
        let mut j = String::new();
        j.push_str("{\n");
        let _ = writeln!(j, "  \"cases\": {},", self.cases);
        let _ = writeln!(j, "  \"lines\": {},", self.lines);
        let _ = writeln!(j, "  \"prop_checks\": {},", self.prop_checks);
        let _ = writeln!(j, "  \"prop_failures\": {},", self.prop_failures);
        let _ = writeln!(j, "  \"distinct_nontrivial\": {},", self.nontrivial.len());
        let _ = writeln!(j, "  \"rule\": {},", jstr(&self.rule));
        j.push_str("  \"samples\": [");
        for (i, s) in self.samples.iter().enumerate() {
            if i > 0 {
                j.push_str(", ");
            }
            j.push_str(&jstr(s));
        }
        j.push_str("],\n  \"hist\": {");
        for (i, (k, v)) in self.hist.iter().enumerate() {
            if i > 0 {
                j.push_str(", ");
            }
            let _ = write!(j, "{}: {}", jstr(k), v);
        }
        j.push_str("}\n}\n");
        fs::write(out.join("stats.json"), j).unwrap();
    }
}

pub fn fnv(b: &[u8]) -> u64 {
    let mut h: u64 = 0xcbf29ce484222325;
    for &x in b {
        h ^= x as u64;
        h = h.wrapping_mul(0x100000001b3);
    }
    h
}

pub fn jstr(s: &str) -> String {
    let mut o = String::from("\"");
    for c in s.chars() {
        match c {
            '"' => o.push_str("\\\""),
            '\\' => o.push_str("\\\\"),
            '\n' => o.push_str("\\n"),
            '\t' => o.push_str("\\t"),
            c if (c as u32) < 0x20 => {
                let _ = write!(o, "\\u{:04x}", c as u32);
            }
            c => o.push(c),
        }
    }
    o.push('"');
    o
}

/// Read a replay file: the op lines of one or more cases.
pub fn read_lines(p: &PathBuf) -> Vec<String> {
    fs::read_to_string(p)
        .expect("read replay")
        .lines()
        .map(|l| l.trim_end().to_string())
        .filter(|l| !l.is_empty())
        .collect()
}

/// Run `f`, turning a panic into `Err(message)` (used to map panics to a small enum).
pub fn catch<T>(f: impl FnOnce() -> T + std::panic::UnwindSafe) -> Result<T, String> {
    std::panic::catch_unwind(f).map_err(|e| {
        if let Some(s) = e.downcast_ref::<&str>() {
            s.to_string()
        } else if let Some(s) = e.downcast_ref::<String>() {
            s.clone()
        } else {
            "panic".to_string()
        }
    })
}

/// Silence the default panic hook (panics are expected outcomes in some harnesses).
pub fn quiet_panics() {
    std::panic::set_hook(Box::new(|_| {}));
}
