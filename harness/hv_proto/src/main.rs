//! C40 harness: the real `raft_step` / the real Hydro RAFT program against the Lean model.
//!
//! Mode `c40` produces three kinds of cases:
//!  * `direct`: N real `RaftServerState`s connected by a scripted adversarial network (loss,
//!    duplication, reordering, fail-stop crashes, concurrent timers) calling the real
//!    `hydro_test::cluster::raft::raft_step`; every call is one op line, the canonical rendering of
//!    its outputs and resulting state is the implementation answer (diffed against `raftStep` of the
//!    Lean model, which also checks trace inclusion of the network);
//!  * `sim`: the real Hydro program (`raft(..)` compiled by the production simulator backend) run by
//!    `hydro_lang::sim` under schedules derived from the seed; the cfg-guarded trace hook in
//!    `raft_step` logs every protocol step, which becomes the same kind of op line;
//!  * `paxos`: the decision-rule table the Paxos theorems were proved against.
//! The property oracle (independent of the model) checks on the real outputs: committed sequences
//! are gap-free and pairwise prefix-consistent, at most one leader per term, log matching, no
//! protocol-violation panic, and (sim) the externally observed committed streams equal the steps'.

use std::collections::{BTreeMap, HashMap};
use std::panic::AssertUnwindSafe;

use hv_common::{Args, Recorder, Rng, catch, quiet_panics, read_lines};
use hydro_lang::location::MemberId;
use hydro_test::cluster::raft::{
    AppendEntriesReply, AppendEntriesRequest, LogEntry, RaftRpc, RaftServerState, RaftState,
    RaftStepInput, Replica, RequestVoteDto, RequestVoteResponseDto, raft_step, verif_hook,
};

mod simrun;

type St = RaftServerState<String, Replica>;
type Rpc = RaftRpc<String, Replica>;

fn mid(i: u32) -> MemberId<Replica> {
    MemberId::from_raw_id(i)
}

// ---------------------------------------------------------------------------------- parsing

fn parse_entries(s: &str) -> Option<Vec<LogEntry<String>>> {
    if s == "-" {
        return Some(vec![]);
    }
    s.split(',')
        .map(|e| {
            let p: Vec<&str> = e.split('.').collect();
            if p.len() != 3 {
                return None;
            }
            Some(LogEntry { index: p[0].parse().ok()?, term_received: p[1].parse().ok()?, message: p[2].to_owned() })
        })
        .collect()
}

fn parse_msg(tok: &str) -> Option<(MemberId<Replica>, Rpc)> {
    let p: Vec<&str> = tok.split(':').collect();
    let n = |i: usize| -> Option<usize> { p.get(i)?.parse().ok() };
    let peer = mid(n(1)? as u32);
    let rpc = match (p[0], p.len()) {
        ("rv", 5) => RaftRpc::RequestVote(RequestVoteDto { term: n(2)?, last_log_index: n(3)?, last_log_term: n(4)? }),
        ("rvr", 3) => RaftRpc::RequestVoteResponse(RequestVoteResponseDto { term: n(2)? }),
        ("ae", 8) => RaftRpc::AppendEntries(AppendEntriesRequest {
            term: n(2)?,
            leader: mid(n(3)? as u32),
            prev_log_index: n(4)?,
            prev_log_term: n(5)?,
            leader_commit: n(6)?,
            entries: parse_entries(p[7])?,
        }),
        ("aer", 5) => RaftRpc::AppendEntriesReply(AppendEntriesReply { term: n(2)?, success: n(3)? != 0, match_index: n(4)? }),
        _ => return None,
    };
    Some((peer, rpc))
}

/// `step <me> <n> <el> <hb> O <others> R <payloads> M <messages>`
fn parse_step(line: &str) -> Option<RaftStepInput<String, Replica>> {
    let w: Vec<&str> = line.split(' ').collect();
    if w.len() < 8 || w[0] != "step" || w[5] != "O" {
        return None;
    }
    let me: u32 = w[1].parse().ok()?;
    let n: usize = w[2].parse().ok()?;
    let el = w[3].parse::<u8>().ok()? != 0;
    let hb = w[4].parse::<u8>().ok()? != 0;
    let ri = w.iter().position(|x| *x == "R")?;
    let mi = w.iter().position(|x| *x == "M")?;
    if !(5 < ri && ri < mi) {
        return None;
    }
    let others = w[6..ri].iter().map(|x| x.parse::<u32>().ok().map(mid)).collect::<Option<Vec<_>>>()?;
    let requests = w[ri + 1..mi]
        .iter()
        .map(|x| x.parse::<u64>().ok().map(|_| (*x).to_owned()))
        .collect::<Option<Vec<_>>>()?;
    let messages = w[mi + 1..].iter().map(|x| parse_msg(x)).collect::<Option<Vec<_>>>()?;
    Some(RaftStepInput {
        me: mid(me),
        other_members: others,
        cluster_size: n,
        election_timer_fired: el,
        heartbeat_timer_fired: hb,
        requests,
        messages,
    })
}

// ---------------------------------------------------------------------------------- oracle

/// What the property oracle remembers about one case (fed from REAL outputs only).
#[derive(Default)]
pub struct Oracle {
    /// committed history per member: (index, term, payload)
    pub committed: BTreeMap<u32, Vec<(usize, usize, String)>>,
    /// term -> member that was seen as leader of that term
    pub leaders: BTreeMap<usize, u32>,
    /// latest log per member (index, term, payload)
    pub logs: BTreeMap<u32, Vec<(usize, usize, String)>>,
}

impl Oracle {
    pub fn committed_out(&mut self, rec: &mut Recorder, me: u32, entries: &[(usize, usize, String)]) {
        for e in entries {
            let h = self.committed.entry(me).or_default();
            rec.check(e.0 == h.len() + 1, "raft-commit-gap", &format!("member {me} emitted index {} after {} entries", e.0, h.len()));
            h.push(e.clone());
        }
        // pairwise prefix consistency (state machine safety)
        let mine = self.committed.get(&me).cloned().unwrap_or_default();
        for (other, h) in &self.committed {
            if *other == me {
                continue;
            }
            let fork = mine.iter().zip(h.iter()).position(|(a, b)| a != b);
            rec.check(
                fork.is_none(),
                "raft-committed-fork",
                &format!("members {me} and {other} disagree at committed position {:?}", fork.map(|p| p + 1)),
            );
        }
    }
    pub fn leader_seen(&mut self, rec: &mut Recorder, me: u32, term: usize) {
        let prev = *self.leaders.entry(term).or_insert(me);
        rec.check(prev == me, "raft-two-leaders-one-term", &format!("term {term} led by {prev} and {me}"));
    }
    pub fn log_seen(&mut self, rec: &mut Recorder, me: u32, log: Vec<(usize, usize, String)>) {
        for (pos, e) in log.iter().enumerate() {
            rec.check(e.0 == pos + 1, "raft-log-index", &format!("member {me} log position {} holds index {}", pos + 1, e.0));
        }
        for (other, l) in &self.logs {
            if *other == me {
                continue;
            }
            // log matching: same (index, term) => identical prefixes
            let m = log.len().min(l.len());
            if let Some(i) = (0..m).rev().find(|&i| log[i].1 == l[i].1) {
                rec.check(
                    log[..=i] == l[..=i],
                    "raft-log-matching",
                    &format!("members {me} and {other} share (index {}, term {}) but differ below", i + 1, log[i].1),
                );
            }
        }
        // a committed entry is never removed from / changed in the log of the member that committed it
        if let Some(h) = self.committed.get(&me) {
            let ok = h.len() <= log.len() && h.iter().zip(log.iter()).all(|(a, b)| a == b);
            rec.check(ok, "raft-committed-entry-lost", &format!("member {me} log no longer extends its committed history"));
        }
        self.logs.insert(me, log);
    }
}

fn entry_tuple(e: &LogEntry<String>) -> (usize, usize, String) {
    (e.index, e.term_received, e.message.clone())
}

// ---------------------------------------------------------------------------------- direct mode

struct Direct {
    states: HashMap<u32, St>,
    oracle: Oracle,
    dead: bool,
}

impl Direct {
    fn new() -> Self {
        Direct { states: HashMap::new(), oracle: Oracle::default(), dead: false }
    }

    /// run the real `raft_step`; returns the outbound messages as (to, from, rpc)
    fn step(&mut self, rec: &mut Recorder, input: RaftStepInput<String, Replica>) -> Vec<(u32, u32, Rpc)> {
        let line = verif_hook::fmt_input(&input);
        if self.dead {
            rec.line(&line, "dead");
            return vec![];
        }
        let me = input.me.get_raw_id();
        let state = self.states.entry(me).or_insert_with(RaftServerState::new);
        rec.count(&format!("batch-size-{}", input.messages.len().min(6)));
        if input.election_timer_fired {
            rec.count("election-timer");
        }
        if input.heartbeat_timer_fired {
            rec.count("heartbeat-timer");
        }
        for (_, m) in &input.messages {
            rec.count(match m {
                RaftRpc::RequestVote(_) => "deliver-rv",
                RaftRpc::RequestVoteResponse(_) => "deliver-rvr",
                RaftRpc::AppendEntries(a) => {
                    if a.entries.is_empty() {
                        "deliver-ae-empty"
                    } else {
                        "deliver-ae-entries"
                    }
                }
                RaftRpc::AppendEntriesReply(r) => {
                    if r.success {
                        "deliver-aer-ok"
                    } else {
                        "deliver-aer-fail"
                    }
                }
            });
        }
        let was_leader = state.role == RaftState::Leader;
        let was_candidate = state.role == RaftState::Candidate;
        let old_term = state.term;
        let old_commit = state.commit_index;
        let old_last: (usize, usize) = state.log.last().map_or((0, 0), |e| (e.term_received, e.index));
        let old_log: Vec<(usize, usize)> = state.log.iter().map(|e| (e.index, e.term_received)).collect();
        // what was delivered (for the outcome counters below; classified on the REAL state before/after)
        let rvs: Vec<(u32, usize, usize, usize)> = input
            .messages
            .iter()
            .filter_map(|(from, m)| match m {
                RaftRpc::RequestVote(r) => Some((from.get_raw_id(), r.term, r.last_log_term, r.last_log_index)),
                _ => None,
            })
            .collect();
        let max_in_term = input
            .messages
            .iter()
            .map(|(_, m)| match m {
                RaftRpc::RequestVote(r) => r.term,
                RaftRpc::RequestVoteResponse(r) => r.term,
                RaftRpc::AppendEntries(a) => a.term,
                RaftRpc::AppendEntriesReply(r) => r.term,
            })
            .max()
            .unwrap_or(0);
        let aes: Vec<(usize, usize, usize, usize)> = input
            .messages
            .iter()
            .filter_map(|(_, m)| match m {
                RaftRpc::AppendEntries(a) => Some((a.term, a.prev_log_index, a.entries.len(), a.leader_commit)),
                _ => None,
            })
            .collect();
        let aer_fail_current = input.messages.iter().any(|(_, m)| match m {
            RaftRpc::AppendEntriesReply(r) => !r.success && r.term == old_term,
            _ => false,
        });
        let res = catch(AssertUnwindSafe(|| raft_step(state, input)));
        match res {
            Err(msg) => {
                self.dead = true;
                let kind = if msg.contains("two leaders share term") {
                    "two-leaders"
                } else if msg.contains("truncate committed") {
                    "truncate-committed"
                } else {
                    "other"
                };
                rec.check(false, &format!("raft-step-panic:{kind}"), &msg);
                rec.line(&line, "panic");
                vec![]
            }
            Ok(out) => {
                let ans = format!(
                    "ok {} net=ok",
                    verif_hook::fmt_output(state, &out.outbound, &out.committed, &out.redirected, &out.view_transition)
                );
                rec.line(&line, &ans);
                if state.role == RaftState::Leader {
                    if !was_leader {
                        rec.count("became-leader");
                    }
                    let t = state.term;
                    self.oracle.leader_seen(rec, me, t);
                }
                if !out.committed.is_empty() {
                    rec.count("committed-some");
                }
                let new_log: Vec<(usize, usize)> = state.log.iter().map(|e| (e.index, e.term_received)).collect();
                if !new_log.starts_with(&old_log) {
                    rec.count("log-truncated-or-overwritten");
                }
                // outcome counters for the anchored branches of raft_step
                let final_term = old_term.max(max_in_term);
                for (from, t, llt, lli) in &rvs {
                    let granted = out.outbound.iter().any(|(to, m)| {
                        to.get_raw_id() == *from && matches!(m, RaftRpc::RequestVoteResponse(_))
                    });
                    rec.count(if granted {
                        "rv-granted"
                    } else if *t < final_term {
                        "rv-denied-stale-term"
                    } else if (*llt, *lli) < old_last {
                        "rv-denied-log-not-up-to-date"
                    } else {
                        "rv-denied-already-voted-or-own-candidacy"
                    });
                }
                for (t, prev, len, lc) in &aes {
                    if *t < final_term {
                        rec.count("ae-stale-term-rejected");
                    } else if *prev + *len < *lc && state.commit_index == *prev + *len && state.commit_index > old_commit {
                        rec.count("ae-commit-capped-by-new-match");
                    }
                }
                if was_leader && state.role != RaftState::Leader {
                    rec.count("leader-stepped-down");
                }
                if was_candidate && state.role == RaftState::Follower && state.term == old_term {
                    rec.count("candidate-deposed-by-same-term-leader");
                }
                if was_leader && state.role == RaftState::Leader && aer_fail_current {
                    rec.count("leader-got-aer-fail-current-term");
                }
                if state.commit_index > old_commit {
                    if state.role == RaftState::Leader {
                        rec.count("commit-advanced-by-leader");
                        if state.log[old_commit..state.commit_index].iter().any(|e| e.term_received < state.term) {
                            rec.count("commit-advance-covers-older-term-entries");
                        }
                    } else {
                        rec.count("commit-advanced-by-follower");
                    }
                }
                if state.role == RaftState::Leader
                    && state.log.len() > state.commit_index
                    && state.log[state.commit_index..].iter().all(|e| e.term_received < state.term)
                    && was_leader
                {
                    rec.count("leader-holds-only-older-term-uncommitted-entries");
                }
                let com: Vec<_> = out.committed.iter().map(entry_tuple).collect();
                self.oracle.committed_out(rec, me, &com);
                let log: Vec<_> = state.log.iter().map(entry_tuple).collect();
                self.oracle.log_seen(rec, me, log);
                out.outbound.into_iter().map(|(to, m)| (to.get_raw_id(), me, m)).collect()
            }
        }
    }
}

fn clone_rpc(m: &Rpc) -> Rpc {
    m.clone()
}

/// one generated direct case
fn gen_direct(rec: &mut Recorder, case: u64, rng: &mut Rng, tier: &str) {
    let mut n = *rng.pick(&[3usize, 3, 3, 3, 5, 5, 4, 2, 1]);
    // schedule style
    let style = rng.below(6);
    if style == 5 {
        n = *rng.pick(&[5usize, 5, 4]);
    }
    let (p_del, p_dup, p_drop, p_el, p_hb, p_req) = match style {
        4 => (85, 3, 0, 2, 50, 45), // divergence: isolate the leader, let another one win, heal
        5 => (85, 2, 0, 3, 60, 25), // figure-8 prefix (previous-term entry on a majority), then calm
        0 => (80, 2, 1, 4, 45, 30),   // calm: elections settle, entries replicate and commit
        1 => (50, 15, 8, 12, 35, 30), // lossy, duplicating
        2 => (35, 10, 3, 25, 30, 30), // election storms
        _ => (65, 5, 3, 8, 40, 40),
    };
    let steps = if tier == "thorough" { rng.range(30, 160) } else { rng.range(20, 90) };
    rec.case(case, &format!("direct n={n} style={style}"));
    let mut d = Direct::new();
    let mut pool: Vec<(u32, u32, Rpc)> = vec![];
    let mut crashed: Vec<bool> = vec![false; n];
    let mut next_payload = 1u64;
    // optional partition: a set of members whose inbound traffic is held back for a while
    let mut isolated: Vec<bool> = vec![false; n];
    let mut committed_any = false;
    let mut leader_changes = 0;
    if style == 5 {
        // RAFT figure 8 / §5.4.2: an entry of an OLD term ends up replicated on a majority under a NEW
        // leader that has no entry of its own term yet; it must not commit by counting replicas.
        let all_others = |me: u32| -> Vec<MemberId<Replica>> { (0..n as u32).filter(|m| *m != me).map(mid).collect() };
        let mut run = |d: &mut Direct,
                       rec: &mut Recorder,
                       pool: &mut Vec<(u32, u32, Rpc)>,
                       me: u32,
                       el: bool,
                       hb: bool,
                       reqs: Vec<String>,
                       only_from: Option<u32>| {
            let mut batch = vec![];
            let mut keep = vec![];
            for (to, from, m) in pool.drain(..) {
                if to == me && only_from.map_or(true, |f| f == from) {
                    batch.push((mid(from), m));
                } else {
                    keep.push((to, from, m));
                }
            }
            *pool = keep;
            let out = d.step(
                rec,
                RaftStepInput {
                    me: mid(me),
                    other_members: all_others(me),
                    cluster_size: n,
                    election_timer_fired: el,
                    heartbeat_timer_fired: hb,
                    requests: reqs,
                    messages: batch,
                },
            );
            pool.extend(out);
        };
        let a = rng.below(n as u64) as u32; // first leader
        let b = (a + 1 + rng.below(n as u64 - 1) as u32) % n as u32; // the only member that gets the entry
        // a wins a term
        run(&mut d, rec, &mut pool, a, true, false, vec![], None);
        for m in 0..n as u32 {
            if m != a {
                run(&mut d, rec, &mut pool, m, false, false, vec![], None);
            }
        }
        run(&mut d, rec, &mut pool, a, false, false, vec![], None);
        // a appends 1-2 entries and replicates them to b only; then a crashes (fail-stop)
        let k = rng.range(1, 2);
        let reqs: Vec<String> = (0..k).map(|_| { let p = next_payload.to_string(); next_payload += 1; p }).collect();
        run(&mut d, rec, &mut pool, a, false, true, reqs, None);
        run(&mut d, rec, &mut pool, b, false, false, vec![], Some(a));
        pool.retain(|(to, from, _)| *to != a && *from != a);
        crashed[a as usize] = true;
        rec.count("fig8-prefix");
        // b campaigns (first interrupt may be consumed by heartbeat suppression) and wins with the old entry
        run(&mut d, rec, &mut pool, b, true, false, vec![], None);
        run(&mut d, rec, &mut pool, b, true, false, vec![], None);
        for m in 0..n as u32 {
            if m != a && m != b {
                run(&mut d, rec, &mut pool, m, false, false, vec![], None);
            }
        }
        run(&mut d, rec, &mut pool, b, false, false, vec![], None);
        // heartbeat rounds WITHOUT new requests: the old-term entry reaches a majority and is acknowledged
        for _ in 0..rng.range(2, 3) {
            run(&mut d, rec, &mut pool, b, false, true, vec![], None);
            for m in 0..n as u32 {
                if m != a && m != b {
                    run(&mut d, rec, &mut pool, m, false, false, vec![], None);
                }
            }
            run(&mut d, rec, &mut pool, b, false, false, vec![], None);
        }
    }
    for stepno in 0..steps {
        if d.dead {
            break;
        }
        if style == 4 && n >= 3 && stepno % 25 == 12 {
            // isolate whoever leads now (its appended entries stay unreplicated), then force elections
            for (m, st) in &d.states {
                if st.role == RaftState::Leader {
                    isolated[*m as usize] = true;
                }
            }
            rec.count("isolate-leader");
        }
        if style == 4 && stepno % 25 == 24 {
            for i in isolated.iter_mut() {
                *i = false;
            }
        }
        if rng.chance(3, 100) {
            // toggle isolation of a random member (messages stay in the pool: delayed, not lost)
            let m = rng.below(n as u64) as usize;
            isolated[m] = !isolated[m];
            rec.count("partition-toggle");
        }
        if rng.chance(1, 150) && crashed.iter().filter(|c| **c).count() < n / 2 {
            let m = rng.below(n as u64) as usize;
            crashed[m] = true; // fail-stop: never steps again
            rec.count("crash");
        }
        let alive: Vec<usize> = (0..n).filter(|m| !crashed[*m]).collect();
        let me = *rng.pick(&alive) as u32;
        // batch: messages addressed to me
        let mut batch = vec![];
        let mut keep = vec![];
        for (to, from, m) in pool.drain(..) {
            if to == me
                && !isolated[me as usize]
                && !isolated[from as usize]
                && rng.chance(p_del, 100)
                && batch.len() < 7
            {
                if rng.chance(p_dup, 100) {
                    keep.push((to, from, clone_rpc(&m))); // duplicate delivery later
                }
                batch.push((mid(from), m));
            } else if rng.chance(p_drop, 100) {
                // lost
            } else {
                keep.push((to, from, m));
            }
        }
        pool = keep;
        // shuffle the batch (arrival order is arbitrary; raft_step sorts it)
        for i in (1..batch.len()).rev() {
            let j = rng.below(i as u64 + 1) as usize;
            batch.swap(i, j);
        }
        let is_leader = d.states.get(&me).map(|s| s.role == RaftState::Leader).unwrap_or(false);
        let storm = style == 4 && (13..18).contains(&(stepno % 25)) && !isolated[me as usize];
        let el = rng.chance(if stepno < 3 || storm { 50 } else { p_el }, 100);
        let hb = rng.chance(if is_leader { p_hb + 30 } else { p_hb }, 100);
        let mut requests = vec![];
        if rng.chance(if is_leader { p_req + 20 } else { p_req / 3 }, 100) {
            for _ in 0..rng.range(1, 2) {
                requests.push(next_payload.to_string());
                next_payload += 1;
            }
        }
        let others: Vec<_> = (0..n as u32).filter(|m| *m != me).map(mid).collect();
        let before_leaders = d.oracle.leaders.len();
        let out = d.step(
            rec,
            RaftStepInput {
                me: mid(me),
                other_members: others,
                cluster_size: n,
                election_timer_fired: el,
                heartbeat_timer_fired: hb,
                requests,
                messages: batch,
            },
        );
        if d.oracle.leaders.len() > before_leaders {
            leader_changes += 1;
        }
        if d.oracle.committed.values().any(|h| !h.is_empty()) {
            committed_any = true;
        }
        pool.extend(out);
        if pool.len() > 400 {
            // bound the pool: drop the oldest (loss)
            pool.drain(..100);
        }
    }
    if committed_any && leader_changes >= 1 {
        rec.nontrivial();
    }
    if leader_changes >= 2 {
        rec.count("cases-with-2+-leaderships");
    }
    if committed_any {
        rec.count("cases-with-commit");
    }
    let maxc = d.oracle.committed.values().map(|h| h.len()).max().unwrap_or(0);
    rec.count(&format!("max-committed-{}", maxc.min(8)));
}

/// replay op lines (corpus / shrinking / replay of a logged sim trace) on the real `raft_step`
fn replay(rec: &mut Recorder, lines: &[String]) {
    let mut d = Direct::new();
    let mut case_no = 0;
    for l in lines {
        if let Some(rest) = l.strip_prefix("#case") {
            let mut it = rest.trim().splitn(2, ' ');
            case_no = it.next().and_then(|x| x.parse().ok()).unwrap_or(case_no + 1);
            rec.case(case_no, it.next().unwrap_or(""));
            d = Direct::new();
        } else if l.starts_with("paxos ") {
            rec.line(l, &paxos_answer(l));
        } else {
            match parse_step(l) {
                Some(input) => {
                    d.step(rec, input);
                }
                None => rec.line(l, "bad-op"),
            }
        }
    }
}

// ---------------------------------------------------------------------------------- paxos table

/// What the harness itself reads from the Rust source of paxos.rs (independent of the python
/// translator): the operators of the decision closures, rendered like the driver's `paxos rules`.
fn paxos_answer(line: &str) -> String {
    if line.trim() != "paxos rules" {
        return "bad-op".into();
    }
    let src = std::fs::read_to_string("/repo/hydro_test/src/cluster/paxos.rs").unwrap_or_default();
    let norm: String = src.split_whitespace().collect::<Vec<_>>().join(" ");
    let find_op = |pre: &str, post: &str| -> String {
        for op in ["==", ">=", "<=", "!=", ">", "<"] {
            if norm.contains(&format!("{pre} {op} {post}")) {
                return op.to_string();
            }
        }
        "?".into()
    };
    let p1b = find_op("if Some(ballot)", "max_ballot { Ok(log) }");
    let p2alog = find_op("if Some(&p2a.ballot)", "max_ballot.as_ref()");
    let repl = find_op("if entry.ballot", "prev_entry.ballot");
    let p2b = find_op("if Some(p2a.ballot)", "max_ballot { Ok(()) }");
    let higher = find_op("let higher_ballot = new_entry.ballot", "curr_entry_payload.ballot;");
    let skip = find_op("if count", "f { return None; }");
    let num_first = norm.contains("self.num .cmp(&other.num) .then_with(|| self.proposer_id.cmp(&other.proposer_id))");
    let q1 = if norm.contains("&acceptor_tick, f + 1, 2 * f + 1, config,") { "2/3" } else { "?" };
    let q2 = if norm.contains("collect_quorum(a_to_proposers_p2b, f + 1, 2 * f + 1)") { "2/3" } else { "?" };
    format!(
        "p1bOk{p1b} p2aLog{p2alog} logReplace{repl} p2bOk{p2b} recommitHigher{higher} recommitSkip{skip} numFirst={} q1={q1} q2={q2}",
        u8::from(num_first)
    )
}

// ---------------------------------------------------------------------------------- main

fn main() {
    let a = Args::parse();
    if a.mode == "c40-simchild" {
        simrun::child(&a);
        return;
    }
    if a.mode == "c40-slots" {
        simrun::slots_child();
        return;
    }
    if a.mode != "c40" {
        eprintln!("unknown mode {}", a.mode);
        std::process::exit(2);
    }
    quiet_panics();
    let mut rec = Recorder::new(
        "non-trivial = a case in which at least one leader was elected AND at least one entry was committed",
    );
    if let Some(f) = &a.replay {
        let lines = read_lines(f);
        replay(&mut rec, &lines);
        rec.finish(&a.out);
        return;
    }
    let base = Rng::new(a.seed);
    // paxos rule table
    rec.case(0, "paxos-table");
    rec.line("paxos rules", &paxos_answer("paxos rules"));
    // direct cases
    for i in 1..=a.cases {
        let mut rng = base.fork(i);
        gen_direct(&mut rec, i, &mut rng, &a.tier);
    }
    // simulator cases (real Hydro program)
    // `--sim N` / env HV_C40_SIM=N override the number of simulator iterations (0 = skip the simulator part)
    let sim_iters: u64 = a
        .extra
        .get("sim")
        .and_then(|v| v.parse().ok())
        .or_else(|| std::env::var("HV_C40_SIM").ok().and_then(|v| v.parse().ok()))
        .unwrap_or(if a.tier == "thorough" { 300 } else { 24 });
    if sim_iters > 0 {
        simrun::parent(&mut rec, &a, sim_iters, a.cases + 1);
    }
    rec.finish(&a.out);
}
