//! Simulator part of the C40 harness.
//!
//! `child`: builds the real Hydro program `hydro_test::cluster::raft::raft(..)` (3 members,
//! `TCP.fail_stop()` channels), compiles it with the production simulator backend
//! (`flow.sim().compiled()` — a cargo build of a dylib, offline), and runs one simulation instance
//! per iteration with scheduling decisions drawn from a byte tape derived from the seed
//! (`CompiledSim::fuzz_repro`, deterministic). With `HV_RAFT_TRACE` set the cfg-guarded hook in
//! `raft_step` prints one `HVRAFT` line per protocol step; the child adds `HVITER` / `HVOUT` /
//! `HVEND` lines. `parent`: spawns the child, turns each iteration into a case.

use std::collections::BTreeMap;
use std::io::Write;
use std::process::{Command, Stdio};

use hv_common::{Args, Recorder, Rng};
use hydro_lang::prelude::*;
use hydro_test::cluster::raft::{LogEntry, RaftConfig, Replica, raft};

use crate::Oracle;

const N: usize = 3;

pub fn child(a: &Args) {
    let mut flow = FlowBuilder::new();
    let cluster = flow.cluster::<Replica>();
    let (election_send, election_timer_interrupts) = cluster.sim_input();
    let (heartbeat_send, heartbeat_timer_interrupts) = cluster.sim_input();
    let (request_send, requests) = cluster.sim_input::<String, _, _>();
    let (committed, redirected) = raft(
        requests,
        election_timer_interrupts,
        heartbeat_timer_interrupts,
        RaftConfig { cluster_size: N },
        || TCP.fail_stop().bincode(),
        nondet!(/** harness: the committed sequence must not depend on the schedule */),
    );
    let committed_recv = committed.end_atomic().sim_cluster_output();
    let redirected_recv = redirected.sim_cluster_output();

    let compiled = flow.sim().skip_consistency_assertions().with_cluster_size(&cluster, N).compiled();
    println!("HVREADY");
    let base = Rng::new(a.seed ^ 0x51D_C40);
    for it in 0..a.cases {
        let mut rng = base.fork(it);
        // decision tape for the simulator's scheduler
        let mut bytes = Vec::with_capacity(1 << 16);
        // bias: some tapes are "low entropy" (long runs of the same small byte) to get settled runs
        let flavour = rng.below(3);
        for _ in 0..(1 << 16) {
            let b = match flavour {
                0 => rng.next_u64() as u8,
                1 => (rng.next_u64() % 4) as u8,
                _ => {
                    if rng.chance(1, 8) {
                        rng.next_u64() as u8
                    } else {
                        0
                    }
                }
            };
            bytes.push(b);
        }
        // the scenario (inputs) of this iteration
        let phases = rng.range(1, 3);
        let mut script: Vec<Vec<(u8, u32, u64)>> = vec![]; // (kind 0=el 1=hb 2=req, member, payload)
        let mut payload = 1u64;
        for ph in 0..phases {
            let mut sends = vec![];
            let k = rng.range(4, 14);
            for i in 0..k {
                let member = rng.below(N as u64) as u32;
                let kind = if ph == 0 && i == 0 { 0 } else { *rng.pick(&[0u8, 1, 1, 1, 2, 2]) };
                if kind == 1 {
                    // a heartbeat round: every member's heartbeat timer (only a leader reacts)
                    for m in 0..N as u32 {
                        sends.push((1, m, 0));
                    }
                } else if kind == 2 {
                    sends.push((2, member, payload));
                    payload += 1;
                } else {
                    sends.push((0, member, 0));
                }
            }
            script.push(sends);
        }
        println!("HVITER {it}");
        std::io::stdout().flush().unwrap();
        let script_ref = &script;
        let res = std::panic::catch_unwind(std::panic::AssertUnwindSafe(|| {
            compiled.fuzz_repro(bytes, async |instance| {
                instance
                    .run_with_scheduler_and_logger(std::io::sink(), async {
                        let mut committed: Vec<Vec<LogEntry<String>>> = vec![Vec::new(); N];
                        for (pi, sends) in script_ref.iter().enumerate() {
                            for (kind, member, payload) in sends {
                                match kind {
                                    0 => election_send.send(*member, ()),
                                    1 => heartbeat_send.send(*member, ()),
                                    _ => request_send.send(*member, payload.to_string()),
                                }
                            }
                            if pi + 1 < script_ref.len() {
                                hydro_lang::sim::quiesce().await;
                            }
                        }
                        for member in 0..N as u32 {
                            committed[member as usize].extend(committed_recv.collect::<Vec<_>>(member).await);
                            let _: Vec<(String, Option<hydro_lang::location::MemberId<Replica>>)> =
                                redirected_recv.collect(member).await;
                        }
                        for (member, h) in committed.iter().enumerate() {
                            let s: Vec<String> =
                                h.iter().map(|e| format!("{}.{}.{}", e.index, e.term_received, e.message)).collect();
                            println!("HVOUT {member} {}", if s.is_empty() { "-".to_owned() } else { s.join(",") });
                        }
                    })
                    .await
            });
        }));
        match res {
            Ok(()) => println!("HVEND {it} ok"),
            Err(e) => {
                let msg = if let Some(s) = e.downcast_ref::<&str>() {
                    s.to_string()
                } else if let Some(s) = e.downcast_ref::<String>() {
                    s.clone()
                } else {
                    "panic".to_string()
                };
                println!("HVEND {it} panic {}", msg.replace('\n', " "));
            }
        }
        std::io::stdout().flush().unwrap();
    }
    println!("HVDONE");
}

/// Experiment / finding probe: `index_payloads` (paxos.rs) when `p_max_slot` is present in EVERY tick
/// (as it is in `paxos_core` while a proposer stays leader after recovering a non-empty log), with
/// payloads arriving in several ticks. Prints the (slot, payload) pairs of every explored execution.
pub fn slots_child() {
    let mut flow = FlowBuilder::new();
    let node = flow.process::<()>();
    let tick = node.tick();
    let (in_send, input_payloads) = node.sim_input();
    let persistent_max = tick.singleton(q!(Some(123usize))).into_optional();
    let indexed = hydro_test::cluster::paxos::index_payloads(
        persistent_max,
        input_payloads.batch(&tick, nondet!(/** probe */)),
    );
    let out_recv = indexed.all_ticks().sim_output();
    let n = flow.sim().exhaustive(async || {
        in_send.send(1u32);
        in_send.send(2u32);
        in_send.send(3u32);
        let got: Vec<(usize, u32)> = out_recv.collect().await;
        println!("HVSLOTS {:?}", got);
    });
    println!("HVSLOTS-DONE {n}");
}

pub fn parent(rec: &mut Recorder, a: &Args, iters: u64, first_case: u64) {
    let exe = std::env::current_exe().expect("current_exe");
    // <target>/release/hv_proto -> <target>
    let target_dir = exe.parent().and_then(|p| p.parent()).expect("target dir").to_path_buf();
    let manifest_dir = env!("CARGO_MANIFEST_DIR");
    // the simulator's nested cargo build must use the SAME toolchain as this binary (the dylib and this
    // process exchange Rust types), and the dylib links libstd dynamically
    let toolchain = option_env!("RUSTUP_TOOLCHAIN").unwrap_or("1.96.0");
    let libdir = Command::new("rustc")
        .args(["--print", "target-libdir"])
        .env("RUSTUP_TOOLCHAIN", toolchain)
        .output()
        .ok()
        .map(|o| String::from_utf8_lossy(&o.stdout).trim().to_owned())
        .unwrap_or_default();
    let ld = format!(
        "{}:{}:{}:{}",
        libdir,
        target_dir.join("debug").display(),
        target_dir.join("debug/deps").display(),
        std::env::var("LD_LIBRARY_PATH").unwrap_or_default()
    );
    let out = Command::new(&exe)
        .args(["c40-simchild", "--seed", &a.seed.to_string(), "--cases", &iters.to_string()])
        .current_dir(manifest_dir)
        .env("CARGO_MANIFEST_DIR", manifest_dir)
        .env("CARGO_TARGET_DIR", &target_dir)
        .env("RUSTFLAGS", "--cfg hydro_project_hydro_verif")
        .env("CARGO_NET_OFFLINE", "true")
        .env("HV_RAFT_TRACE", "1")
        .env("RUSTUP_TOOLCHAIN", toolchain)
        .env("LD_LIBRARY_PATH", ld)
        .env_remove("BOLERO_FUZZER")
        .stdin(Stdio::null())
        .stderr(Stdio::piped())
        .stdout(Stdio::piped())
        .output()
        .expect("spawn sim child");
    let stdout = String::from_utf8_lossy(&out.stdout).to_string();
    let stderr = String::from_utf8_lossy(&out.stderr).to_string();
    let _ = std::fs::create_dir_all(&a.out);
    let _ = std::fs::write(a.out.join("sim_stdout.txt"), &stdout);
    let _ = std::fs::write(a.out.join("sim_stderr.txt"), &stderr);
    if !stdout.contains("HVREADY") {
        // the simulator backend could not be built: this breaks the tie, report it as such
        rec.case(first_case, "sim build");
        rec.line("sim-build", &format!("failed: {}", stderr.lines().rev().take(3).collect::<Vec<_>>().join(" | ")));
        return;
    }
    let mut case = first_case;
    let mut oracle = Oracle::default();
    let mut seen_out: BTreeMap<u32, String> = BTreeMap::new();
    let mut in_iter = false;
    let mut steps_in_iter = 0u64;
    let mut finished = 0u64;
    for l in stdout.lines() {
        if let Some(_it) = l.strip_prefix("HVITER ") {
            rec.case(case, &format!("sim n={N}"));
            case += 1;
            oracle = Oracle::default();
            seen_out.clear();
            in_iter = true;
            steps_in_iter = 0;
        } else if let Some(rest) = l.strip_prefix("HVRAFT ") {
            if !in_iter {
                continue;
            }
            let Some((inp, outp)) = rest.split_once(" => ") else { continue };
            rec.line(inp, &format!("ok {outp} net=ok"));
            steps_in_iter += 1;
            // oracle on the real outputs
            let me: u32 = inp.split(' ').nth(1).and_then(|x| x.parse().ok()).unwrap_or(0);
            let field = |name: &str| -> String {
                outp.split(' ').find_map(|f| f.strip_prefix(name).map(|x| x.to_owned())).unwrap_or_default()
            };
            let parse_entries = |s: &str| -> Vec<(usize, usize, String)> {
                if s == "-" || s.is_empty() {
                    return vec![];
                }
                s.split(',')
                    .filter_map(|e| {
                        let p: Vec<&str> = e.split('.').collect();
                        Some((p.first()?.parse().ok()?, p.get(1)?.parse().ok()?, p.get(2)?.to_string()))
                    })
                    .collect()
            };
            let com = parse_entries(&field("com="));
            if !com.is_empty() {
                rec.count("sim-committed-some");
            }
            oracle.committed_out(rec, me, &com);
            let st = field("st=");
            let sf: Vec<&str> = st.split('/').collect();
            if sf.len() >= 8 {
                if sf[1] == "L" {
                    oracle.leader_seen(rec, me, sf[0].parse().unwrap_or(0));
                }
                oracle.log_seen(rec, me, parse_entries(sf[7]));
            }
        } else if let Some(rest) = l.strip_prefix("HVOUT ") {
            if let Some((m, es)) = rest.split_once(' ') {
                seen_out.insert(m.parse().unwrap_or(0), es.to_owned());
            }
        } else if let Some(rest) = l.strip_prefix("HVEND ") {
            in_iter = false;
            finished += 1;
            let ok = rest.split(' ').nth(1) == Some("ok");
            if !ok {
                // a panic inside the simulated program (raft_step's protocol-violation asserts) or an
                // exhausted decision tape; only the former is a property failure
                let benign = rest.contains("ran out of entropy") || rest.contains("assumption failed");
                rec.check(benign, "raft-sim-panic", rest);
                rec.count("sim-iteration-aborted");
            } else {
                // the externally observed committed streams are exactly what the steps emitted
                for m in 0..N as u32 {
                    let from_steps: Vec<String> = oracle
                        .committed
                        .get(&m)
                        .map(|h| h.iter().map(|e| format!("{}.{}.{}", e.0, e.1, e.2)).collect())
                        .unwrap_or_default();
                    let s = if from_steps.is_empty() { "-".to_owned() } else { from_steps.join(",") };
                    let seen = seen_out.get(&m).cloned().unwrap_or_else(|| "?".into());
                    rec.check(s == seen, "raft-sim-output-mismatch", &format!("member {m}: steps emitted {s}, stream delivered {seen}"));
                }
                if oracle.committed.values().any(|h| !h.is_empty()) && !oracle.leaders.is_empty() {
                    rec.nontrivial();
                }
            }
            rec.count(&format!("sim-steps-{}", (steps_in_iter / 10 * 10).min(100)));
        }
    }
    if finished < iters || !stdout.contains("HVDONE") {
        rec.case(case, "sim incomplete");
        rec.line(
            "sim-complete",
            &format!("failed: {finished}/{iters} iterations, status {:?}: {}", out.status.code(), stderr.lines().rev().take(3).collect::<Vec<_>>().join(" | ")),
        );
    } else {
        rec.case(case, "sim complete");
        rec.line("sim-complete", "ok");
    }
}
