//! Library half of the C40 harness crate. The simulator compiles the Hydro program into a
//! dylib that depends on *this* crate (the crate whose manifest is in `CARGO_MANIFEST_DIR`), so it
//! must exist as a lib and be set up for stageleft like any Hydro crate.
#[cfg(stageleft_runtime)]
hydro_lang::setup!();
