//! hv_sim — harness for C36/C37/C38: drives the real simulator hooks
//! (`hydro_lang::sim::runtime`) and the scheduler's `run_hooks` / `can_run`
//! (`hydro_lang::sim::compiled`, via the cfg-guarded `verif_hooks`) with a scripted bolero driver.
//!
//! Line protocol (one answer per line; lists `1,2,3`, `-` = empty; keyed maps `k:1.2;k2:-` in the
//! hash map's *observed iteration order*):
//!   new <kind> [q=..] [q2=..] [m=..] [m2=..]     -> ok
//!   push <i> q=.. | push2 <i> q=..                -> ok          (push_back on the input queue)
//!   set <i> m=..  | set2 <i> m=..                 -> ok          (replace the keyed input; observed order)
//!   state <i>                                     -> q=.. [q2=..] | m=.. [m2=..]  then  cur=<..>
//!   cur|can|ready|obscan <i>                      -> some(true)|some(false)|none / true|false
//!   auto <i> <force 0|1> <tape>                   -> nt=<bool> calls=<log> | panic
//!   rel <i>                                       -> out=<msgs> | panic
//!   canrun                                        -> true|false
//!   run <tape>                                    -> outs=<msgs>|<msgs>.. calls=<log> | panic
//!   inline <kind> <tape> a=.. [b=..] [go=..] [oo=..]  -> out=<batch> calls=<log> | panic   (in-tick order hooks)
//!   enum <kind> <force> [q=..] [q2=..] [m=..] [m2=..]  -> n=<executions> set=<sorted outcomes>   (C37)
//!   enumrun                                       -> n=<executions> set=<sorted decision vectors>   (C37: the real
//!                                                    run_hooks on copies of the current tick under bolero's exhaustive driver)
//!   xrun <tape>                                   -> vec=<decision vector> calls=<log> ev=<hook calls> | panic
//!                                                    (run_hooks on a copy of the current tick; the state is left as it is)
//! `run` also answers `ev=<hook calls>`: `a<i>:<force>:<nt>` = hooks[i].autonomous_decision(force) returned nt,
//! `r<i>` = hooks[i].release_decision, in call order (observed through a recording SimHook wrapper).
mod drv;
mod hooks;

use std::collections::BTreeMap;
use std::panic::AssertUnwindSafe;

use bolero::generator::bolero_generator::any::scope;
use bolero::generator::bolero_generator::driver::exhaustive;
use bolero::generator::bolero_generator::driver::object::{Borrowed, Object};
use hooks::*;
use hv_common::{Args, Recorder, Rng, catch, quiet_panics, read_lines};
use hydro_lang::sim::compiled::verif_hooks;
use hydro_lang::sim::runtime::SimHook;

// ---------------------------------------------------------------- formatting / parsing

fn fmt_list(v: &[V]) -> String {
    if v.is_empty() { "-".into() } else { v.iter().map(|x| x.to_string()).collect::<Vec<_>>().join(",") }
}
fn fmt_map(m: &KMapData) -> String {
    if m.is_empty() {
        return "-".into();
    }
    m.iter()
        .map(|(k, vs)| {
            format!("{k}:{}", if vs.is_empty() { "-".into() } else { vs.iter().map(|x| x.to_string()).collect::<Vec<_>>().join(".") })
        })
        .collect::<Vec<_>>()
        .join(";")
}
fn fmt_msgs(ms: &[Msg]) -> String {
    if ms.is_empty() {
        return "-".into();
    }
    ms.iter()
        .map(|m| match m {
            Msg::Item(v) => format!("{v}"),
            Msg::Kv(k, v) => format!("{k}:{v}"),
            Msg::Batch(b) => format!("[{}]", b.iter().map(|x| x.to_string()).collect::<Vec<_>>().join(".")),
        })
        .collect::<Vec<_>>()
        .join(",")
}
fn fmt_tape(t: &[u64]) -> String {
    if t.is_empty() { "-".into() } else { t.iter().map(|x| x.to_string()).collect::<Vec<_>>().join(",") }
}
fn fmt_optb(b: Option<bool>) -> String {
    match b {
        Some(true) => "some(true)".into(),
        Some(false) => "some(false)".into(),
        None => "none".into(),
    }
}
fn parse_list<T: std::str::FromStr>(s: &str, sep: char) -> Option<Vec<T>> {
    if s == "-" {
        return Some(vec![]);
    }
    s.split(sep).map(|p| p.parse::<T>().ok()).collect()
}
fn parse_map(s: &str) -> Option<KMapData> {
    if s == "-" {
        return Some(vec![]);
    }
    let mut out = vec![];
    for e in s.split(';') {
        let (k, vs) = e.split_once(':')?;
        out.push((k.parse().ok()?, parse_list::<V>(vs, '.')?));
    }
    Some(out)
}

// ---------------------------------------------------------------- operations

#[derive(Clone, Debug)]
enum Op {
    New { kind: Kind, q: Vec<V>, q2: Vec<V>, m: KMapData, m2: KMapData },
    Push { i: usize, second: bool, items: Vec<V> },
    Set { i: usize, second: bool, entries: KMapData },
    State(usize),
    Cur(usize),
    Can(usize),
    Ready(usize),
    ObsCan(usize),
    Auto { i: usize, force: bool, tape: Vec<u64> },
    Rel(usize),
    CanRun,
    Run { tape: Vec<u64> },
    Inline { kind: InlineKind, tape: Vec<u64>, a: Vec<V>, b: Vec<V>, ap: Vec<(K, V)>, bp: Vec<(K, V)> },
    Enum { kind: Kind, force: bool, q: Vec<V>, q2: Vec<V>, m: KMapData, m2: KMapData },
    EnumRun,
    XRun { tape: Vec<u64> },
    Bad(String),
}

fn kv_args(ws: &[&str]) -> Option<(Vec<V>, Vec<V>, KMapData, KMapData)> {
    let (mut q, mut q2, mut m, mut m2) = (vec![], vec![], vec![], vec![]);
    for w in ws {
        let (k, v) = w.split_once('=')?;
        match k {
            "q" => q = parse_list(v, ',')?,
            "q2" => q2 = parse_list(v, ',')?,
            "m" => m = parse_map(v)?,
            "m2" => m2 = parse_map(v)?,
            _ => return None,
        }
    }
    Some((q, q2, m, m2))
}

fn parse_pairs(s: &str) -> Option<Vec<(K, V)>> {
    if s == "-" {
        return Some(vec![]);
    }
    s.split(',').map(|e| e.split_once(':').and_then(|(k, v)| Some((k.parse().ok()?, v.parse().ok()?)))).collect()
}
fn fmt_pairs(v: &[(K, V)]) -> String {
    if v.is_empty() { "-".into() } else { v.iter().map(|(k, x)| format!("{k}:{x}")).collect::<Vec<_>>().join(",") }
}
fn parse_inline(kind: &str, tape: &str, rest: &[&str]) -> Option<Op> {
    let kind = InlineKind::parse(kind)?;
    let tape = parse_list::<u64>(tape, ',')?;
    let (mut a, mut b, mut ap, mut bp) = (vec![], vec![], vec![], vec![]);
    for w in rest {
        let (k, v) = w.split_once('=')?;
        match (k, kind.keyed()) {
            ("a", false) => a = parse_list(v, ',')?,
            ("b", false) => b = parse_list(v, ',')?,
            ("a", true) => ap = parse_pairs(v)?,
            ("b", true) => bp = parse_pairs(v)?,
            ("go" | "oo", true) => {
                parse_list::<K>(v, ',')?;
            }
            _ => return None,
        }
    }
    Some(Op::Inline { kind, tape, a, b, ap, bp })
}

fn parse_op(line: &str) -> Op {
    let ws: Vec<&str> = line.split(' ').collect();
    let bad = || Op::Bad(line.to_string());
    let idx = |s: &str| s.parse::<usize>().ok();
    match ws.as_slice() {
        ["new", kind, rest @ ..] => match (Kind::parse(kind), kv_args(rest)) {
            (Some(kind), Some((q, q2, m, m2))) => Op::New { kind, q, q2, m, m2 },
            _ => bad(),
        },
        ["push", i, a] | ["push2", i, a] => match (idx(i), a.strip_prefix("q=").and_then(|v| parse_list(v, ','))) {
            (Some(i), Some(items)) => Op::Push { i, second: ws[0] == "push2", items },
            _ => bad(),
        },
        ["set", i, a] | ["set2", i, a] => match (idx(i), a.strip_prefix("m=").and_then(parse_map)) {
            (Some(i), Some(entries)) => Op::Set { i, second: ws[0] == "set2", entries },
            _ => bad(),
        },
        ["state", i] => idx(i).map(Op::State).unwrap_or_else(bad),
        ["cur", i] => idx(i).map(Op::Cur).unwrap_or_else(bad),
        ["can", i] => idx(i).map(Op::Can).unwrap_or_else(bad),
        ["ready", i] => idx(i).map(Op::Ready).unwrap_or_else(bad),
        ["obscan", i] => idx(i).map(Op::ObsCan).unwrap_or_else(bad),
        ["auto", i, f, t] => match (idx(i), *f, parse_list::<u64>(t, ',')) {
            (Some(i), "0" | "1", Some(tape)) => Op::Auto { i, force: *f == "1", tape },
            _ => bad(),
        },
        ["rel", i] => idx(i).map(Op::Rel).unwrap_or_else(bad),
        ["canrun"] => Op::CanRun,
        ["inline", kind, tape, rest @ ..] => parse_inline(kind, tape, rest).unwrap_or_else(bad),
        ["run", t] => parse_list::<u64>(t, ',').map(|tape| Op::Run { tape }).unwrap_or_else(bad),
        ["xrun", t] => parse_list::<u64>(t, ',').map(|tape| Op::XRun { tape }).unwrap_or_else(bad),
        ["enumrun"] => Op::EnumRun,
        ["enum", kind, f, rest @ ..] => match (Kind::parse(kind), *f, kv_args(rest)) {
            (Some(kind), "0" | "1", Some((q, q2, m, m2))) => Op::Enum { kind, force: *f == "1", q, q2, m, m2 },
            _ => bad(),
        },
        _ => bad(),
    }
}

// ---------------------------------------------------------------- case state + oracle

#[derive(Clone, Debug, Default, PartialEq)]
struct Snap {
    q: Vec<V>,
    q2: Vec<V>,
    m: KMapData,
    m2: KMapData,
}

struct Slot {
    h: Handle,
    /// inputs as they were right before the pending decision was taken
    pre: Option<Snap>,
    /// oracle's own record of the last released snapshot (singleton) / per key (keyed singleton)
    last: Option<V>,
    last_k: BTreeMap<K, V>,
}

struct Case {
    /// the real hooks, each behind a recording [`Spy`]
    hooks: Vec<Box<dyn SimHook>>,
    slots: Vec<Slot>,
    dead: bool,
    dfir: Option<dfir_rs::scheduled::context::DfirErased>,
    /// calls made on the hooks (cleared before every `run_hooks`)
    ev: EvLog,
    /// the state-changing ops performed so far: replaying them on fresh hooks rebuilds this tick
    setup: Vec<Op>,
    /// the choice tapes of the executions of the last `enumrun`
    tapes: Vec<Vec<u64>>,
}

fn snap(h: &Handle) -> Snap {
    Snap {
        q: h.q.as_ref().map(observe_q).unwrap_or_default(),
        q2: h.q2.as_ref().map(observe_q).unwrap_or_default(),
        m: h.m.as_ref().map(observe_map).unwrap_or_default(),
        m2: h.m2.as_ref().map(observe_map).unwrap_or_default(),
    }
}

fn is_subseq(a: &[V], b: &[V]) -> bool {
    let mut it = b.iter();
    a.iter().all(|x| it.any(|y| y == x))
}
fn sorted(mut v: Vec<V>) -> Vec<V> {
    v.sort();
    v
}
fn by_key(ms: &[Msg]) -> BTreeMap<K, Vec<V>> {
    let mut r: BTreeMap<K, Vec<V>> = BTreeMap::new();
    for m in ms {
        if let Msg::Kv(k, v) = m {
            r.entry(*k).or_default().push(*v);
        }
    }
    r
}
fn items_of(ms: &[Msg]) -> Vec<V> {
    ms.iter().filter_map(|m| if let Msg::Item(v) = m { Some(*v) } else { None }).collect()
}
fn map_of(m: &KMapData) -> BTreeMap<K, Vec<V>> {
    m.iter().cloned().collect()
}

/// The property itself (C36) evaluated on what the real hook did: `pre` = pending items when the
/// decision was taken, `out` = what arrived on the output channel, `post` = what is still pending.
/// Returns whether the release was non-trivial (new item / new snapshot).
fn oracle_release(rec: &mut Recorder, slot: &mut Slot, pre: &Snap, out: &[Msg], post: &Snap) -> bool {
    let kind = slot.h.kind;
    let site = kind.site();
    let mut chk = |ok: bool, what: &str, detail: String| rec.check(ok, &format!("{what}@{site}"), &detail);
    let d = || format!("pre={pre:?} out={out:?} post={post:?}");
    match kind {
        Kind::StreamTotal => {
            let r = items_of(out);
            let n = r.len();
            chk(n <= pre.q.len() && pre.q[..n] == r[..] && r.len() == out.len(), "released-not-prefix", d());
            chk(n <= pre.q.len() && pre.q[n..] == post.q[..], "lost-or-duplicated", d());
            n > 0
        }
        Kind::StreamNo | Kind::TlOrder => {
            let r = items_of(out);
            chk(is_subseq(&r, &pre.q) && r.len() == out.len(), "released-not-subset", d());
            chk(is_subseq(&post.q, &pre.q), "remaining-reordered", d());
            chk(sorted([r.clone(), post.q.clone()].concat()) == sorted(pre.q.clone()), "lost-or-duplicated", d());
            if kind == Kind::TlOrder {
                chk(r.len() <= 1, "released-more-than-one", d());
            }
            if kind == Kind::StreamNo {
                rec.count(if r.is_empty() {
                    "branch:streamNo:nothing"
                } else if r.last() == pre.q.last() {
                    "branch:streamNo:ended-at-last-index(min_index==len)"
                } else if r.len() > 1 && !pre.q.starts_with(&r) {
                    "branch:streamNo:gapped-subset"
                } else {
                    "branch:streamNo:stopped-by-draw"
                });
            }
            !r.is_empty()
        }
        Kind::TlFold => {
            let b: Vec<V> = match out {
                [Msg::Batch(b)] => b.clone(),
                _ => {
                    chk(false, "not-one-batch", d());
                    vec![]
                }
            };
            chk(is_subseq(&post.q, &pre.q), "remaining-reordered", d());
            chk(sorted([b.clone(), post.q.clone()].concat()) == sorted(pre.q.clone()), "lost-or-duplicated", d());
            !b.is_empty()
        }
        Kind::KeyedTotal | Kind::TlPartial => {
            let r = by_key(out);
            let (prem, postm) = (map_of(&pre.m), map_of(&post.m));
            chk(r.values().map(|v| v.len()).sum::<usize>() == out.len(), "not-keyed", d());
            chk(prem.keys().eq(postm.keys()) && r.keys().all(|k| prem.contains_key(k)), "keys-changed", d());
            for (k, pq) in &prem {
                let rk = r.get(k).cloned().unwrap_or_default();
                let n = rk.len();
                chk(n <= pq.len() && pq[..n] == rk[..], "released-not-prefix", d());
                chk(n <= pq.len() && postm.get(k).map(|p| p[..] == pq[n..]).unwrap_or(false), "lost-or-duplicated", d());
            }
            if kind == Kind::TlPartial {
                chk(out.len() <= 1, "released-more-than-one", d());
            }
            !out.is_empty()
        }
        Kind::KeyedNo | Kind::TlKeyedOrder => {
            let r = by_key(out);
            let (prem, postm) = (map_of(&pre.m), map_of(&post.m));
            chk(r.values().map(|v| v.len()).sum::<usize>() == out.len(), "not-keyed", d());
            chk(prem.keys().eq(postm.keys()) && r.keys().all(|k| prem.contains_key(k)), "keys-changed", d());
            for (k, pq) in &prem {
                let rk = r.get(k).cloned().unwrap_or_default();
                let po = postm.get(k).cloned().unwrap_or_default();
                chk(is_subseq(&rk, pq), "released-not-subset", d());
                chk(is_subseq(&po, pq), "remaining-reordered", d());
                chk(sorted([rk, po].concat()) == sorted(pq.clone()), "lost-or-duplicated", d());
            }
            if kind == Kind::TlKeyedOrder {
                chk(out.len() <= 1, "released-more-than-one", d());
            }
            !out.is_empty()
        }
        Kind::TlMerge => {
            let r = items_of(out);
            let (n1, n2) = (pre.q.len() - post.q.len().min(pre.q.len()), pre.q2.len() - post.q2.len().min(pre.q2.len()));
            chk(r.len() <= 1 && r.len() == out.len(), "released-more-than-one", d());
            chk(pre.q[n1..] == post.q[..] && pre.q2[n2..] == post.q2[..], "lost-or-duplicated", d());
            let taken = [pre.q[..n1].to_vec(), pre.q2[..n2].to_vec()].concat();
            chk(sorted(taken) == sorted(r.clone()), "released-not-prefix", d());
            !r.is_empty()
        }
        Kind::TlKeyedMerge => {
            let r = by_key(out);
            chk(out.len() <= 1 && r.values().map(|v| v.len()).sum::<usize>() == out.len(), "released-more-than-one", d());
            let mut taken: Vec<(K, V)> = vec![];
            for (prem, postm) in [(map_of(&pre.m), map_of(&post.m)), (map_of(&pre.m2), map_of(&post.m2))] {
                chk(prem.keys().eq(postm.keys()), "keys-changed", d());
                for (k, pq) in &prem {
                    let po = postm.get(k).cloned().unwrap_or_default();
                    let n = pq.len() - po.len().min(pq.len());
                    chk(pq[n..] == po[..], "lost-or-duplicated", d());
                    taken.extend(pq[..n].iter().map(|v| (*k, *v)));
                }
            }
            let mut rel: Vec<(K, V)> = r.iter().flat_map(|(k, vs)| vs.iter().map(|v| (*k, *v))).collect();
            rel.sort();
            taken.sort();
            chk(rel == taken, "released-not-prefix", d());
            !out.is_empty()
        }
        Kind::Singleton => {
            // values in a singleton's buffer are pushed in strictly increasing order: value = version
            let r = items_of(out);
            if r.len() != 1 || out.len() != 1 {
                chk(false, "not-one-snapshot", d());
                return false;
            }
            let x = r[0];
            let new = match slot.last {
                Some(l) => {
                    chk(x >= l, "snapshot-regressed", format!("last={l} {}", d()));
                    x != l
                }
                None => true,
            };
            if new {
                chk(pre.q.contains(&x), "snapshot-invented", d());
                let rest: Vec<V> = pre.q.iter().copied().filter(|v| *v > x).collect();
                chk(rest == post.q, "lost-or-duplicated", d());
            } else {
                chk(pre.q == post.q, "lost-or-duplicated", d());
            }
            slot.last = Some(x);
            rec.count(if !new && !pre.q.is_empty() {
                "branch:singleton:unchanged-with-pending"
            } else if !new {
                "branch:singleton:unchanged-empty-buffer"
            } else if pre.q.first() != Some(&x) {
                "branch:singleton:new-skipping-older"
            } else {
                "branch:singleton:new-oldest"
            });
            new
        }
        Kind::Passthrough => {
            // the fold pushes its accumulator values in strictly increasing order: value = version
            let r = items_of(out);
            if r.len() != 1 || out.len() != 1 {
                chk(false, "not-one-snapshot", d());
                return false;
            }
            let x = r[0];
            if let Some(l) = slot.last {
                chk(x >= l, "snapshot-regressed", format!("last={l} {}", d()));
            }
            let new = if pre.q.is_empty() {
                // nothing new from the fold: the last released snapshot again, buffer untouched
                chk(slot.last == Some(x), "snapshot-invented", format!("last={:?} {}", slot.last, d()));
                chk(post.q.is_empty(), "lost-or-duplicated", d());
                false
            } else {
                // always the newest buffered value; the older ones are dropped with it
                chk(pre.q.last() == Some(&x), "snapshot-not-latest", d());
                chk(post.q.is_empty(), "lost-or-duplicated", d());
                true
            };
            slot.last = Some(x);
            rec.count(if !new {
                "branch:passthrough:unchanged-rerelease"
            } else if pre.q.len() > 1 {
                "branch:passthrough:new-dropping-older"
            } else {
                "branch:passthrough:new-single"
            });
            new
        }
        Kind::KeyedSingleton => {
            let r = by_key(out);
            let (prem, postm) = (map_of(&pre.m), map_of(&post.m));
            chk(prem.keys().eq(postm.keys()) && r.keys().all(|k| prem.contains_key(k)), "keys-changed", d());
            chk(r.values().all(|v| v.len() == 1) && r.len() == out.len(), "not-one-snapshot-per-key", d());
            let mut any_new = false;
            let mut branches: Vec<&'static str> = vec![];
            for (k, pq) in &prem {
                let po = postm.get(k).cloned().unwrap_or_default();
                match r.get(k).and_then(|v| v.first()).copied() {
                    None => {
                        chk(*pq == po, "lost-or-duplicated", d());
                        branches.push("branch:keyedSingleton:key-withheld");
                    }
                    Some(x) => {
                        let new = match slot.last_k.get(k) {
                            Some(l) => {
                                chk(x >= *l, "snapshot-regressed", format!("key={k} last={l} {}", d()));
                                x != *l
                            }
                            None => true,
                        };
                        if new {
                            chk(pq.contains(&x), "snapshot-invented", d());
                            let rest: Vec<V> = pq.iter().copied().filter(|v| *v > x).collect();
                            chk(rest == po, "lost-or-duplicated", d());
                        } else {
                            chk(*pq == po, "lost-or-duplicated", d());
                        }
                        slot.last_k.insert(*k, x);
                        branches.push(if !new && !pq.is_empty() {
                            "branch:keyedSingleton:unchanged-with-pending"
                        } else if !new {
                            "branch:keyedSingleton:unchanged-empty-queue"
                        } else if pq.first() != Some(&x) {
                            "branch:keyedSingleton:new-skipping-older"
                        } else {
                            "branch:keyedSingleton:new-oldest"
                        });
                        any_new |= new;
                    }
                }
            }
            for b in branches {
                rec.count(b);
            }
            any_new
        }
    }
}

impl Case {
    fn new() -> Case {
        Case { hooks: vec![], slots: vec![], dead: false, dfir: None, ev: Default::default(), setup: vec![], tapes: vec![] }
    }

    /// a copy of this tick on fresh real hooks: the state-changing ops replayed from the start
    fn fresh(&self) -> Case {
        let mut c = Case::new();
        let mut scratch = Recorder::new("");
        for op in &self.setup {
            c.exec(op, &mut scratch);
        }
        c
    }

    fn can_release(&self, i: usize) -> bool {
        // re-stated here (oracle side): already decided to release, or has pending input
        self.hooks[i].current_decision().unwrap_or(false) || self.hooks[i].can_make_nontrivial_decision()
    }

    fn state_line(&self, i: usize) -> String {
        let s = snap(&self.slots[i].h);
        let k = self.slots[i].h.kind;
        let body = match (k.keyed(), k.two()) {
            (false, false) => format!("q={}", fmt_list(&s.q)),
            (false, true) => format!("q={} q2={}", fmt_list(&s.q), fmt_list(&s.q2)),
            (true, false) => format!("m={}", fmt_map(&s.m)),
            (true, true) => format!("m={} m2={}", fmt_map(&s.m), fmt_map(&s.m2)),
        };
        format!("{body} cur={}", fmt_optb(self.hooks[i].current_decision()))
    }

    /// execute one operation on the real hooks; returns the protocol line actually performed
    /// (keyed contents rewritten to the observed iteration order) and the implementation's answer
    fn exec(&mut self, op: &Op, rec: &mut Recorder) -> Option<(String, String)> {
        if self.dead {
            return None;
        }
        let n = self.hooks.len();
        let oob = |i: usize| i >= n;
        if matches!(op, Op::New { .. } | Op::Push { .. } | Op::Set { .. } | Op::Auto { .. } | Op::Rel(_) | Op::Run { .. }) {
            self.setup.push(op.clone());
        }
        Some(match op {
            Op::Bad(l) => (l.clone(), "bad-op".into()),
            Op::New { kind, q, q2, m, m2 } => {
                let (hook, h) = make(*kind, q, q2, m, m2);
                let s = snap(&h);
                let line = match (kind.keyed(), kind.two()) {
                    (false, false) => format!("new {} q={}", kind.name(), fmt_list(&s.q)),
                    (false, true) => format!("new {} q={} q2={}", kind.name(), fmt_list(&s.q), fmt_list(&s.q2)),
                    (true, false) => format!("new {} m={}", kind.name(), fmt_map(&s.m)),
                    (true, true) => format!("new {} m={} m2={}", kind.name(), fmt_map(&s.m), fmt_map(&s.m2)),
                };
                self.hooks.push(Box::new(Spy { i: self.hooks.len(), inner: hook, ev: self.ev.clone() }));
                self.slots.push(Slot { h, pre: None, last: None, last_k: BTreeMap::new() });
                rec.count(&format!("new:{}", kind.name()));
                (line, "ok".into())
            }
            Op::Push { i, second, items } => {
                let name = if *second { "push2" } else { "push" };
                let line = format!("{name} {i} q={}", fmt_list(items));
                if oob(*i) {
                    return Some((line, "bad-op".into()));
                }
                let h = &self.slots[*i].h;
                match if *second { &h.q2 } else { &h.q } {
                    Some(q) => {
                        q.borrow_mut().extend(items.iter().copied());
                        (line, "ok".into())
                    }
                    None => (line, "bad-op".into()),
                }
            }
            Op::Set { i, second, entries } => {
                let name = if *second { "set2" } else { "set" };
                if oob(*i) {
                    return Some((format!("{name} {i} m={}", fmt_map(entries)), "bad-op".into()));
                }
                let h = &self.slots[*i].h;
                match if *second { &h.m2 } else { &h.m } {
                    Some(m) => {
                        {
                            let mut mm = m.borrow_mut();
                            let keep: std::collections::BTreeSet<K> = entries.iter().map(|e| e.0).collect();
                            mm.retain(|k, _| keep.contains(k));
                            for (k, vs) in entries {
                                let q = mm.entry(*k).or_default();
                                q.clear();
                                q.extend(vs.iter().copied());
                            }
                        }
                        (format!("{name} {i} m={}", fmt_map(&observe_map(m))), "ok".into())
                    }
                    None => (format!("{name} {i} m={}", fmt_map(entries)), "bad-op".into()),
                }
            }
            Op::State(i) => (format!("state {i}"), if oob(*i) { "bad-op".into() } else { self.state_line(*i) }),
            Op::Cur(i) => (format!("cur {i}"), if oob(*i) { "bad-op".into() } else { fmt_optb(self.hooks[*i].current_decision()) }),
            Op::Can(i) => (
                format!("can {i}"),
                if oob(*i) { "bad-op".into() } else { self.hooks[*i].can_make_nontrivial_decision().to_string() },
            ),
            Op::Ready(i) => {
                if oob(*i) {
                    return Some((format!("ready {i}"), "bad-op".into()));
                }
                let r = self.hooks[*i].is_ready();
                let kind = self.slots[*i].h.kind;
                // oracle: a snapshot hook is ready once it has a value to hand out (buffered or released
                // before, by the oracle's own record); every other hook is always ready
                let expect = match kind {
                    Kind::Singleton | Kind::Passthrough => {
                        !self.slots[*i].h.q.as_ref().map(|q| q.borrow().is_empty()).unwrap_or(true) || self.slots[*i].last.is_some()
                    }
                    _ => true,
                };
                rec.check(r == expect, &format!("is-ready-mismatch@{}", kind.site()), &format!("got {r} expected {expect}"));
                (format!("ready {i}"), r.to_string())
            }
            Op::ObsCan(i) => {
                let line = format!("obscan {i}");
                if oob(*i) {
                    return Some((line, "bad-op".into()));
                }
                let expect = self.can_release(*i);
                let hook = self.hooks.remove(*i);
                let (r, hook) = verif_hooks::observation_can_run_on(hook);
                self.hooks.insert(*i, hook);
                rec.check(r == expect, "obs-can-run-mismatch@SimObservation::can_run", &format!("got {r} expected {expect}"));
                (line, r.to_string())
            }
            Op::Auto { i, force, tape } => {
                let line = format!("auto {i} {} {}", *force as u8, fmt_tape(tape));
                if oob(*i) {
                    return Some((line, "bad-op".into()));
                }
                let kind = self.slots[*i].h.kind;
                rec.count(&format!("auto:{}:force={}", kind.name(), *force as u8));
                let pre = snap(&self.slots[*i].h);
                let can = self.hooks[*i].can_make_nontrivial_decision();
                let ready = self.hooks[*i].is_ready();
                let pending = self.hooks[*i].current_decision().is_some();
                let (mut t, log) = drv::Tape::new(tape.clone());
                let hook = &mut self.hooks[*i];
                let r = catch(AssertUnwindSafe(|| hook.autonomous_decision(&mut Borrowed(&mut t), *force)));
                match r {
                    Ok(nt) => {
                        if !pending {
                            self.slots[*i].pre = Some(pre);
                        }
                        rec.check(!(*force && can) || nt, &format!("forced-decision-trivial@{}", kind.site()), &line);
                        let cur = self.hooks[*i].current_decision();
                        rec.check(
                            cur == Some(nt),
                            &format!("decision-flag-mismatch@{}", kind.site()),
                            &format!("returned {nt} current_decision {cur:?}"),
                        );
                        if nt {
                            rec.nontrivial();
                        }
                        (line, format!("nt={nt} calls={}", fmt_calls(&log.borrow())))
                    }
                    Err(_) => {
                        self.dead = true;
                        // a panic is only legitimate when the caller broke the hook's contract
                        let legit = (*force && !can) || !ready || (kind == Kind::KeyedSingleton && !keyed_singleton_wf(&self.slots[*i]));
                        rec.check(legit, &format!("panic@{}", kind.site()), &format!("{line} pre={pre:?}"));
                        rec.count("panic");
                        (line, "panic".into())
                    }
                }
            }
            Op::Rel(i) => {
                let line = format!("rel {i}");
                if oob(*i) {
                    return Some((line, "bad-op".into()));
                }
                let kind = self.slots[*i].h.kind;
                let decided = self.hooks[*i].current_decision();
                let hook = &mut self.hooks[*i];
                let r = catch(AssertUnwindSafe(|| hook.release_decision(None)));
                match r {
                    Ok(()) => {
                        let out = self.slots[*i].h.out.drain();
                        let post = snap(&self.slots[*i].h);
                        if let Some(pre) = self.slots[*i].pre.take() {
                            let nt = oracle_release(rec, &mut self.slots[*i], &pre, &out, &post);
                            rec.check(decided == Some(nt), &format!("decision-flag-mismatch@{}", kind.site()), &format!("decided {decided:?} released-new {nt}"));
                        }
                        (line, format!("out={}", fmt_msgs(&out)))
                    }
                    Err(_) => {
                        self.dead = true;
                        rec.check(decided.is_none(), &format!("panic@{}::release_decision", kind.site()), "release panicked with a decision pending");
                        rec.count("panic");
                        (line, "panic".into())
                    }
                }
            }
            Op::CanRun => {
                let expect = (0..n).all(|i| self.hooks[i].is_ready()) && (0..n).any(|i| self.can_release(i));
                let hooks = std::mem::take(&mut self.hooks);
                let dfir = self.dfir.take().unwrap_or_else(empty_dfir);
                let (r, hooks, dfir) = verif_hooks::tick_can_run_on(hooks, dfir);
                self.hooks = hooks;
                self.dfir = Some(dfir);
                rec.check(r == expect, "can-run-mismatch@SimTick::can_run", &format!("got {r} expected {expect}"));
                ("canrun".into(), r.to_string())
            }
            Op::Run { tape } => {
                let line = format!("run {}", fmt_tape(tape));
                rec.count(&format!("run:hooks={n}"));
                let idle = (0..n).all(|i| self.hooks[i].current_decision().is_none());
                let can_run = (0..n).all(|i| self.hooks[i].is_ready()) && (0..n).any(|i| self.can_release(i));
                let cannot = (0..n).filter(|&i| !self.hooks[i].can_make_nontrivial_decision()).count();
                let last_can = (0..n).filter(|&i| self.hooks[i].can_make_nontrivial_decision()).last();
                let ks_ok = (0..n).all(|i| self.slots[i].h.kind != Kind::KeyedSingleton || keyed_singleton_wf(&self.slots[i]));
                for i in 0..n {
                    if self.hooks[i].current_decision().is_none() {
                        self.slots[i].pre = Some(snap(&self.slots[i].h));
                    }
                }
                let (t, log) = drv::Tape::new(tape.clone());
                self.ev.borrow_mut().clear();
                let hooks = &mut self.hooks;
                let r = catch(AssertUnwindSafe(|| {
                    scope::with(Box::new(t), || verif_hooks::run_hooks_on(hooks));
                }));
                match r {
                    Ok(()) => {
                        let mut outs = vec![];
                        let mut any_nt = false;
                        let mut nt_hooks: Vec<usize> = vec![];
                        for i in 0..n {
                            let out = self.slots[i].h.out.drain();
                            let post = snap(&self.slots[i].h);
                            if let Some(pre) = self.slots[i].pre.take() {
                                if oracle_release(rec, &mut self.slots[i], &pre, &out, &post) {
                                    any_nt = true;
                                    nt_hooks.push(i);
                                }
                            }
                            rec.check(self.hooks[i].current_decision().is_none(), "decision-left-pending@run_hooks", &format!("hook {i}"));
                            outs.push(fmt_msgs(&out));
                        }
                        if can_run && idle {
                            rec.check(any_nt, "tick-without-progress@run_hooks", &format!("{line}: a runnable tick released nothing new"));
                            // which path of the two-pass forcing logic carried the progress
                            if cannot > 0 {
                                rec.count("branch:run_hooks:first-pass-trivial-decisions");
                            }
                            if nt_hooks.len() == 1 && Some(nt_hooks[0]) == last_can {
                                rec.count("branch:run_hooks:progress-only-from-last-undecided-hook");
                            } else if nt_hooks.len() > 1 {
                                rec.count("branch:run_hooks:several-nontrivial");
                            }
                        }
                        if any_nt {
                            rec.nontrivial();
                        }
                        (line, format!("outs={} calls={} ev={}", outs.join("|"), fmt_calls(&log.borrow()), fmt_evs(&self.ev.borrow())))
                    }
                    Err(e) => {
                        self.dead = true;
                        let legit = !can_run || !idle || !ks_ok;
                        // a runnable tick with idle, well-formed hooks must be resolved without a panic
                        // (F36, fixed: an empty PassthroughSingletonHook buffer used to panic here)
                        rec.check(legit, "panic@run_hooks", &format!("{line}: {e}"));
                        rec.count("panic");
                        (line, "panic".into())
                    }
                }
            }
            Op::Inline { kind, tape, a, b, ap, bp } => {
                let mut line = format!("inline {} {}", kind.name(), fmt_tape(tape));
                match (kind.keyed(), kind.two()) {
                    (false, false) => line += &format!(" a={}", fmt_list(a)),
                    (false, true) => line += &format!(" a={} b={}", fmt_list(a), fmt_list(b)),
                    (true, false) => line += &format!(" a={}", fmt_pairs(ap)),
                    (true, true) => line += &format!(" a={} b={}", fmt_pairs(ap), fmt_pairs(bp)),
                }
                if *kind == InlineKind::KOrder {
                    let (go, oo) = keyed_order_maps(ap);
                    line += &format!(" go={} oo={}", fmt_list(&go), fmt_list(&oo));
                }
                rec.count(&format!("inline:{}", kind.name()));
                let (mut hook, mut out) = make_inline(*kind, a, b, ap, bp);
                let site = kind.site();
                rec.check(hook.pending_decision() && !hook.has_decision(), &format!("inline-state@{site}"), "fresh hook with input must be pending and undecided");
                let (mut t, log) = drv::Tape::new(tape.clone());
                let r = catch(AssertUnwindSafe(|| {
                    hook.autonomous_decision(&mut Borrowed(&mut t));
                    let decided = hook.has_decision();
                    hook.release_decision(None);
                    decided
                }));
                match r {
                    Err(e) => {
                        rec.check(false, &format!("panic@{site}"), &format!("{line}: {e}"));
                        (line, "panic".into())
                    }
                    Ok(decided) => {
                        rec.check(decided && !hook.has_decision() && !hook.pending_decision(), &format!("inline-state@{site}"), "decision must exist after autonomous_decision and be gone after release");
                        let d = |o: &str| format!("{line} -> {o}");
                        let ans = match &mut out {
                            InlineOut::Items(rx) => {
                                let batches = drain_vec(rx);
                                let o: Vec<V> = batches.concat();
                                rec.check(batches.len() == 1, &format!("not-one-batch@{site}"), &d(&fmt_list(&o)));
                                let all = [a.clone(), b.clone()].concat();
                                rec.check(sorted(o.clone()) == sorted(all.clone()), &format!("lost-or-duplicated@{site}"), &d(&fmt_list(&o)));
                                if *kind == InlineKind::Merge {
                                    rec.check(is_subseq(a, &o) && is_subseq(b, &o), &format!("input-order-broken@{site}"), &d(&fmt_list(&o)));
                                }
                                if o != all {
                                    rec.nontrivial();
                                }
                                fmt_list(&o)
                            }
                            InlineOut::Pairs(rx) => {
                                let batches = drain_vec(rx);
                                let o: Vec<(K, V)> = batches.concat();
                                rec.check(batches.len() == 1, &format!("not-one-batch@{site}"), &d(&fmt_pairs(&o)));
                                let mut all = [ap.clone(), bp.clone()].concat();
                                let mut so = o.clone();
                                so.sort();
                                all.sort();
                                rec.check(so == all, &format!("lost-or-duplicated@{site}"), &d(&fmt_pairs(&o)));
                                let vals = |l: &[(K, V)], k: K| l.iter().filter(|e| e.0 == k).map(|e| e.1).collect::<Vec<V>>();
                                for k in o.iter().map(|e| e.0).collect::<std::collections::BTreeSet<K>>() {
                                    let ok = vals(&o, k);
                                    match kind {
                                        InlineKind::POrder => rec.check(ok == vals(ap, k), &format!("key-order-broken@{site}"), &d(&fmt_pairs(&o))),
                                        InlineKind::KMerge => rec.check(
                                            is_subseq(&vals(ap, k), &ok) && is_subseq(&vals(bp, k), &ok),
                                            &format!("input-order-broken@{site}"),
                                            &d(&fmt_pairs(&o)),
                                        ),
                                        _ => {}
                                    }
                                }
                                if o != [ap.clone(), bp.clone()].concat() {
                                    rec.nontrivial();
                                }
                                fmt_pairs(&o)
                            }
                        };
                        (line, format!("out={ans} calls={}", fmt_calls(&log.borrow())))
                    }
                }
            }
            Op::Enum { kind, force, q, q2, m, m2 } => {
                // observed order first (the op line must carry it)
                let (_, h0) = make(*kind, q, q2, m, m2);
                let s0 = snap(&h0);
                let args = match (kind.keyed(), kind.two()) {
                    (false, false) => format!("q={}", fmt_list(&s0.q)),
                    (false, true) => format!("q={} q2={}", fmt_list(&s0.q), fmt_list(&s0.q2)),
                    (true, false) => format!("m={}", fmt_map(&s0.m)),
                    (true, true) => format!("m={} m2={}", fmt_map(&s0.m), fmt_map(&s0.m2)),
                };
                let line = format!("enum {} {} {args}", kind.name(), *force as u8);
                rec.count(&format!("enum:{}", kind.name()));
                (line, enum_outcomes(rec, *kind, *force, &s0))
            }
            Op::XRun { tape } => {
                let line = format!("xrun {}", fmt_tape(tape));
                rec.count(&format!("xrun:hooks={n}"));
                let before = self.tick_before();
                let mut c = self.fresh();
                let (t, log) = drv::Tape::new(tape.clone());
                c.ev.borrow_mut().clear();
                let hooks = &mut c.hooks;
                let (_, r) = scope::with(Box::new(t), || catch(AssertUnwindSafe(|| verif_hooks::run_hooks_on(hooks))));
                match r {
                    Ok(()) => {
                        let evs = c.ev.borrow().clone();
                        check_call_sequence(rec, &before, &evs, &line);
                        let comps = c.components(&before, &evs);
                        if comps.iter().any(|c| c.0) {
                            rec.nontrivial();
                        }
                        let vec = comps.iter().map(|c| c.1.clone()).collect::<Vec<_>>().join("|");
                        (line, format!("vec={vec} calls={} ev={}", fmt_calls(&log.borrow()), fmt_evs(&evs)))
                    }
                    Err(e) => {
                        rec.check(!before.well_formed(), "panic@run_hooks", &format!("{line}: {e}"));
                        rec.count("panic");
                        (line, "panic".into())
                    }
                }
            }
            Op::EnumRun => ("enumrun".into(), self.enum_run(rec)),
        })
    }

    /// what the scheduler sees of the tick right before `run_hooks`
    fn tick_before(&self) -> Before {
        let n = self.hooks.len();
        Before {
            cur: (0..n).map(|i| self.hooks[i].current_decision()).collect(),
            can: (0..n).map(|i| self.hooks[i].can_make_nontrivial_decision()).collect(),
            ready: (0..n).map(|i| self.hooks[i].is_ready()).collect(),
            ks_ok: (0..n).all(|i| self.slots[i].h.kind != Kind::KeyedSingleton || keyed_singleton_wf(&self.slots[i])),
        }
    }

    /// per hook `(non-trivial, "nt/released/remaining")` after a `run_hooks` call on this (fresh) tick
    fn components(&mut self, before: &Before, evs: &[Ev]) -> Vec<(bool, String)> {
        (0..self.hooks.len())
            .map(|i| {
                let out = self.slots[i].h.out.drain();
                let post = snap(&self.slots[i].h);
                let nt = evs
                    .iter()
                    .find_map(|e| match e {
                        Ev::Auto(j, _, nt) if *j == i => Some(*nt),
                        _ => None,
                    })
                    .unwrap_or(before.cur[i].unwrap_or(false));
                (nt, comp_str(self.slots[i].h.kind, nt, &out, &post))
            })
            .collect()
    }

    /// C37 on a whole tick: run the REAL `run_hooks` on copies of the current tick under bolero's real
    /// exhaustive driver until the driver reports the space exhausted; the set of decision vectors
    /// reached is the answer (diffed against the model's search) and is compared here with the
    /// independent oracle: every vector of per-hook allowed decisions with a non-trivial component.
    fn enum_run(&mut self, rec: &mut Recorder) -> String {
        let n_hooks = self.hooks.len();
        rec.count(&format!("enumrun:hooks={n_hooks}"));
        let before = self.tick_before();
        let mut drv = Box::new(drv::LogDrv::new(Object(exhaustive::Driver::default())));
        let mut reached: std::collections::BTreeSet<String> = Default::default();
        let mut reached_comps: Vec<Vec<(bool, String)>> = vec![];
        let mut tapes = vec![];
        let mut n = 0u64;
        let mut panics = 0u64;
        while drv.inner.0.step().is_continue() {
            n += 1;
            if n > 20_000 {
                return "too-many".into();
            }
            drv.reset();
            let mut c = self.fresh();
            c.ev.borrow_mut().clear();
            let hooks = &mut c.hooks;
            let (d, r) = scope::with(drv, || catch(AssertUnwindSafe(|| verif_hooks::run_hooks_on(hooks))));
            drv = d;
            tapes.push(drv.tape.clone());
            match r {
                Ok(()) => {
                    let evs = c.ev.borrow().clone();
                    check_call_sequence(rec, &before, &evs, &format!("enumrun tape {}", fmt_tape(&drv.tape)));
                    let comps = c.components(&before, &evs);
                    let vec = comps.iter().map(|c| c.1.clone()).collect::<Vec<_>>().join("|");
                    if reached.insert(vec) {
                        reached_comps.push(comps);
                    }
                }
                Err(e) => {
                    panics += 1;
                    rec.check(!before.well_formed(), "panic@run_hooks", &format!("enumrun tape {}: {e}", fmt_tape(&drv.tape)));
                    reached.insert("panic".into());
                }
            }
        }
        self.tapes = tapes;
        rec.count_n("enumrun:executions", n);
        rec.count_n("enumrun:distinct-vectors", reached.len() as u64);
        if reached.len() > 1 {
            rec.nontrivial();
        }
        if !(before.well_formed() && panics == 0) {
            rec.count("enumrun:oracle-skipped(tick-not-runnable)");
        }
        if before.well_formed() && panics == 0 {
            // the oracle: per-hook decision spaces written against the property (every prefix, every
            // sub-multiset, every per-key combination, every buffered version / the unchanged snapshot);
            // the TopLevel* hooks' spaces are taken from the real hook run alone, unforced
            let spaces: Vec<Vec<(bool, String)>> = (0..n_hooks)
                .map(|i| {
                    if before.cur[i].is_some() {
                        // already decided before run_hooks: that decision, whatever it is
                        let mut cs: Vec<(bool, String)> = reached_comps.iter().map(|c| c[i].clone()).collect();
                        cs.sort();
                        cs.dedup();
                        rec.check(cs.len() == 1, "pending-decision-changed@run_hooks", &format!("hook {i}: {cs:?}"));
                        cs
                    } else {
                        let slot = &self.slots[i];
                        spec_space(slot.h.kind, &snap(&slot.h), slot.last, &slot.last_k).unwrap_or_else(|| self.real_space(i))
                    }
                })
                .collect();
            let mut expected: std::collections::BTreeSet<String> = Default::default();
            let mut idx = vec![0usize; n_hooks];
            let comparable = spaces.iter().all(|s| !s.is_empty()) && spaces.iter().map(|s| s.len() as u64).product::<u64>() <= 200_000;
            rec.count(if comparable { "enumrun:oracle-compared" } else { "enumrun:oracle-skipped(space-unknown)" });
            if comparable {
                'outer: loop {
                    let pick: Vec<&(bool, String)> = (0..n_hooks).map(|i| &spaces[i][idx[i]]).collect();
                    if pick.iter().any(|c| c.0) {
                        expected.insert(pick.iter().map(|c| c.1.clone()).collect::<Vec<_>>().join("|"));
                    }
                    let mut k = n_hooks;
                    loop {
                        if k == 0 {
                            break 'outer;
                        }
                        k -= 1;
                        idx[k] += 1;
                        if idx[k] < spaces[k].len() {
                            break;
                        }
                        idx[k] = 0;
                    }
                }
                rec.count_n("enumrun:expected-vectors", expected.len() as u64);
                let missing: Vec<&String> = expected.difference(&reached).collect();
                rec.check(
                    missing.is_empty(),
                    "schedule-not-explored@run_hooks",
                    &format!("{} of {} decision vectors with a non-trivial component are never reached, e.g. {}", missing.len(), expected.len(), missing.first().map(|s| s.as_str()).unwrap_or("")),
                );
                let all_trivial: Vec<&Vec<(bool, String)>> = reached_comps.iter().filter(|c| c.iter().all(|x| !x.0)).collect();
                rec.check(
                    all_trivial.is_empty(),
                    "all-trivial-schedule@run_hooks",
                    &format!("a tick that releases nothing new is explored: {:?}", all_trivial.first()),
                );
                let extra: Vec<&String> = reached.difference(&expected).collect();
                rec.check(
                    extra.len() == all_trivial.len(),
                    "unspecified-schedule@run_hooks",
                    &format!("reached but not a vector of allowed per-hook decisions: {:?}", extra.first()),
                );
            }
        }
        format!("n={n} set={}", reached.into_iter().collect::<Vec<_>>().join(" "))
    }

    /// decision space of hook `i` alone: the real hook, unforced, under the exhaustive driver
    fn real_space(&self, i: usize) -> Vec<(bool, String)> {
        let mut drv = exhaustive::Driver::default();
        let mut out: Vec<(bool, String)> = vec![];
        let mut n = 0;
        while drv.step().is_continue() {
            n += 1;
            if n > 5000 {
                break;
            }
            let mut c = self.fresh();
            let mut obj = Object(&mut drv);
            let hook = &mut c.hooks[i];
            let r = catch(AssertUnwindSafe(|| {
                let nt = hook.autonomous_decision(&mut Borrowed(&mut obj), false);
                hook.release_decision(None);
                nt
            }));
            if let Ok(nt) = r {
                let o = c.slots[i].h.out.drain();
                let post = snap(&c.slots[i].h);
                out.push((nt, comp_str(c.slots[i].h.kind, nt, &o, &post)));
            }
        }
        out.sort();
        out.dedup();
        out
    }
}

struct Before {
    cur: Vec<Option<bool>>,
    can: Vec<bool>,
    ready: Vec<bool>,
    ks_ok: bool,
}
impl Before {
    /// the state in which the scheduler calls `run_hooks`: every hook ready, some hook can release
    /// (`SimTick::can_run`), well-formed keyed singletons
    fn well_formed(&self) -> bool {
        let n = self.cur.len();
        self.ks_ok && self.ready.iter().all(|r| *r) && (0..n).any(|i| self.cur[i].unwrap_or(false) || self.can[i])
    }
}

fn rest_str(kind: Kind, post: &Snap) -> String {
    match (kind.keyed(), kind.two()) {
        (false, false) => fmt_list(&post.q),
        (false, true) => format!("{}+{}", fmt_list(&post.q), fmt_list(&post.q2)),
        (true, false) => fmt_map(&post.m),
        (true, true) => format!("{}+{}", fmt_map(&post.m), fmt_map(&post.m2)),
    }
}
fn comp_str(kind: Kind, nt: bool, out: &[Msg], post: &Snap) -> String {
    format!("{}/{}/{}", nt as u8, fmt_msgs(out), rest_str(kind, post))
}

/// The forcing discipline of `run_hooks`, restated against the property (not the model) and checked on
/// the calls the real `run_hooks` made: first the hooks that cannot release take a trivial decision
/// (never forced); then, in order, every still undecided hook decides and every hook releases; a
/// call is forced iff nothing non-trivial has been decided so far in the tick (by ANY earlier hook)
/// and it is the last undecided hook.
fn check_call_sequence(rec: &mut Recorder, b: &Before, evs: &[Ev], what: &str) {
    let n = b.cur.len();
    let mut made = b.cur.iter().any(|c| *c == Some(true));
    let nt_of = |i: usize| evs.iter().find_map(|e| match e { Ev::Auto(j, _, nt) if *j == i => Some(*nt), _ => None });
    let mut expect: Vec<Ev> = vec![];
    for i in 0..n {
        if b.cur[i].is_none() && !b.can[i] {
            expect.push(Ev::Auto(i, false, nt_of(i).unwrap_or(false)));
        }
    }
    let undecided: Vec<usize> = (0..n).filter(|i| b.cur[*i].is_none() && b.can[*i]).collect();
    for i in 0..n {
        if b.cur[i].is_none() && b.can[i] {
            let nt = nt_of(i).unwrap_or(false);
            expect.push(Ev::Auto(i, !made && undecided.last() == Some(&i), nt));
            made |= nt;
        }
        expect.push(Ev::Rel(i));
    }
    if expect != evs {
        let same_shape = expect.len() == evs.len()
            && expect.iter().zip(evs).all(|(a, b)| match (a, b) {
                (Ev::Auto(i, _, _), Ev::Auto(j, _, _)) => i == j,
                (Ev::Rel(i), Ev::Rel(j)) => i == j,
                _ => false,
            });
        let sig = if same_shape { "forcing-flag@run_hooks" } else { "hook-call-sequence@run_hooks" };
        rec.check(false, sig, &format!("{what}: calls {} expected {}", fmt_evs(evs), fmt_evs(&expect)));
    } else {
        rec.check(true, "forcing-flag@run_hooks", "");
    }
}

// ---- the oracle's per-hook decision spaces (C37), written against the property statement

fn prefixes(q: &[V]) -> Vec<(Vec<V>, Vec<V>)> {
    (0..=q.len()).map(|c| (q[..c].to_vec(), q[c..].to_vec())).collect()
}
fn subsets(q: &[V]) -> Vec<(Vec<V>, Vec<V>)> {
    (0..(1u32 << q.len()))
        .map(|mask| {
            let (mut s, mut r) = (vec![], vec![]);
            for (i, v) in q.iter().enumerate() {
                if mask & (1 << i) != 0 { s.push(*v) } else { r.push(*v) }
            }
            (s, r)
        })
        .collect()
}
/// all combinations of one option per key: (messages in key order, remaining map, any new)
fn per_key_product(keys: &[K], opts: &[Vec<(Vec<V>, Vec<V>, bool)>]) -> Vec<(Vec<Msg>, KMapData, bool)> {
    let mut acc: Vec<(Vec<Msg>, KMapData, bool)> = vec![(vec![], vec![], false)];
    for (k, os) in keys.iter().zip(opts) {
        let mut next = vec![];
        for (msgs, m, any) in &acc {
            for (rel, rest, new) in os {
                let mut msgs = msgs.clone();
                msgs.extend(rel.iter().map(|v| Msg::Kv(*k, *v)));
                let mut m = m.clone();
                m.push((*k, rest.clone()));
                next.push((msgs, m, *any || *new));
            }
        }
        acc = next;
    }
    acc
}
/// `None`: no specified space for this kind (TopLevel* hooks), or the hook is not in a state the
/// simulator can produce
fn spec_space(kind: Kind, pre: &Snap, last: Option<V>, last_k: &BTreeMap<K, V>) -> Option<Vec<(bool, String)>> {
    let items = |v: &[V]| v.iter().map(|x| Msg::Item(*x)).collect::<Vec<_>>();
    let q_post = |q: Vec<V>| Snap { q, ..Default::default() };
    let keys: Vec<K> = pre.m.iter().map(|e| e.0).collect();
    Some(match kind {
        // every prefix size
        Kind::StreamTotal => prefixes(&pre.q).into_iter().map(|(r, rest)| (!r.is_empty(), comp_str(kind, !r.is_empty(), &items(&r), &q_post(rest)))).collect(),
        // every in-order sub-multiset
        Kind::StreamNo => subsets(&pre.q).into_iter().map(|(r, rest)| (!r.is_empty(), comp_str(kind, !r.is_empty(), &items(&r), &q_post(rest)))).collect(),
        // every combination of per-key prefixes / sub-multisets
        Kind::KeyedTotal | Kind::KeyedNo => {
            let opts: Vec<Vec<(Vec<V>, Vec<V>, bool)>> = pre
                .m
                .iter()
                .map(|(_, q)| (if kind == Kind::KeyedTotal { prefixes(q) } else { subsets(q) }).into_iter().map(|(r, rest)| { let new = !r.is_empty(); (r, rest, new) }).collect())
                .collect();
            per_key_product(&keys, &opts)
                .into_iter()
                .map(|(msgs, m, any)| (any, comp_str(kind, any, &msgs, &Snap { m, ..Default::default() })))
                .collect()
        }
        // every buffered version (dropping the older ones), or the unchanged snapshot again
        Kind::Singleton => {
            let mut v: Vec<(bool, String)> = (0..pre.q.len()).map(|i| (true, comp_str(kind, true, &items(&pre.q[i..=i]), &q_post(pre.q[i + 1..].to_vec())))).collect();
            if let Some(l) = last {
                v.push((false, comp_str(kind, false, &items(&[l]), &q_post(pre.q.clone()))));
            }
            if v.is_empty() {
                return None;
            }
            v
        }
        // the newest value of the fold, or the unchanged one again when the fold produced nothing
        Kind::Passthrough => match (pre.q.last(), last) {
            (Some(x), _) => vec![(true, comp_str(kind, true, &items(&[*x]), &q_post(vec![])))],
            (None, Some(l)) => vec![(false, comp_str(kind, false, &items(&[l]), &q_post(vec![])))],
            (None, None) => return None,
        },
        // per key: unchanged again (released before) / withheld (never released) / a buffered version
        Kind::KeyedSingleton => {
            let mut opts: Vec<Vec<(Vec<V>, Vec<V>, bool)>> = vec![];
            for (k, q) in &pre.m {
                let mut o: Vec<(Vec<V>, Vec<V>, bool)> = (0..q.len()).map(|i| (vec![q[i]], q[i + 1..].to_vec(), true)).collect();
                match last_k.get(k) {
                    Some(l) => o.push((vec![*l], q.clone(), false)),
                    None if q.is_empty() => return None,
                    None => o.push((vec![], q.clone(), false)),
                }
                opts.push(o);
            }
            per_key_product(&keys, &opts)
                .into_iter()
                .map(|(msgs, m, any)| (any, comp_str(kind, any, &msgs, &Snap { m, ..Default::default() })))
                .collect()
        }
        _ => return None,
    })
}

fn keyed_singleton_wf(slot: &Slot) -> bool {
    // every key with an empty buffer has been released before
    slot.h.m.as_ref().map(|m| observe_map(m).iter().all(|(k, q)| !q.is_empty() || slot.last_k.contains_key(k))).unwrap_or(true)
}

fn fmt_calls(log: &[String]) -> String {
    if log.is_empty() { "-".into() } else { log.join(",") }
}

fn empty_dfir() -> dfir_rs::scheduled::context::DfirErased {
    let df = dfir_rs::dfir_syntax! {
        source_iter([0u32]) -> for_each(|_| {});
    };
    df.into_erased()
}

/// C37: run the real hook's decision under bolero's *exhaustive* driver from the same initial
/// contents until the driver reports the space exhausted; the set of distinct outcomes
/// (`released/remaining`) and the number of executions are the answer.
fn enum_outcomes(rec: &mut Recorder, kind: Kind, force: bool, s0: &Snap) -> String {
    let mut drv = exhaustive::Driver::default();
    let mut outcomes: Vec<String> = vec![];
    let mut n = 0u64;
    while drv.step().is_continue() {
        n += 1;
        if n > 200_000 {
            return "too-many".into();
        }
        let (mut hook, mut h) = make(kind, &s0.q, &s0.q2, &s0.m, &s0.m2);
        // the observed order must be the same for every instance (same insertion sequence)
        rec.check(snap(&h) == *s0, "iteration-order-unstable@FxHashMap", "two maps built by the same insertions iterate differently");
        let mut obj = Object(&mut drv);
        let r = catch(AssertUnwindSafe(|| {
            let nt = hook.autonomous_decision(&mut Borrowed(&mut obj), force);
            hook.release_decision(None);
            nt
        }));
        match r {
            Ok(nt) => {
                let out = h.out.drain();
                let post = snap(&h);
                let rest = match (kind.keyed(), kind.two()) {
                    (false, false) => fmt_list(&post.q),
                    (false, true) => format!("{}+{}", fmt_list(&post.q), fmt_list(&post.q2)),
                    (true, false) => fmt_map(&post.m),
                    (true, true) => format!("{}+{}", fmt_map(&post.m), fmt_map(&post.m2)),
                };
                outcomes.push(format!("{}/{}/{}", nt as u8, fmt_msgs(&out), rest));
            }
            Err(_) => outcomes.push("panic".into()),
        }
    }
    let distinct: std::collections::BTreeSet<String> = outcomes.iter().cloned().collect();
    rec.count_n("enum:executions", n);
    rec.count_n("enum:distinct", distinct.len() as u64);
    if distinct.len() > 1 {
        rec.nontrivial();
    }
    format!("n={n} set={}", distinct.into_iter().collect::<Vec<_>>().join(" "))
}

// ---------------------------------------------------------------- generation

struct Gen {
    rng: Rng,
    next_val: V,
    keyed_bias: bool,
}
const KEYED_KINDS: [Kind; 6] = [Kind::KeyedTotal, Kind::KeyedNo, Kind::KeyedSingleton, Kind::TlKeyedOrder, Kind::TlPartial, Kind::TlKeyedMerge];
impl Gen {
    fn kind(&mut self) -> Kind {
        if self.keyed_bias && self.rng.chance(2, 3) { *self.rng.pick(&KEYED_KINDS) } else { *self.rng.pick(&ALL_KINDS) }
    }
    fn vals(&mut self, n: usize) -> Vec<V> {
        (0..n)
            .map(|_| {
                self.next_val += 1 + self.rng.below(2) as V;
                self.next_val
            })
            .collect()
    }
    fn tape(&mut self) -> Vec<u64> {
        let n = self.rng.below(9) as usize;
        let big = self.rng.chance(1, 6);
        (0..n).map(|_| if big { self.rng.below(1000) } else { self.rng.below(5) }).collect()
    }
    fn keys(&mut self, n: usize) -> Vec<K> {
        let mut ks: Vec<K> = vec![];
        while ks.len() < n {
            let k = if self.rng.chance(1, 4) { self.rng.below(100_000) as K } else { self.rng.below(12) as K };
            if !ks.contains(&k) {
                ks.push(k);
            }
        }
        ks
    }
    fn map(&mut self, nkeys: usize, maxq: usize, allow_empty: bool) -> KMapData {
        let ks = self.keys(nkeys);
        ks.into_iter()
            .map(|k| {
                let n = if allow_empty { self.rng.below(maxq as u64 + 1) } else { 1 + self.rng.below(maxq as u64) } as usize;
                (k, self.vals(n))
            })
            .collect()
    }
    fn new_op(&mut self, kind: Kind, size: usize) -> Op {
        let (mut q, mut q2, mut m, mut m2) = (vec![], vec![], vec![], vec![]);
        if kind.keyed() {
            // KeyedSingleton: an empty buffer for a never-released key cannot arise in the simulator
            let allow_empty = kind != Kind::KeyedSingleton || self.rng.chance(1, 40);
            m = self.map(size, 3, allow_empty);
            if kind.two() {
                let n2 = self.rng.below(3) as usize;
                m2 = self.map(n2, 3, true);
            }
        } else {
            q = self.vals(size);
            if kind.two() {
                let n2 = self.rng.below(4) as usize;
                q2 = self.vals(n2);
            }
        }
        Op::New { kind, q, q2, m, m2 }
    }
    /// feed more input to hook `i` (what the async DFIR does between ticks)
    fn feed(&mut self, case: &Case, i: usize) -> Op {
        let h = &case.slots[i].h;
        let second = h.kind.two() && self.rng.chance(1, 2);
        if h.kind.keyed() {
            let cur = observe_map(if second { h.m2.as_ref().unwrap() } else { h.m.as_ref().unwrap() });
            let mut entries = cur.clone();
            let n = 1 + self.rng.below(3) as usize;
            for _ in 0..n {
                if !entries.is_empty() && self.rng.chance(2, 3) {
                    let j = self.rng.below(entries.len() as u64) as usize;
                    let v = self.vals(1);
                    entries[j].1.extend(v);
                } else {
                    let k = self.keys(1)[0];
                    if !entries.iter().any(|e| e.0 == k) {
                        let v = self.vals(1);
                        entries.push((k, v));
                    }
                }
            }
            Op::Set { i, second, entries }
        } else {
            let n = 1 + self.rng.below(3) as usize;
            Op::Push { i, second, items: self.vals(n) }
        }
    }
}

fn small_tape(k: u64) -> Vec<u64> {
    // k-th tape over the alphabet {0,1,2,3}, shortest first
    let mut t = vec![];
    let mut k = k;
    let mut len = 0u32;
    let mut block = 1u64;
    while k >= block {
        k -= block;
        len += 1;
        block = 4u64.pow(len);
    }
    for _ in 0..len {
        t.push(k % 4);
        k /= 4;
    }
    t
}

fn run_ops(case: &mut Case, rec: &mut Recorder, ops: &[Op]) {
    for op in ops {
        if let Some((line, ans)) = case.exec(op, rec) {
            rec.line(&line, &ans);
        }
    }
}

fn gen_case_c36(idx: u64, g: &mut Gen, rec: &mut Recorder, cases: u64) {
    let mut case = Case::new();
    let exhaustive_n = if cases == 0 { 0 } else { (cases * 2 / 5).max(1) };
    if idx < exhaustive_n {
        // small scope, enumerated: kind × size × force × tape
        let kind = ALL_KINDS[(idx % 13) as usize];
        let size = ((idx / 13) % 4) as usize;
        let force = (idx / 52) % 2 == 1;
        let tape = small_tape(idx / 104);
        rec.case(idx, &format!("small kind={} size={size} force={}", kind.name(), force as u8));
        let new = g.new_op(kind, size);
        run_ops(&mut case, rec, &[new, Op::State(0), Op::Can(0), Op::Ready(0), Op::ObsCan(0), Op::Auto { i: 0, force, tape }, Op::Cur(0), Op::State(0), Op::Rel(0), Op::State(0)]);
        return;
    }
    if g.rng.chance(1, 40) {
        rec.case(idx, "malformed");
        let lines = ["new nosuch q=1", "auto 0 0 1", "rel 3", "push 0 q=x", "new streamTotal q=1,2", "auto 0 2 -", "set 0 m=1:2", "frob", "state 9", "run 1,,2"];
        let n = 1 + g.rng.below(4);
        for _ in 0..n {
            let l = *g.rng.pick(&lines);
            run_ops(&mut case, rec, &[parse_op(l)]);
        }
        return;
    }
    if g.rng.chance(1, 6) {
        // the in-tick order hooks: one decision on a fresh batch
        let kind = *g.rng.pick(&INLINE_KINDS);
        rec.case(idx, &format!("inline kind={}", kind.name()));
        let n = 1 + g.rng.below(3);
        for _ in 0..n {
            let (mut a, mut b, mut ap, mut bp) = (vec![], vec![], vec![], vec![]);
            let na = g.rng.below(5) as usize;
            let nb = g.rng.below(4) as usize;
            if kind.keyed() {
                let nk = 1 + g.rng.below(3) as usize;
                let ks = g.keys(nk);
                ap = g.vals(na).into_iter().map(|v| (*g.rng.pick(&ks), v)).collect();
                if kind.two() {
                    bp = g.vals(nb).into_iter().map(|v| (*g.rng.pick(&ks), v)).collect();
                }
            } else {
                a = g.vals(na);
                if kind.two() {
                    b = g.vals(nb);
                }
            }
            let tape = g.tape();
            run_ops(&mut case, rec, &[Op::Inline { kind, tape, a, b, ap, bp }]);
        }
        return;
    }
    if g.rng.chance(3, 5) {
        // one hook, several rounds of feed / decide / release
        let kind = g.kind();
        rec.case(idx, &format!("life kind={}", kind.name()));
        let size = g.rng.below(5) as usize;
        let new = g.new_op(kind, size);
        run_ops(&mut case, rec, &[new]);
        let rounds = 2 + g.rng.below(4);
        for _ in 0..rounds {
            if case.dead {
                break;
            }
            if g.rng.chance(2, 3) {
                let f = g.feed(&case, 0);
                run_ops(&mut case, rec, &[Op::State(0), f]);
            }
            let can = case.hooks[0].can_make_nontrivial_decision();
            let ready = case.hooks[0].is_ready();
            let force = if can { g.rng.chance(1, 2) } else { g.rng.chance(1, 25) };
            if !ready && !g.rng.chance(1, 20) {
                run_ops(&mut case, rec, &[Op::Ready(0), Op::Can(0)]);
                continue;
            }
            let tape = g.tape();
            run_ops(&mut case, rec, &[Op::Can(0), Op::Ready(0), Op::Auto { i: 0, force, tape }, Op::State(0), Op::Rel(0), Op::State(0)]);
        }
        if g.rng.chance(1, 15) {
            run_ops(&mut case, rec, &[Op::Rel(0)]);
        }
    } else {
        // a tick: several hooks resolved together by run_hooks
        let nh = 1 + g.rng.below(4) as usize;
        rec.case(idx, &format!("tick hooks={nh}"));
        for _ in 0..nh {
            let kind = g.kind();
            let size = g.rng.below(4) as usize;
            let new = g.new_op(kind, size);
            run_ops(&mut case, rec, &[new]);
        }
        let rounds = 1 + g.rng.below(4);
        for _ in 0..rounds {
            if case.dead {
                break;
            }
            for i in 0..nh {
                if g.rng.chance(1, 2) {
                    let f = g.feed(&case, i);
                    run_ops(&mut case, rec, &[f]);
                }
            }
            run_ops(&mut case, rec, &[Op::CanRun]);
            let n = case.hooks.len();
            let can_run = (0..n).all(|i| case.hooks[i].is_ready()) && (0..n).any(|i| case.can_release(i));
            if can_run || g.rng.chance(1, 20) {
                let tape = g.tape();
                run_ops(&mut case, rec, &[Op::Run { tape }]);
                for i in 0..nh {
                    run_ops(&mut case, rec, &[Op::State(i)]);
                }
            }
        }
    }
}

const TICK_KINDS: [Kind; 7] = [Kind::StreamTotal, Kind::StreamNo, Kind::KeyedTotal, Kind::KeyedNo, Kind::Singleton, Kind::Passthrough, Kind::KeyedSingleton];
const TL_KINDS: [Kind; 6] = [Kind::TlOrder, Kind::TlFold, Kind::TlKeyedOrder, Kind::TlPartial, Kind::TlMerge, Kind::TlKeyedMerge];

/// the ops that build a runnable tick of `nh` hooks of mixed kinds with pending input (queues / keys up
/// to `cap`): hook 0 always has pending input and no decision; later hooks may be empty, may have
/// released a snapshot in an earlier tick (`auto 1` + `rel`: the hook has a last released value, so
/// "unchanged" is one of its decisions) and may already carry a manual decision (`auto 0` without `rel`)
fn tick_setup(g: &mut Gen, nh: usize, cap: usize, manual_eighths: u64) -> Vec<Op> {
    let mut ops = vec![];
    let cap = cap.max(1);
    let kcap = cap.min(2);
    for i in 0..nh {
        let kind = if g.rng.chance(4, 5) { *g.rng.pick(&TICK_KINDS) } else { *g.rng.pick(&TL_KINDS) };
        let snapshot = matches!(kind, Kind::Singleton | Kind::Passthrough | Kind::KeyedSingleton);
        let empty = i > 0 && g.rng.chance(1, 6);
        let size = if empty { 0 } else { 1 + g.rng.below(cap as u64) as usize };
        let primed = snapshot && (empty || g.rng.chance(1, 2));
        let nkeys = 1 + g.rng.below(kcap as u64) as usize;
        let (mut q, mut q2, mut m, mut m2) = (vec![], vec![], vec![], vec![]);
        if primed {
            if kind.keyed() {
                m = g.map(nkeys, kcap, false);
            } else {
                let n0 = 1 + g.rng.below(2) as usize;
                q = g.vals(n0);
            }
            let keys: Vec<K> = m.iter().map(|e| e.0).collect();
            ops.push(Op::New { kind, q, q2, m, m2 });
            // (keyed: the all-zero tape releases the oldest version of every key, so that every key has a
            // last released value and may run empty afterwards)
            let t = g.tape();
            ops.push(Op::Auto { i, force: true, tape: if kind.keyed() { vec![] } else { t } });
            ops.push(Op::Rel(i));
            if kind.keyed() {
                let entries: KMapData = keys
                    .into_iter()
                    .enumerate()
                    .map(|(j, k)| {
                        let n = if empty { 0 } else if j == 0 { 1 + g.rng.below(kcap as u64) as usize } else { g.rng.below(kcap as u64 + 1) as usize };
                        (k, g.vals(n))
                    })
                    .collect();
                ops.push(Op::Set { i, second: false, entries });
            } else if size > 0 {
                ops.push(Op::Push { i, second: false, items: g.vals(size) });
            }
        } else {
            if kind.keyed() {
                if empty {
                    let nk = if kind == Kind::KeyedSingleton { 0 } else { g.rng.below(2) as usize };
                    m = g.keys(nk).into_iter().map(|k| (k, vec![])).collect();
                } else {
                    m = g.map(nkeys, kcap, false);
                    if kind.two() && g.rng.chance(1, 2) {
                        m2 = g.map(1, kcap, false);
                    }
                }
            } else {
                q = g.vals(size);
                if kind.two() && !empty {
                    let n2 = g.rng.below(kcap as u64 + 1) as usize;
                    q2 = g.vals(n2);
                }
            }
            ops.push(Op::New { kind, q, q2, m, m2 });
        }
        // a manual decision taken before run_hooks (an unprimed snapshot hook would stop being ready)
        if i > 0 && g.rng.chance(manual_eighths, 8) && (!snapshot || primed) {
            ops.push(Op::Auto { i, force: false, tape: g.tape() });
        }
    }
    ops
}

/// number of decision vectors of the tick built by `ops` (product of the per-hook spaces)
fn tick_space_size(ops: &[Op]) -> u64 {
    let mut c = Case::new();
    let mut scratch = Recorder::new("");
    for op in ops {
        c.exec(op, &mut scratch);
    }
    if c.dead {
        return u64::MAX;
    }
    (0..c.hooks.len())
        .map(|i| {
            if c.hooks[i].current_decision().is_some() {
                1
            } else {
                let slot = &c.slots[i];
                spec_space(slot.h.kind, &snap(&slot.h), slot.last, &slot.last_k).unwrap_or_else(|| c.real_space(i)).len().max(1) as u64
            }
        })
        .product()
}

/// C37 on whole ticks: 2, 3 and 4 pending hooks of mixed kinds; `enumrun` (the real run_hooks under the
/// real exhaustive driver, set of decision vectors) and then every execution again as `xrun <tape>`
/// (the same tape on the real run_hooks and on the model: outputs, driver calls, forcing flags)
fn gen_case_c37_tick(idx: u64, tick_no: u64, g: &mut Gen, rec: &mut Recorder) {
    let nh = 2 + (tick_no % 3) as usize;
    let ops = if tick_no < 6 {
        // canonical small ticks, in every run: nh batches with one or two pending items each
        let nh = 3 + (tick_no % 2) as usize;
        (0..nh)
            .map(|i| {
                let kind = [Kind::StreamTotal, Kind::StreamNo, Kind::KeyedTotal][((tick_no / 2) as usize + if tick_no >= 2 { i } else { 0 }) % 3];
                let n = 1 + ((tick_no as usize + i) % 2);
                if kind.keyed() {
                    let m = g.map(1, n, false);
                    Op::New { kind, q: vec![], q2: vec![], m, m2: vec![] }
                } else {
                    Op::New { kind, q: g.vals(n), q2: vec![], m: vec![], m2: vec![] }
                }
            })
            .collect()
    } else {
        let mut cap = if nh == 2 { 3 } else { 2 };
        loop {
            // every sixth tick: several hooks already carry a manual decision (first pass accumulation)
            let ops = tick_setup(g, nh, cap, if tick_no % 6 == 5 { 4 } else { 1 });
            if tick_space_size(&ops) <= 400 {
                break ops;
            }
            cap = cap.saturating_sub(1).max(1);
        }
    };
    let mut case = Case::new();
    let nh = ops.iter().filter(|o| matches!(o, Op::New { .. })).count();
    rec.case(idx, &format!("tick hooks={nh}"));
    run_ops(&mut case, rec, &ops);
    for i in 0..nh {
        run_ops(&mut case, rec, &[Op::State(i), Op::Can(i)]);
    }
    run_ops(&mut case, rec, &[Op::CanRun, Op::EnumRun]);
    let tapes = std::mem::take(&mut case.tapes);
    rec.count(&format!("tick:undecided-hooks={}", (0..nh).filter(|i| case.hooks[*i].current_decision().is_none() && case.hooks[*i].can_make_nontrivial_decision()).count()));
    for tape in tapes.into_iter().take(250) {
        run_ops(&mut case, rec, &[Op::XRun { tape }]);
    }
}

fn gen_case_c37(idx: u64, g: &mut Gen, rec: &mut Recorder) {
    // every fifth case is a whole tick; the others enumerate one hook (kind x force x size by index)
    if idx % 5 == 4 {
        return gen_case_c37_tick(idx, idx / 5, g, rec);
    }
    let eidx = idx - (idx + 1) / 5;
    let mut case = Case::new();
    let kind = ALL_KINDS[(eidx % 13) as usize];
    let force = (eidx / 13) % 2 == 1;
    let size = ((eidx / 26) % 5) as usize;
    rec.case(idx, &format!("enum kind={} force={} size={size}", kind.name(), force as u8));
    let (mut q, mut q2, mut m, mut m2) = (vec![], vec![], vec![], vec![]);
    if kind.keyed() {
        let nk = size.min(3);
        // KeyedSingleton: an empty buffer for a never-released key cannot arise (and panics mid-search)
        m = g.map(nk, if nk >= 3 { 2 } else { 3 }, kind != Kind::KeyedSingleton);
        if kind.two() {
            let n2 = g.rng.below(3) as usize;
            m2 = g.map(n2, 2, true);
        }
    } else {
        let size = if kind == Kind::TlFold { size.min(4) } else { size };
        q = g.vals(size);
        if kind.two() {
            let n2 = g.rng.below(4) as usize;
            q2 = g.vals(n2);
        }
    }
    run_ops(&mut case, rec, &[Op::Enum { kind, force, q, q2, m, m2 }]);
}

/// C38 oracle on the real code: replay the op lines the case just performed on *fresh* hooks (same
/// process) and require the same answers — decision logs (`calls=`), outputs, verdicts (`panic`).
fn replay_oracle(rec: &mut Recorder, start: usize, istart: usize) {
    let ops: Vec<String> = rec.ops[start..].lines().map(|l| l.to_string()).collect();
    let imp: Vec<String> = rec.imp[istart..].lines().map(|l| l.to_string()).collect();
    let mut scratch = Recorder::new("");
    let mut case = Case::new();
    for (i, l) in ops.iter().enumerate() {
        if l.starts_with("#case") {
            continue;
        }
        match case.exec(&parse_op(l), &mut scratch) {
            None => break,
            Some((line, ans)) => {
                if line != *l {
                    // the keyed input could not be rebuilt with the same iteration order: not comparable
                    rec.count("replay:order-not-reproducible");
                    return;
                }
                rec.check(ans == imp[i], "replay-diverged@sim-hooks", &format!("line `{l}`: first run `{}` replay `{ans}`", imp[i]));
                if ans != imp[i] {
                    return;
                }
            }
        }
    }
    rec.count("replay:compared");
}

fn main() {
    let a = Args::parse();
    quiet_panics();
    let rule = match a.mode.as_str() {
        "c36" | "c38" => "a decision released at least one new item / snapshot",
        "c37" => "the decision space has more than one distinct outcome",
        m => {
            eprintln!("unknown mode {m}");
            std::process::exit(2)
        }
    };
    let mut rec = Recorder::new(rule);
    // C38: perturb the heap layout of this process (`--pad N`), so that two runs differ in addresses
    let pad: usize = a.extra.get("pad").and_then(|v| v.parse().ok()).unwrap_or(0);
    let _junk: Vec<Vec<u8>> = (0..pad % 97).map(|i| vec![i as u8; 1 + (pad * (i + 1)) % 4093]).collect();
    if let Some(rp) = &a.replay {
        let mut case = Case::new();
        for l in read_lines(rp) {
            if l.starts_with("#case") {
                let mut it = l.splitn(3, ' ');
                it.next();
                let n: u64 = it.next().and_then(|x| x.parse().ok()).unwrap_or(0);
                rec.case(n, it.next().unwrap_or(""));
                case = Case::new();
                continue;
            }
            let op = parse_op(&l);
            run_ops(&mut case, &mut rec, &[op]);
        }
    } else {
        let root = Rng::new(a.seed);
        for idx in 0..a.cases {
            let mut g = Gen { rng: root.fork(idx), next_val: 0, keyed_bias: false };
            match a.mode.as_str() {
                "c37" => gen_case_c37(idx, &mut g, &mut rec),
                "c38" => {
                    let start = rec.ops.len();
                    let istart = rec.imp.len();
                    g.keyed_bias = true;
                    // the C36 oracles are not C38's property (a panic is a verdict that must replay too)
                    let (plen, pf) = (rec.prop.len(), rec.prop_failures);
                    gen_case_c36(idx, &mut g, &mut rec, 0);
                    rec.prop.truncate(plen);
                    rec.prop_failures = pf;
                    replay_oracle(&mut rec, start, istart);
                }
                _ => gen_case_c36(idx, &mut g, &mut rec, a.cases),
            }
        }
    }
    rec.finish(&a.out);
}
