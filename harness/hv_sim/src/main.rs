//! hv_sim — harness for C36/C37/C38: drives the real simulator hooks
//! (`hydro_lang::sim::runtime`) and the scheduler's `run_hooks` / `can_run`
//! (`hydro_lang::sim::compiled`, via the cfg-guarded `verif_hooks`) with a scripted bolero driver.
//!
//! Line protocol (one answer per line; lists `1,2,3`, `-` = empty; keyed maps `k:1.2;k2:-` in the
//! hash map's *observed iteration order*):
//!   new <kind> [q=..] [q2=..] [m=..] [m2=..]     -> ok
//!   push <i> q=.. | push2 <i> q=..                -> ok          (push_back on the input queue)
//!   set <i> m=..  | set2 <i> m=..                 -> ok          (replace the keyed input; observed order)
//!   state <i>                                     -> q=.. [q2=..] | m=.. [m2=..]  then  cur=<..>
//!   cur|can|ready|obscan <i>                      -> some(true)|some(false)|none / true|false
//!   auto <i> <force 0|1> <tape>                   -> nt=<bool> calls=<log> | panic
//!   rel <i>                                       -> out=<msgs> | panic
//!   canrun                                        -> true|false
//!   run <tape>                                    -> outs=<msgs>|<msgs>.. calls=<log> | panic
//!   inline <kind> <tape> a=.. [b=..] [go=..] [oo=..]  -> out=<batch> calls=<log> | panic   (in-tick order hooks)
//!   enum <kind> <force> [q=..] [q2=..] [m=..] [m2=..]  -> n=<executions> set=<sorted outcomes>   (C37)
mod drv;
mod hooks;

use std::collections::BTreeMap;
use std::panic::AssertUnwindSafe;

use bolero::generator::bolero_generator::any::scope;
use bolero::generator::bolero_generator::driver::exhaustive;
use bolero::generator::bolero_generator::driver::object::{Borrowed, Object};
use hooks::*;
use hv_common::{Args, Recorder, Rng, catch, quiet_panics, read_lines};
use hydro_lang::sim::compiled::verif_hooks;
use hydro_lang::sim::runtime::SimHook;

// ---------------------------------------------------------------- formatting / parsing

fn fmt_list(v: &[V]) -> String {
    if v.is_empty() { "-".into() } else { v.iter().map(|x| x.to_string()).collect::<Vec<_>>().join(",") }
}
fn fmt_map(m: &KMapData) -> String {
    if m.is_empty() {
        return "-".into();
    }
    m.iter()
        .map(|(k, vs)| {
            format!("{k}:{}", if vs.is_empty() { "-".into() } else { vs.iter().map(|x| x.to_string()).collect::<Vec<_>>().join(".") })
        })
        .collect::<Vec<_>>()
        .join(";")
}
fn fmt_msgs(ms: &[Msg]) -> String {
    if ms.is_empty() {
        return "-".into();
    }
    ms.iter()
        .map(|m| match m {
            Msg::Item(v) => format!("{v}"),
            Msg::Kv(k, v) => format!("{k}:{v}"),
            Msg::Batch(b) => format!("[{}]", b.iter().map(|x| x.to_string()).collect::<Vec<_>>().join(".")),
        })
        .collect::<Vec<_>>()
        .join(",")
}
fn fmt_tape(t: &[u64]) -> String {
    if t.is_empty() { "-".into() } else { t.iter().map(|x| x.to_string()).collect::<Vec<_>>().join(",") }
}
fn fmt_optb(b: Option<bool>) -> String {
    match b {
        Some(true) => "some(true)".into(),
        Some(false) => "some(false)".into(),
        None => "none".into(),
    }
}
fn parse_list<T: std::str::FromStr>(s: &str, sep: char) -> Option<Vec<T>> {
    if s == "-" {
        return Some(vec![]);
    }
    s.split(sep).map(|p| p.parse::<T>().ok()).collect()
}
fn parse_map(s: &str) -> Option<KMapData> {
    if s == "-" {
        return Some(vec![]);
    }
    let mut out = vec![];
    for e in s.split(';') {
        let (k, vs) = e.split_once(':')?;
        out.push((k.parse().ok()?, parse_list::<V>(vs, '.')?));
    }
    Some(out)
}

// ---------------------------------------------------------------- operations

#[derive(Clone, Debug)]
enum Op {
    New { kind: Kind, q: Vec<V>, q2: Vec<V>, m: KMapData, m2: KMapData },
    Push { i: usize, second: bool, items: Vec<V> },
    Set { i: usize, second: bool, entries: KMapData },
    State(usize),
    Cur(usize),
    Can(usize),
    Ready(usize),
    ObsCan(usize),
    Auto { i: usize, force: bool, tape: Vec<u64> },
    Rel(usize),
    CanRun,
    Run { tape: Vec<u64> },
    Inline { kind: InlineKind, tape: Vec<u64>, a: Vec<V>, b: Vec<V>, ap: Vec<(K, V)>, bp: Vec<(K, V)> },
    Enum { kind: Kind, force: bool, q: Vec<V>, q2: Vec<V>, m: KMapData, m2: KMapData },
    Bad(String),
}

fn kv_args(ws: &[&str]) -> Option<(Vec<V>, Vec<V>, KMapData, KMapData)> {
    let (mut q, mut q2, mut m, mut m2) = (vec![], vec![], vec![], vec![]);
    for w in ws {
        let (k, v) = w.split_once('=')?;
        match k {
            "q" => q = parse_list(v, ',')?,
            "q2" => q2 = parse_list(v, ',')?,
            "m" => m = parse_map(v)?,
            "m2" => m2 = parse_map(v)?,
            _ => return None,
        }
    }
    Some((q, q2, m, m2))
}

fn parse_pairs(s: &str) -> Option<Vec<(K, V)>> {
    if s == "-" {
        return Some(vec![]);
    }
    s.split(',').map(|e| e.split_once(':').and_then(|(k, v)| Some((k.parse().ok()?, v.parse().ok()?)))).collect()
}
fn fmt_pairs(v: &[(K, V)]) -> String {
    if v.is_empty() { "-".into() } else { v.iter().map(|(k, x)| format!("{k}:{x}")).collect::<Vec<_>>().join(",") }
}
fn parse_inline(kind: &str, tape: &str, rest: &[&str]) -> Option<Op> {
    let kind = InlineKind::parse(kind)?;
    let tape = parse_list::<u64>(tape, ',')?;
    let (mut a, mut b, mut ap, mut bp) = (vec![], vec![], vec![], vec![]);
    for w in rest {
        let (k, v) = w.split_once('=')?;
        match (k, kind.keyed()) {
            ("a", false) => a = parse_list(v, ',')?,
            ("b", false) => b = parse_list(v, ',')?,
            ("a", true) => ap = parse_pairs(v)?,
            ("b", true) => bp = parse_pairs(v)?,
            ("go" | "oo", true) => {
                parse_list::<K>(v, ',')?;
            }
            _ => return None,
        }
    }
    Some(Op::Inline { kind, tape, a, b, ap, bp })
}

fn parse_op(line: &str) -> Op {
    let ws: Vec<&str> = line.split(' ').collect();
    let bad = || Op::Bad(line.to_string());
    let idx = |s: &str| s.parse::<usize>().ok();
    match ws.as_slice() {
        ["new", kind, rest @ ..] => match (Kind::parse(kind), kv_args(rest)) {
            (Some(kind), Some((q, q2, m, m2))) => Op::New { kind, q, q2, m, m2 },
            _ => bad(),
        },
        ["push", i, a] | ["push2", i, a] => match (idx(i), a.strip_prefix("q=").and_then(|v| parse_list(v, ','))) {
            (Some(i), Some(items)) => Op::Push { i, second: ws[0] == "push2", items },
            _ => bad(),
        },
        ["set", i, a] | ["set2", i, a] => match (idx(i), a.strip_prefix("m=").and_then(parse_map)) {
            (Some(i), Some(entries)) => Op::Set { i, second: ws[0] == "set2", entries },
            _ => bad(),
        },
        ["state", i] => idx(i).map(Op::State).unwrap_or_else(bad),
        ["cur", i] => idx(i).map(Op::Cur).unwrap_or_else(bad),
        ["can", i] => idx(i).map(Op::Can).unwrap_or_else(bad),
        ["ready", i] => idx(i).map(Op::Ready).unwrap_or_else(bad),
        ["obscan", i] => idx(i).map(Op::ObsCan).unwrap_or_else(bad),
        ["auto", i, f, t] => match (idx(i), *f, parse_list::<u64>(t, ',')) {
            (Some(i), "0" | "1", Some(tape)) => Op::Auto { i, force: *f == "1", tape },
            _ => bad(),
        },
        ["rel", i] => idx(i).map(Op::Rel).unwrap_or_else(bad),
        ["canrun"] => Op::CanRun,
        ["inline", kind, tape, rest @ ..] => parse_inline(kind, tape, rest).unwrap_or_else(bad),
        ["run", t] => parse_list::<u64>(t, ',').map(|tape| Op::Run { tape }).unwrap_or_else(bad),
        ["enum", kind, f, rest @ ..] => match (Kind::parse(kind), *f, kv_args(rest)) {
            (Some(kind), "0" | "1", Some((q, q2, m, m2))) => Op::Enum { kind, force: *f == "1", q, q2, m, m2 },
            _ => bad(),
        },
        _ => bad(),
    }
}

// ---------------------------------------------------------------- case state + oracle

#[derive(Clone, Debug, Default, PartialEq)]
struct Snap {
    q: Vec<V>,
    q2: Vec<V>,
    m: KMapData,
    m2: KMapData,
}

struct Slot {
    h: Handle,
    /// inputs as they were right before the pending decision was taken
    pre: Option<Snap>,
    /// oracle's own record of the last released snapshot (singleton) / per key (keyed singleton)
    last: Option<V>,
    last_k: BTreeMap<K, V>,
}

struct Case {
    hooks: Vec<Box<dyn SimHook>>,
    slots: Vec<Slot>,
    dead: bool,
    dfir: Option<dfir_rs::scheduled::context::DfirErased>,
}

fn snap(h: &Handle) -> Snap {
    Snap {
        q: h.q.as_ref().map(observe_q).unwrap_or_default(),
        q2: h.q2.as_ref().map(observe_q).unwrap_or_default(),
        m: h.m.as_ref().map(observe_map).unwrap_or_default(),
        m2: h.m2.as_ref().map(observe_map).unwrap_or_default(),
    }
}

fn is_subseq(a: &[V], b: &[V]) -> bool {
    let mut it = b.iter();
    a.iter().all(|x| it.any(|y| y == x))
}
fn sorted(mut v: Vec<V>) -> Vec<V> {
    v.sort();
    v
}
fn by_key(ms: &[Msg]) -> BTreeMap<K, Vec<V>> {
    let mut r: BTreeMap<K, Vec<V>> = BTreeMap::new();
    for m in ms {
        if let Msg::Kv(k, v) = m {
            r.entry(*k).or_default().push(*v);
        }
    }
    r
}
fn items_of(ms: &[Msg]) -> Vec<V> {
    ms.iter().filter_map(|m| if let Msg::Item(v) = m { Some(*v) } else { None }).collect()
}
fn map_of(m: &KMapData) -> BTreeMap<K, Vec<V>> {
    m.iter().cloned().collect()
}

/// The property itself (C36) evaluated on what the real hook did: `pre` = pending items when the
/// decision was taken, `out` = what arrived on the output channel, `post` = what is still pending.
/// Returns whether the release was non-trivial (new item / new snapshot).
fn oracle_release(rec: &mut Recorder, slot: &mut Slot, pre: &Snap, out: &[Msg], post: &Snap) -> bool {
    let kind = slot.h.kind;
    let site = kind.site();
    let mut chk = |ok: bool, what: &str, detail: String| rec.check(ok, &format!("{what}@{site}"), &detail);
    let d = || format!("pre={pre:?} out={out:?} post={post:?}");
    match kind {
        Kind::StreamTotal => {
            let r = items_of(out);
            let n = r.len();
            chk(n <= pre.q.len() && pre.q[..n] == r[..] && r.len() == out.len(), "released-not-prefix", d());
            chk(n <= pre.q.len() && pre.q[n..] == post.q[..], "lost-or-duplicated", d());
            n > 0
        }
        Kind::StreamNo | Kind::TlOrder => {
            let r = items_of(out);
            chk(is_subseq(&r, &pre.q) && r.len() == out.len(), "released-not-subset", d());
            chk(is_subseq(&post.q, &pre.q), "remaining-reordered", d());
            chk(sorted([r.clone(), post.q.clone()].concat()) == sorted(pre.q.clone()), "lost-or-duplicated", d());
            if kind == Kind::TlOrder {
                chk(r.len() <= 1, "released-more-than-one", d());
            }
            if kind == Kind::StreamNo {
                rec.count(if r.is_empty() {
                    "branch:streamNo:nothing"
                } else if r.last() == pre.q.last() {
                    "branch:streamNo:ended-at-last-index(min_index==len)"
                } else if r.len() > 1 && !pre.q.starts_with(&r) {
                    "branch:streamNo:gapped-subset"
                } else {
                    "branch:streamNo:stopped-by-draw"
                });
            }
            !r.is_empty()
        }
        Kind::TlFold => {
            let b: Vec<V> = match out {
                [Msg::Batch(b)] => b.clone(),
                _ => {
                    chk(false, "not-one-batch", d());
                    vec![]
                }
            };
            chk(is_subseq(&post.q, &pre.q), "remaining-reordered", d());
            chk(sorted([b.clone(), post.q.clone()].concat()) == sorted(pre.q.clone()), "lost-or-duplicated", d());
            !b.is_empty()
        }
        Kind::KeyedTotal | Kind::TlPartial => {
            let r = by_key(out);
            let (prem, postm) = (map_of(&pre.m), map_of(&post.m));
            chk(r.values().map(|v| v.len()).sum::<usize>() == out.len(), "not-keyed", d());
            chk(prem.keys().eq(postm.keys()) && r.keys().all(|k| prem.contains_key(k)), "keys-changed", d());
            for (k, pq) in &prem {
                let rk = r.get(k).cloned().unwrap_or_default();
                let n = rk.len();
                chk(n <= pq.len() && pq[..n] == rk[..], "released-not-prefix", d());
                chk(n <= pq.len() && postm.get(k).map(|p| p[..] == pq[n..]).unwrap_or(false), "lost-or-duplicated", d());
            }
            if kind == Kind::TlPartial {
                chk(out.len() <= 1, "released-more-than-one", d());
            }
            !out.is_empty()
        }
        Kind::KeyedNo | Kind::TlKeyedOrder => {
            let r = by_key(out);
            let (prem, postm) = (map_of(&pre.m), map_of(&post.m));
            chk(r.values().map(|v| v.len()).sum::<usize>() == out.len(), "not-keyed", d());
            chk(prem.keys().eq(postm.keys()) && r.keys().all(|k| prem.contains_key(k)), "keys-changed", d());
            for (k, pq) in &prem {
                let rk = r.get(k).cloned().unwrap_or_default();
                let po = postm.get(k).cloned().unwrap_or_default();
                chk(is_subseq(&rk, pq), "released-not-subset", d());
                chk(is_subseq(&po, pq), "remaining-reordered", d());
                chk(sorted([rk, po].concat()) == sorted(pq.clone()), "lost-or-duplicated", d());
            }
            if kind == Kind::TlKeyedOrder {
                chk(out.len() <= 1, "released-more-than-one", d());
            }
            !out.is_empty()
        }
        Kind::TlMerge => {
            let r = items_of(out);
            let (n1, n2) = (pre.q.len() - post.q.len().min(pre.q.len()), pre.q2.len() - post.q2.len().min(pre.q2.len()));
            chk(r.len() <= 1 && r.len() == out.len(), "released-more-than-one", d());
            chk(pre.q[n1..] == post.q[..] && pre.q2[n2..] == post.q2[..], "lost-or-duplicated", d());
            let taken = [pre.q[..n1].to_vec(), pre.q2[..n2].to_vec()].concat();
            chk(sorted(taken) == sorted(r.clone()), "released-not-prefix", d());
            !r.is_empty()
        }
        Kind::TlKeyedMerge => {
            let r = by_key(out);
            chk(out.len() <= 1 && r.values().map(|v| v.len()).sum::<usize>() == out.len(), "released-more-than-one", d());
            let mut taken: Vec<(K, V)> = vec![];
            for (prem, postm) in [(map_of(&pre.m), map_of(&post.m)), (map_of(&pre.m2), map_of(&post.m2))] {
                chk(prem.keys().eq(postm.keys()), "keys-changed", d());
                for (k, pq) in &prem {
                    let po = postm.get(k).cloned().unwrap_or_default();
                    let n = pq.len() - po.len().min(pq.len());
                    chk(pq[n..] == po[..], "lost-or-duplicated", d());
                    taken.extend(pq[..n].iter().map(|v| (*k, *v)));
                }
            }
            let mut rel: Vec<(K, V)> = r.iter().flat_map(|(k, vs)| vs.iter().map(|v| (*k, *v))).collect();
            rel.sort();
            taken.sort();
            chk(rel == taken, "released-not-prefix", d());
            !out.is_empty()
        }
        Kind::Singleton => {
            // values in a singleton's buffer are pushed in strictly increasing order: value = version
            let r = items_of(out);
            if r.len() != 1 || out.len() != 1 {
                chk(false, "not-one-snapshot", d());
                return false;
            }
            let x = r[0];
            let new = match slot.last {
                Some(l) => {
                    chk(x >= l, "snapshot-regressed", format!("last={l} {}", d()));
                    x != l
                }
                None => true,
            };
            if new {
                chk(pre.q.contains(&x), "snapshot-invented", d());
                let rest: Vec<V> = pre.q.iter().copied().filter(|v| *v > x).collect();
                chk(rest == post.q, "lost-or-duplicated", d());
            } else {
                chk(pre.q == post.q, "lost-or-duplicated", d());
            }
            slot.last = Some(x);
            rec.count(if !new && !pre.q.is_empty() {
                "branch:singleton:unchanged-with-pending"
            } else if !new {
                "branch:singleton:unchanged-empty-buffer"
            } else if pre.q.first() != Some(&x) {
                "branch:singleton:new-skipping-older"
            } else {
                "branch:singleton:new-oldest"
            });
            new
        }
        Kind::Passthrough => {
            // the fold pushes its accumulator values in strictly increasing order: value = version
            let r = items_of(out);
            if r.len() != 1 || out.len() != 1 {
                chk(false, "not-one-snapshot", d());
                return false;
            }
            let x = r[0];
            if let Some(l) = slot.last {
                chk(x >= l, "snapshot-regressed", format!("last={l} {}", d()));
            }
            let new = if pre.q.is_empty() {
                // nothing new from the fold: the last released snapshot again, buffer untouched
                chk(slot.last == Some(x), "snapshot-invented", format!("last={:?} {}", slot.last, d()));
                chk(post.q.is_empty(), "lost-or-duplicated", d());
                false
            } else {
                // always the newest buffered value; the older ones are dropped with it
                chk(pre.q.last() == Some(&x), "snapshot-not-latest", d());
                chk(post.q.is_empty(), "lost-or-duplicated", d());
                true
            };
            slot.last = Some(x);
            rec.count(if !new {
                "branch:passthrough:unchanged-rerelease"
            } else if pre.q.len() > 1 {
                "branch:passthrough:new-dropping-older"
            } else {
                "branch:passthrough:new-single"
            });
            new
        }
        Kind::KeyedSingleton => {
            let r = by_key(out);
            let (prem, postm) = (map_of(&pre.m), map_of(&post.m));
            chk(prem.keys().eq(postm.keys()) && r.keys().all(|k| prem.contains_key(k)), "keys-changed", d());
            chk(r.values().all(|v| v.len() == 1) && r.len() == out.len(), "not-one-snapshot-per-key", d());
            let mut any_new = false;
            let mut branches: Vec<&'static str> = vec![];
            for (k, pq) in &prem {
                let po = postm.get(k).cloned().unwrap_or_default();
                match r.get(k).and_then(|v| v.first()).copied() {
                    None => {
                        chk(*pq == po, "lost-or-duplicated", d());
                        branches.push("branch:keyedSingleton:key-withheld");
                    }
                    Some(x) => {
                        let new = match slot.last_k.get(k) {
                            Some(l) => {
                                chk(x >= *l, "snapshot-regressed", format!("key={k} last={l} {}", d()));
                                x != *l
                            }
                            None => true,
                        };
                        if new {
                            chk(pq.contains(&x), "snapshot-invented", d());
                            let rest: Vec<V> = pq.iter().copied().filter(|v| *v > x).collect();
                            chk(rest == po, "lost-or-duplicated", d());
                        } else {
                            chk(*pq == po, "lost-or-duplicated", d());
                        }
                        slot.last_k.insert(*k, x);
                        branches.push(if !new && !pq.is_empty() {
                            "branch:keyedSingleton:unchanged-with-pending"
                        } else if !new {
                            "branch:keyedSingleton:unchanged-empty-queue"
                        } else if pq.first() != Some(&x) {
                            "branch:keyedSingleton:new-skipping-older"
                        } else {
                            "branch:keyedSingleton:new-oldest"
                        });
                        any_new |= new;
                    }
                }
            }
            for b in branches {
                rec.count(b);
            }
            any_new
        }
    }
}

impl Case {
    fn new() -> Case {
        Case { hooks: vec![], slots: vec![], dead: false, dfir: None }
    }

    fn can_release(&self, i: usize) -> bool {
        // re-stated here (oracle side): already decided to release, or has pending input
        self.hooks[i].current_decision().unwrap_or(false) || self.hooks[i].can_make_nontrivial_decision()
    }

    fn state_line(&self, i: usize) -> String {
        let s = snap(&self.slots[i].h);
        let k = self.slots[i].h.kind;
        let body = match (k.keyed(), k.two()) {
            (false, false) => format!("q={}", fmt_list(&s.q)),
            (false, true) => format!("q={} q2={}", fmt_list(&s.q), fmt_list(&s.q2)),
            (true, false) => format!("m={}", fmt_map(&s.m)),
            (true, true) => format!("m={} m2={}", fmt_map(&s.m), fmt_map(&s.m2)),
        };
        format!("{body} cur={}", fmt_optb(self.hooks[i].current_decision()))
    }

    /// execute one operation on the real hooks; returns the protocol line actually performed
    /// (keyed contents rewritten to the observed iteration order) and the implementation's answer
    fn exec(&mut self, op: &Op, rec: &mut Recorder) -> Option<(String, String)> {
        if self.dead {
            return None;
        }
        let n = self.hooks.len();
        let oob = |i: usize| i >= n;
        Some(match op {
            Op::Bad(l) => (l.clone(), "bad-op".into()),
            Op::New { kind, q, q2, m, m2 } => {
                let (hook, h) = make(*kind, q, q2, m, m2);
                let s = snap(&h);
                let line = match (kind.keyed(), kind.two()) {
                    (false, false) => format!("new {} q={}", kind.name(), fmt_list(&s.q)),
                    (false, true) => format!("new {} q={} q2={}", kind.name(), fmt_list(&s.q), fmt_list(&s.q2)),
                    (true, false) => format!("new {} m={}", kind.name(), fmt_map(&s.m)),
                    (true, true) => format!("new {} m={} m2={}", kind.name(), fmt_map(&s.m), fmt_map(&s.m2)),
                };
                self.hooks.push(hook);
                self.slots.push(Slot { h, pre: None, last: None, last_k: BTreeMap::new() });
                rec.count(&format!("new:{}", kind.name()));
                (line, "ok".into())
            }
            Op::Push { i, second, items } => {
                let name = if *second { "push2" } else { "push" };
                let line = format!("{name} {i} q={}", fmt_list(items));
                if oob(*i) {
                    return Some((line, "bad-op".into()));
                }
                let h = &self.slots[*i].h;
                match if *second { &h.q2 } else { &h.q } {
                    Some(q) => {
                        q.borrow_mut().extend(items.iter().copied());
                        (line, "ok".into())
                    }
                    None => (line, "bad-op".into()),
                }
            }
            Op::Set { i, second, entries } => {
                let name = if *second { "set2" } else { "set" };
                if oob(*i) {
                    return Some((format!("{name} {i} m={}", fmt_map(entries)), "bad-op".into()));
                }
                let h = &self.slots[*i].h;
                match if *second { &h.m2 } else { &h.m } {
                    Some(m) => {
                        {
                            let mut mm = m.borrow_mut();
                            let keep: std::collections::BTreeSet<K> = entries.iter().map(|e| e.0).collect();
                            mm.retain(|k, _| keep.contains(k));
                            for (k, vs) in entries {
                                let q = mm.entry(*k).or_default();
                                q.clear();
                                q.extend(vs.iter().copied());
                            }
                        }
                        (format!("{name} {i} m={}", fmt_map(&observe_map(m))), "ok".into())
                    }
                    None => (format!("{name} {i} m={}", fmt_map(entries)), "bad-op".into()),
                }
            }
            Op::State(i) => (format!("state {i}"), if oob(*i) { "bad-op".into() } else { self.state_line(*i) }),
            Op::Cur(i) => (format!("cur {i}"), if oob(*i) { "bad-op".into() } else { fmt_optb(self.hooks[*i].current_decision()) }),
            Op::Can(i) => (
                format!("can {i}"),
                if oob(*i) { "bad-op".into() } else { self.hooks[*i].can_make_nontrivial_decision().to_string() },
            ),
            Op::Ready(i) => {
                if oob(*i) {
                    return Some((format!("ready {i}"), "bad-op".into()));
                }
                let r = self.hooks[*i].is_ready();
                let kind = self.slots[*i].h.kind;
                // oracle: a snapshot hook is ready once it has a value to hand out (buffered or released
                // before, by the oracle's own record); every other hook is always ready
                let expect = match kind {
                    Kind::Singleton | Kind::Passthrough => {
                        !self.slots[*i].h.q.as_ref().map(|q| q.borrow().is_empty()).unwrap_or(true) || self.slots[*i].last.is_some()
                    }
                    _ => true,
                };
                rec.check(r == expect, &format!("is-ready-mismatch@{}", kind.site()), &format!("got {r} expected {expect}"));
                (format!("ready {i}"), r.to_string())
            }
            Op::ObsCan(i) => {
                let line = format!("obscan {i}");
                if oob(*i) {
                    return Some((line, "bad-op".into()));
                }
                let expect = self.can_release(*i);
                let hook = self.hooks.remove(*i);
                let (r, hook) = verif_hooks::observation_can_run_on(hook);
                self.hooks.insert(*i, hook);
                rec.check(r == expect, "obs-can-run-mismatch@SimObservation::can_run", &format!("got {r} expected {expect}"));
                (line, r.to_string())
            }
            Op::Auto { i, force, tape } => {
                let line = format!("auto {i} {} {}", *force as u8, fmt_tape(tape));
                if oob(*i) {
                    return Some((line, "bad-op".into()));
                }
                let kind = self.slots[*i].h.kind;
                rec.count(&format!("auto:{}:force={}", kind.name(), *force as u8));
                let pre = snap(&self.slots[*i].h);
                let can = self.hooks[*i].can_make_nontrivial_decision();
                let ready = self.hooks[*i].is_ready();
                let pending = self.hooks[*i].current_decision().is_some();
                let (mut t, log) = drv::Tape::new(tape.clone());
                let hook = &mut self.hooks[*i];
                let r = catch(AssertUnwindSafe(|| hook.autonomous_decision(&mut Borrowed(&mut t), *force)));
                match r {
                    Ok(nt) => {
                        if !pending {
                            self.slots[*i].pre = Some(pre);
                        }
                        rec.check(!(*force && can) || nt, &format!("forced-decision-trivial@{}", kind.site()), &line);
                        let cur = self.hooks[*i].current_decision();
                        rec.check(
                            cur == Some(nt),
                            &format!("decision-flag-mismatch@{}", kind.site()),
                            &format!("returned {nt} current_decision {cur:?}"),
                        );
                        if nt {
                            rec.nontrivial();
                        }
                        (line, format!("nt={nt} calls={}", fmt_calls(&log.borrow())))
                    }
                    Err(_) => {
                        self.dead = true;
                        // a panic is only legitimate when the caller broke the hook's contract
                        let legit = (*force && !can) || !ready || (kind == Kind::KeyedSingleton && !keyed_singleton_wf(&self.slots[*i]));
                        rec.check(legit, &format!("panic@{}", kind.site()), &format!("{line} pre={pre:?}"));
                        rec.count("panic");
                        (line, "panic".into())
                    }
                }
            }
            Op::Rel(i) => {
                let line = format!("rel {i}");
                if oob(*i) {
                    return Some((line, "bad-op".into()));
                }
                let kind = self.slots[*i].h.kind;
                let decided = self.hooks[*i].current_decision();
                let hook = &mut self.hooks[*i];
                let r = catch(AssertUnwindSafe(|| hook.release_decision(None)));
                match r {
                    Ok(()) => {
                        let out = self.slots[*i].h.out.drain();
                        let post = snap(&self.slots[*i].h);
                        if let Some(pre) = self.slots[*i].pre.take() {
                            let nt = oracle_release(rec, &mut self.slots[*i], &pre, &out, &post);
                            rec.check(decided == Some(nt), &format!("decision-flag-mismatch@{}", kind.site()), &format!("decided {decided:?} released-new {nt}"));
                        }
                        (line, format!("out={}", fmt_msgs(&out)))
                    }
                    Err(_) => {
                        self.dead = true;
                        rec.check(decided.is_none(), &format!("panic@{}::release_decision", kind.site()), "release panicked with a decision pending");
                        rec.count("panic");
                        (line, "panic".into())
                    }
                }
            }
            Op::CanRun => {
                let expect = (0..n).all(|i| self.hooks[i].is_ready()) && (0..n).any(|i| self.can_release(i));
                let hooks = std::mem::take(&mut self.hooks);
                let dfir = self.dfir.take().unwrap_or_else(empty_dfir);
                let (r, hooks, dfir) = verif_hooks::tick_can_run_on(hooks, dfir);
                self.hooks = hooks;
                self.dfir = Some(dfir);
                rec.check(r == expect, "can-run-mismatch@SimTick::can_run", &format!("got {r} expected {expect}"));
                ("canrun".into(), r.to_string())
            }
            Op::Run { tape } => {
                let line = format!("run {}", fmt_tape(tape));
                rec.count(&format!("run:hooks={n}"));
                let idle = (0..n).all(|i| self.hooks[i].current_decision().is_none());
                let can_run = (0..n).all(|i| self.hooks[i].is_ready()) && (0..n).any(|i| self.can_release(i));
                let cannot = (0..n).filter(|&i| !self.hooks[i].can_make_nontrivial_decision()).count();
                let last_can = (0..n).filter(|&i| self.hooks[i].can_make_nontrivial_decision()).last();
                let ks_ok = (0..n).all(|i| self.slots[i].h.kind != Kind::KeyedSingleton || keyed_singleton_wf(&self.slots[i]));
                for i in 0..n {
                    if self.hooks[i].current_decision().is_none() {
                        self.slots[i].pre = Some(snap(&self.slots[i].h));
                    }
                }
                let (t, log) = drv::Tape::new(tape.clone());
                let hooks = &mut self.hooks;
                let r = catch(AssertUnwindSafe(|| {
                    scope::with(Box::new(t), || verif_hooks::run_hooks_on(hooks));
                }));
                match r {
                    Ok(()) => {
                        let mut outs = vec![];
                        let mut any_nt = false;
                        let mut nt_hooks: Vec<usize> = vec![];
                        for i in 0..n {
                            let out = self.slots[i].h.out.drain();
                            let post = snap(&self.slots[i].h);
                            if let Some(pre) = self.slots[i].pre.take() {
                                if oracle_release(rec, &mut self.slots[i], &pre, &out, &post) {
                                    any_nt = true;
                                    nt_hooks.push(i);
                                }
                            }
                            rec.check(self.hooks[i].current_decision().is_none(), "decision-left-pending@run_hooks", &format!("hook {i}"));
                            outs.push(fmt_msgs(&out));
                        }
                        if can_run && idle {
                            rec.check(any_nt, "tick-without-progress@run_hooks", &format!("{line}: a runnable tick released nothing new"));
                            // which path of the two-pass forcing logic carried the progress
                            if cannot > 0 {
                                rec.count("branch:run_hooks:first-pass-trivial-decisions");
                            }
                            if nt_hooks.len() == 1 && Some(nt_hooks[0]) == last_can {
                                rec.count("branch:run_hooks:progress-only-from-last-undecided-hook");
                            } else if nt_hooks.len() > 1 {
                                rec.count("branch:run_hooks:several-nontrivial");
                            }
                        }
                        if any_nt {
                            rec.nontrivial();
                        }
                        (line, format!("outs={} calls={}", outs.join("|"), fmt_calls(&log.borrow())))
                    }
                    Err(e) => {
                        self.dead = true;
                        let legit = !can_run || !idle || !ks_ok;
                        // a runnable tick with idle, well-formed hooks must be resolved without a panic
                        // (F36, fixed: an empty PassthroughSingletonHook buffer used to panic here)
                        rec.check(legit, "panic@run_hooks", &format!("{line}: {e}"));
                        rec.count("panic");
                        (line, "panic".into())
                    }
                }
            }
            Op::Inline { kind, tape, a, b, ap, bp } => {
                let mut line = format!("inline {} {}", kind.name(), fmt_tape(tape));
                match (kind.keyed(), kind.two()) {
                    (false, false) => line += &format!(" a={}", fmt_list(a)),
                    (false, true) => line += &format!(" a={} b={}", fmt_list(a), fmt_list(b)),
                    (true, false) => line += &format!(" a={}", fmt_pairs(ap)),
                    (true, true) => line += &format!(" a={} b={}", fmt_pairs(ap), fmt_pairs(bp)),
                }
                if *kind == InlineKind::KOrder {
                    let (go, oo) = keyed_order_maps(ap);
                    line += &format!(" go={} oo={}", fmt_list(&go), fmt_list(&oo));
                }
                rec.count(&format!("inline:{}", kind.name()));
                let (mut hook, mut out) = make_inline(*kind, a, b, ap, bp);
                let site = kind.site();
                rec.check(hook.pending_decision() && !hook.has_decision(), &format!("inline-state@{site}"), "fresh hook with input must be pending and undecided");
                let (mut t, log) = drv::Tape::new(tape.clone());
                let r = catch(AssertUnwindSafe(|| {
                    hook.autonomous_decision(&mut Borrowed(&mut t));
                    let decided = hook.has_decision();
                    hook.release_decision(None);
                    decided
                }));
                match r {
                    Err(e) => {
                        rec.check(false, &format!("panic@{site}"), &format!("{line}: {e}"));
                        (line, "panic".into())
                    }
                    Ok(decided) => {
                        rec.check(decided && !hook.has_decision() && !hook.pending_decision(), &format!("inline-state@{site}"), "decision must exist after autonomous_decision and be gone after release");
                        let d = |o: &str| format!("{line} -> {o}");
                        let ans = match &mut out {
                            InlineOut::Items(rx) => {
                                let batches = drain_vec(rx);
                                let o: Vec<V> = batches.concat();
                                rec.check(batches.len() == 1, &format!("not-one-batch@{site}"), &d(&fmt_list(&o)));
                                let all = [a.clone(), b.clone()].concat();
                                rec.check(sorted(o.clone()) == sorted(all.clone()), &format!("lost-or-duplicated@{site}"), &d(&fmt_list(&o)));
                                if *kind == InlineKind::Merge {
                                    rec.check(is_subseq(a, &o) && is_subseq(b, &o), &format!("input-order-broken@{site}"), &d(&fmt_list(&o)));
                                }
                                if o != all {
                                    rec.nontrivial();
                                }
                                fmt_list(&o)
                            }
                            InlineOut::Pairs(rx) => {
                                let batches = drain_vec(rx);
                                let o: Vec<(K, V)> = batches.concat();
                                rec.check(batches.len() == 1, &format!("not-one-batch@{site}"), &d(&fmt_pairs(&o)));
                                let mut all = [ap.clone(), bp.clone()].concat();
                                let mut so = o.clone();
                                so.sort();
                                all.sort();
                                rec.check(so == all, &format!("lost-or-duplicated@{site}"), &d(&fmt_pairs(&o)));
                                let vals = |l: &[(K, V)], k: K| l.iter().filter(|e| e.0 == k).map(|e| e.1).collect::<Vec<V>>();
                                for k in o.iter().map(|e| e.0).collect::<std::collections::BTreeSet<K>>() {
                                    let ok = vals(&o, k);
                                    match kind {
                                        InlineKind::POrder => rec.check(ok == vals(ap, k), &format!("key-order-broken@{site}"), &d(&fmt_pairs(&o))),
                                        InlineKind::KMerge => rec.check(
                                            is_subseq(&vals(ap, k), &ok) && is_subseq(&vals(bp, k), &ok),
                                            &format!("input-order-broken@{site}"),
                                            &d(&fmt_pairs(&o)),
                                        ),
                                        _ => {}
                                    }
                                }
                                if o != [ap.clone(), bp.clone()].concat() {
                                    rec.nontrivial();
                                }
                                fmt_pairs(&o)
                            }
                        };
                        (line, format!("out={ans} calls={}", fmt_calls(&log.borrow())))
                    }
                }
            }
            Op::Enum { kind, force, q, q2, m, m2 } => {
                // observed order first (the op line must carry it)
                let (_, h0) = make(*kind, q, q2, m, m2);
                let s0 = snap(&h0);
                let args = match (kind.keyed(), kind.two()) {
                    (false, false) => format!("q={}", fmt_list(&s0.q)),
                    (false, true) => format!("q={} q2={}", fmt_list(&s0.q), fmt_list(&s0.q2)),
                    (true, false) => format!("m={}", fmt_map(&s0.m)),
                    (true, true) => format!("m={} m2={}", fmt_map(&s0.m), fmt_map(&s0.m2)),
                };
                let line = format!("enum {} {} {args}", kind.name(), *force as u8);
                rec.count(&format!("enum:{}", kind.name()));
                (line, enum_outcomes(rec, *kind, *force, &s0))
            }
        })
    }
}

fn keyed_singleton_wf(slot: &Slot) -> bool {
    // every key with an empty buffer has been released before
    slot.h.m.as_ref().map(|m| observe_map(m).iter().all(|(k, q)| !q.is_empty() || slot.last_k.contains_key(k))).unwrap_or(true)
}

fn fmt_calls(log: &[String]) -> String {
    if log.is_empty() { "-".into() } else { log.join(",") }
}

fn empty_dfir() -> dfir_rs::scheduled::context::DfirErased {
    let df = dfir_rs::dfir_syntax! {
        source_iter([0u32]) -> for_each(|_| {});
    };
    df.into_erased()
}

/// C37: run the real hook's decision under bolero's *exhaustive* driver from the same initial
/// contents until the driver reports the space exhausted; the set of distinct outcomes
/// (`released/remaining`) and the number of executions are the answer.
fn enum_outcomes(rec: &mut Recorder, kind: Kind, force: bool, s0: &Snap) -> String {
    let mut drv = exhaustive::Driver::default();
    let mut outcomes: Vec<String> = vec![];
    let mut n = 0u64;
    while drv.step().is_continue() {
        n += 1;
        if n > 200_000 {
            return "too-many".into();
        }
        let (mut hook, mut h) = make(kind, &s0.q, &s0.q2, &s0.m, &s0.m2);
        // the observed order must be the same for every instance (same insertion sequence)
        rec.check(snap(&h) == *s0, "iteration-order-unstable@FxHashMap", "two maps built by the same insertions iterate differently");
        let mut obj = Object(&mut drv);
        let r = catch(AssertUnwindSafe(|| {
            let nt = hook.autonomous_decision(&mut Borrowed(&mut obj), force);
            hook.release_decision(None);
            nt
        }));
        match r {
            Ok(nt) => {
                let out = h.out.drain();
                let post = snap(&h);
                let rest = match (kind.keyed(), kind.two()) {
                    (false, false) => fmt_list(&post.q),
                    (false, true) => format!("{}+{}", fmt_list(&post.q), fmt_list(&post.q2)),
                    (true, false) => fmt_map(&post.m),
                    (true, true) => format!("{}+{}", fmt_map(&post.m), fmt_map(&post.m2)),
                };
                outcomes.push(format!("{}/{}/{}", nt as u8, fmt_msgs(&out), rest));
            }
            Err(_) => outcomes.push("panic".into()),
        }
    }
    let distinct: std::collections::BTreeSet<String> = outcomes.iter().cloned().collect();
    rec.count_n("enum:executions", n);
    rec.count_n("enum:distinct", distinct.len() as u64);
    if distinct.len() > 1 {
        rec.nontrivial();
    }
    format!("n={n} set={}", distinct.into_iter().collect::<Vec<_>>().join(" "))
}

// ---------------------------------------------------------------- generation

struct Gen {
    rng: Rng,
    next_val: V,
    keyed_bias: bool,
}
const KEYED_KINDS: [Kind; 6] = [Kind::KeyedTotal, Kind::KeyedNo, Kind::KeyedSingleton, Kind::TlKeyedOrder, Kind::TlPartial, Kind::TlKeyedMerge];
impl Gen {
    fn kind(&mut self) -> Kind {
        if self.keyed_bias && self.rng.chance(2, 3) { *self.rng.pick(&KEYED_KINDS) } else { *self.rng.pick(&ALL_KINDS) }
    }
    fn vals(&mut self, n: usize) -> Vec<V> {
        (0..n)
            .map(|_| {
                self.next_val += 1 + self.rng.below(2) as V;
                self.next_val
            })
            .collect()
    }
    fn tape(&mut self) -> Vec<u64> {
        let n = self.rng.below(9) as usize;
        let big = self.rng.chance(1, 6);
        (0..n).map(|_| if big { self.rng.below(1000) } else { self.rng.below(5) }).collect()
    }
    fn keys(&mut self, n: usize) -> Vec<K> {
        let mut ks: Vec<K> = vec![];
        while ks.len() < n {
            let k = if self.rng.chance(1, 4) { self.rng.below(100_000) as K } else { self.rng.below(12) as K };
            if !ks.contains(&k) {
                ks.push(k);
            }
        }
        ks
    }
    fn map(&mut self, nkeys: usize, maxq: usize, allow_empty: bool) -> KMapData {
        let ks = self.keys(nkeys);
        ks.into_iter()
            .map(|k| {
                let n = if allow_empty { self.rng.below(maxq as u64 + 1) } else { 1 + self.rng.below(maxq as u64) } as usize;
                (k, self.vals(n))
            })
            .collect()
    }
    fn new_op(&mut self, kind: Kind, size: usize) -> Op {
        let (mut q, mut q2, mut m, mut m2) = (vec![], vec![], vec![], vec![]);
        if kind.keyed() {
            // KeyedSingleton: an empty buffer for a never-released key cannot arise in the simulator
            let allow_empty = kind != Kind::KeyedSingleton || self.rng.chance(1, 40);
            m = self.map(size, 3, allow_empty);
            if kind.two() {
                let n2 = self.rng.below(3) as usize;
                m2 = self.map(n2, 3, true);
            }
        } else {
            q = self.vals(size);
            if kind.two() {
                let n2 = self.rng.below(4) as usize;
                q2 = self.vals(n2);
            }
        }
        Op::New { kind, q, q2, m, m2 }
    }
    /// feed more input to hook `i` (what the async DFIR does between ticks)
    fn feed(&mut self, case: &Case, i: usize) -> Op {
        let h = &case.slots[i].h;
        let second = h.kind.two() && self.rng.chance(1, 2);
        if h.kind.keyed() {
            let cur = observe_map(if second { h.m2.as_ref().unwrap() } else { h.m.as_ref().unwrap() });
            let mut entries = cur.clone();
            let n = 1 + self.rng.below(3) as usize;
            for _ in 0..n {
                if !entries.is_empty() && self.rng.chance(2, 3) {
                    let j = self.rng.below(entries.len() as u64) as usize;
                    let v = self.vals(1);
                    entries[j].1.extend(v);
                } else {
                    let k = self.keys(1)[0];
                    if !entries.iter().any(|e| e.0 == k) {
                        let v = self.vals(1);
                        entries.push((k, v));
                    }
                }
            }
            Op::Set { i, second, entries }
        } else {
            let n = 1 + self.rng.below(3) as usize;
            Op::Push { i, second, items: self.vals(n) }
        }
    }
}

fn small_tape(k: u64) -> Vec<u64> {
    // k-th tape over the alphabet {0,1,2,3}, shortest first
    let mut t = vec![];
    let mut k = k;
    let mut len = 0u32;
    let mut block = 1u64;
    while k >= block {
        k -= block;
        len += 1;
        block = 4u64.pow(len);
    }
    for _ in 0..len {
        t.push(k % 4);
        k /= 4;
    }
    t
}

fn run_ops(case: &mut Case, rec: &mut Recorder, ops: &[Op]) {
    for op in ops {
        if let Some((line, ans)) = case.exec(op, rec) {
            rec.line(&line, &ans);
        }
    }
}

fn gen_case_c36(idx: u64, g: &mut Gen, rec: &mut Recorder, cases: u64) {
    let mut case = Case::new();
    let exhaustive_n = if cases == 0 { 0 } else { (cases * 2 / 5).max(1) };
    if idx < exhaustive_n {
        // small scope, enumerated: kind × size × force × tape
        let kind = ALL_KINDS[(idx % 13) as usize];
        let size = ((idx / 13) % 4) as usize;
        let force = (idx / 52) % 2 == 1;
        let tape = small_tape(idx / 104);
        rec.case(idx, &format!("small kind={} size={size} force={}", kind.name(), force as u8));
        let new = g.new_op(kind, size);
        run_ops(&mut case, rec, &[new, Op::State(0), Op::Can(0), Op::Ready(0), Op::ObsCan(0), Op::Auto { i: 0, force, tape }, Op::Cur(0), Op::State(0), Op::Rel(0), Op::State(0)]);
        return;
    }
    if g.rng.chance(1, 40) {
        rec.case(idx, "malformed");
        let lines = ["new nosuch q=1", "auto 0 0 1", "rel 3", "push 0 q=x", "new streamTotal q=1,2", "auto 0 2 -", "set 0 m=1:2", "frob", "state 9", "run 1,,2"];
        let n = 1 + g.rng.below(4);
        for _ in 0..n {
            let l = *g.rng.pick(&lines);
            run_ops(&mut case, rec, &[parse_op(l)]);
        }
        return;
    }
    if g.rng.chance(1, 6) {
        // the in-tick order hooks: one decision on a fresh batch
        let kind = *g.rng.pick(&INLINE_KINDS);
        rec.case(idx, &format!("inline kind={}", kind.name()));
        let n = 1 + g.rng.below(3);
        for _ in 0..n {
            let (mut a, mut b, mut ap, mut bp) = (vec![], vec![], vec![], vec![]);
            let na = g.rng.below(5) as usize;
            let nb = g.rng.below(4) as usize;
            if kind.keyed() {
                let nk = 1 + g.rng.below(3) as usize;
                let ks = g.keys(nk);
                ap = g.vals(na).into_iter().map(|v| (*g.rng.pick(&ks), v)).collect();
                if kind.two() {
                    bp = g.vals(nb).into_iter().map(|v| (*g.rng.pick(&ks), v)).collect();
                }
            } else {
                a = g.vals(na);
                if kind.two() {
                    b = g.vals(nb);
                }
            }
            let tape = g.tape();
            run_ops(&mut case, rec, &[Op::Inline { kind, tape, a, b, ap, bp }]);
        }
        return;
    }
    if g.rng.chance(3, 5) {
        // one hook, several rounds of feed / decide / release
        let kind = g.kind();
        rec.case(idx, &format!("life kind={}", kind.name()));
        let size = g.rng.below(5) as usize;
        let new = g.new_op(kind, size);
        run_ops(&mut case, rec, &[new]);
        let rounds = 2 + g.rng.below(4);
        for _ in 0..rounds {
            if case.dead {
                break;
            }
            if g.rng.chance(2, 3) {
                let f = g.feed(&case, 0);
                run_ops(&mut case, rec, &[Op::State(0), f]);
            }
            let can = case.hooks[0].can_make_nontrivial_decision();
            let ready = case.hooks[0].is_ready();
            let force = if can { g.rng.chance(1, 2) } else { g.rng.chance(1, 25) };
            if !ready && !g.rng.chance(1, 20) {
                run_ops(&mut case, rec, &[Op::Ready(0), Op::Can(0)]);
                continue;
            }
            let tape = g.tape();
            run_ops(&mut case, rec, &[Op::Can(0), Op::Ready(0), Op::Auto { i: 0, force, tape }, Op::State(0), Op::Rel(0), Op::State(0)]);
        }
        if g.rng.chance(1, 15) {
            run_ops(&mut case, rec, &[Op::Rel(0)]);
        }
    } else {
        // a tick: several hooks resolved together by run_hooks
        let nh = 1 + g.rng.below(4) as usize;
        rec.case(idx, &format!("tick hooks={nh}"));
        for _ in 0..nh {
            let kind = g.kind();
            let size = g.rng.below(4) as usize;
            let new = g.new_op(kind, size);
            run_ops(&mut case, rec, &[new]);
        }
        let rounds = 1 + g.rng.below(4);
        for _ in 0..rounds {
            if case.dead {
                break;
            }
            for i in 0..nh {
                if g.rng.chance(1, 2) {
                    let f = g.feed(&case, i);
                    run_ops(&mut case, rec, &[f]);
                }
            }
            run_ops(&mut case, rec, &[Op::CanRun]);
            let n = case.hooks.len();
            let can_run = (0..n).all(|i| case.hooks[i].is_ready()) && (0..n).any(|i| case.can_release(i));
            if can_run || g.rng.chance(1, 20) {
                let tape = g.tape();
                run_ops(&mut case, rec, &[Op::Run { tape }]);
                for i in 0..nh {
                    run_ops(&mut case, rec, &[Op::State(i)]);
                }
            }
        }
    }
}

fn gen_case_c37(idx: u64, g: &mut Gen, rec: &mut Recorder) {
    let mut case = Case::new();
    let kind = ALL_KINDS[(idx % 13) as usize];
    let force = (idx / 13) % 2 == 1;
    let size = ((idx / 26) % 5) as usize;
    rec.case(idx, &format!("enum kind={} force={} size={size}", kind.name(), force as u8));
    let (mut q, mut q2, mut m, mut m2) = (vec![], vec![], vec![], vec![]);
    if kind.keyed() {
        let nk = size.min(3);
        // KeyedSingleton: an empty buffer for a never-released key cannot arise (and panics mid-search)
        m = g.map(nk, if nk >= 3 { 2 } else { 3 }, kind != Kind::KeyedSingleton);
        if kind.two() {
            let n2 = g.rng.below(3) as usize;
            m2 = g.map(n2, 2, true);
        }
    } else {
        let size = if kind == Kind::TlFold { size.min(4) } else { size };
        q = g.vals(size);
        if kind.two() {
            let n2 = g.rng.below(4) as usize;
            q2 = g.vals(n2);
        }
    }
    run_ops(&mut case, rec, &[Op::Enum { kind, force, q, q2, m, m2 }]);
}

/// C38 oracle on the real code: replay the op lines the case just performed on *fresh* hooks (same
/// process) and require the same answers — decision logs (`calls=`), outputs, verdicts (`panic`).
fn replay_oracle(rec: &mut Recorder, start: usize, istart: usize) {
    let ops: Vec<String> = rec.ops[start..].lines().map(|l| l.to_string()).collect();
    let imp: Vec<String> = rec.imp[istart..].lines().map(|l| l.to_string()).collect();
    let mut scratch = Recorder::new("");
    let mut case = Case::new();
    for (i, l) in ops.iter().enumerate() {
        if l.starts_with("#case") {
            continue;
        }
        match case.exec(&parse_op(l), &mut scratch) {
            None => break,
            Some((line, ans)) => {
                if line != *l {
                    // the keyed input could not be rebuilt with the same iteration order: not comparable
                    rec.count("replay:order-not-reproducible");
                    return;
                }
                rec.check(ans == imp[i], "replay-diverged@sim-hooks", &format!("line `{l}`: first run `{}` replay `{ans}`", imp[i]));
                if ans != imp[i] {
                    return;
                }
            }
        }
    }
    rec.count("replay:compared");
}

fn main() {
    let a = Args::parse();
    quiet_panics();
    let rule = match a.mode.as_str() {
        "c36" | "c38" => "a decision released at least one new item / snapshot",
        "c37" => "the decision space has more than one distinct outcome",
        m => {
            eprintln!("unknown mode {m}");
            std::process::exit(2)
        }
    };
    let mut rec = Recorder::new(rule);
    // C38: perturb the heap layout of this process (`--pad N`), so that two runs differ in addresses
    let pad: usize = a.extra.get("pad").and_then(|v| v.parse().ok()).unwrap_or(0);
    let _junk: Vec<Vec<u8>> = (0..pad % 97).map(|i| vec![i as u8; 1 + (pad * (i + 1)) % 4093]).collect();
    if let Some(rp) = &a.replay {
        let mut case = Case::new();
        for l in read_lines(rp) {
            if l.starts_with("#case") {
                let mut it = l.splitn(3, ' ');
                it.next();
                let n: u64 = it.next().and_then(|x| x.parse().ok()).unwrap_or(0);
                rec.case(n, it.next().unwrap_or(""));
                case = Case::new();
                continue;
            }
            let op = parse_op(&l);
            run_ops(&mut case, &mut rec, &[op]);
        }
    } else {
        let root = Rng::new(a.seed);
        for idx in 0..a.cases {
            let mut g = Gen { rng: root.fork(idx), next_val: 0, keyed_bias: false };
            match a.mode.as_str() {
                "c37" => gen_case_c37(idx, &mut g, &mut rec),
                "c38" => {
                    let start = rec.ops.len();
                    let istart = rec.imp.len();
                    g.keyed_bias = true;
                    // the C36 oracles are not C38's property (a panic is a verdict that must replay too)
                    let (plen, pf) = (rec.prop.len(), rec.prop_failures);
                    gen_case_c36(idx, &mut g, &mut rec, 0);
                    rec.prop.truncate(plen);
                    rec.prop_failures = pf;
                    replay_oracle(&mut rec, start, istart);
                }
                _ => gen_case_c36(idx, &mut g, &mut rec, a.cases),
            }
        }
    }
    rec.finish(&a.out);
}
