//! Scripted bolero driver: a choice tape.  Every `gen_*` call the hooks make consumes one tape
//! entry `x` and answers `lo + x % (hi - lo + 1)` (bool: `x % 2 == 1`); an exhausted tape answers
//! as if `x = 0`; an empty range answers `None`.  Every call is logged (`u<lo>:<hi>:<v>` / `b<0|1>`).
use std::cell::RefCell;
use std::ops::Bound;
use std::rc::Rc;

use bolero::generator::bolero_generator::driver::object::DynDriver;

pub struct Tape {
    pub tape: Vec<u64>,
    pub pos: usize,
    pub log: Rc<RefCell<Vec<String>>>,
}

impl Tape {
    pub fn new(tape: Vec<u64>) -> (Tape, Rc<RefCell<Vec<String>>>) {
        let log = Rc::new(RefCell::new(Vec::new()));
        (Tape { tape, pos: 0, log: log.clone() }, log)
    }
    fn next(&mut self) -> u64 {
        let x = self.tape.get(self.pos).copied().unwrap_or(0);
        self.pos += 1;
        x
    }
    fn range(&mut self, lo: Option<u128>, hi: Option<u128>) -> Option<u128> {
        let (lo, hi) = (lo?, hi?);
        if hi < lo {
            // the hooks `unwrap()` the answer: this is a panic of the real code
            self.log.borrow_mut().push(format!("u{lo}:{hi}:none"));
            return None;
        }
        let x = self.next() as u128;
        let v = lo + x % (hi - lo + 1);
        self.log.borrow_mut().push(format!("u{lo}:{hi}:{v}"));
        Some(v)
    }
}

fn lo_of<T: Copy + Into<u128>>(b: Bound<&T>) -> Option<u128> {
    match b {
        Bound::Included(x) => Some((*x).into()),
        Bound::Excluded(x) => Some((*x).into() + 1),
        Bound::Unbounded => Some(0),
    }
}
fn hi_of<T: Copy + Into<u128>>(b: Bound<&T>, max: u128) -> Option<u128> {
    match b {
        Bound::Included(x) => Some((*x).into()),
        Bound::Excluded(x) => {
            let v: u128 = (*x).into();
            // `(a..0)`: empty range; signal with hi < lo by returning None-like sentinel handled by caller
            if v == 0 { None } else { Some(v - 1) }
        }
        Bound::Unbounded => Some(max),
    }
}

macro_rules! unsigned {
    ($name:ident, $ty:ty) => {
        fn $name(&mut self, min: Bound<&$ty>, max: Bound<&$ty>) -> Option<$ty> {
            let lo = lo_of(min.map(|v| v));
            let hi = hi_of(max.map(|v| v), <$ty>::MAX as u128);
            if hi.is_none() {
                self.log.borrow_mut().push("u:empty".to_string());
                return None;
            }
            self.range(lo, hi).map(|v| v as $ty)
        }
    };
}
macro_rules! unsupported {
    ($name:ident, $ty:ty) => {
        fn $name(&mut self, _min: Bound<&$ty>, _max: Bound<&$ty>) -> Option<$ty> {
            self.log.borrow_mut().push(concat!("unsupported-", stringify!($name)).to_string());
            None
        }
    };
}

impl DynDriver for Tape {
    fn depth(&self) -> usize {
        0
    }
    fn set_depth(&mut self, _depth: usize) {}
    fn max_depth(&self) -> usize {
        8
    }
    fn gen_variant(&mut self, variants: usize, _base_case: usize) -> Option<usize> {
        if variants == 0 {
            return None;
        }
        self.range(Some(0), Some(variants as u128 - 1)).map(|v| v as usize)
    }
    unsigned!(gen_u8, u8);
    unsigned!(gen_u16, u16);
    unsigned!(gen_u32, u32);
    unsigned!(gen_u64, u64);
    fn gen_usize(&mut self, min: Bound<&usize>, max: Bound<&usize>) -> Option<usize> {
        let lo = match min {
            Bound::Included(x) => *x as u128,
            Bound::Excluded(x) => *x as u128 + 1,
            Bound::Unbounded => 0,
        };
        let hi = match max {
            Bound::Included(x) => *x as u128,
            Bound::Excluded(x) => {
                if *x == 0 {
                    self.log.borrow_mut().push("u:empty".to_string());
                    return None;
                }
                *x as u128 - 1
            }
            Bound::Unbounded => usize::MAX as u128,
        };
        self.range(Some(lo), Some(hi)).map(|v| v as usize)
    }
    fn gen_u128(&mut self, _min: Bound<&u128>, _max: Bound<&u128>) -> Option<u128> {
        self.log.borrow_mut().push("unsupported-gen_u128".to_string());
        None
    }
    unsupported!(gen_i8, i8);
    unsupported!(gen_i16, i16);
    unsupported!(gen_i32, i32);
    unsupported!(gen_i64, i64);
    unsupported!(gen_i128, i128);
    unsupported!(gen_isize, isize);
    unsupported!(gen_f32, f32);
    unsupported!(gen_f64, f64);
    unsupported!(gen_char, char);
    fn gen_bool(&mut self, _probability: Option<f32>) -> Option<bool> {
        let x = self.next();
        let v = x % 2 == 1;
        self.log.borrow_mut().push(format!("b{}", v as u8));
        Some(v)
    }
    fn gen_from_bytes(
        &mut self,
        _hint: &mut dyn FnMut() -> (usize, Option<usize>),
        _produce: &mut dyn FnMut(&[u8]) -> Option<usize>,
    ) -> Option<()> {
        self.log.borrow_mut().push("unsupported-gen_from_bytes".to_string());
        None
    }
}

// ---------------------------------------------------------------- logging wrapper (C37 `enumrun`)

/// A driver that forwards every request to `inner` (bolero's *real* exhaustive driver) and logs the
/// requested range and the answer in the format of [`Tape`]; `tape()` turns the log of one execution
/// into the choice tape (`v - lo` per call) on which the model must reproduce that execution.
pub struct LogDrv<D: DynDriver> {
    pub inner: D,
    pub log: Vec<String>,
    pub tape: Vec<u64>,
}

impl<D: DynDriver> LogDrv<D> {
    pub fn new(inner: D) -> Self {
        LogDrv { inner, log: vec![], tape: vec![] }
    }
    pub fn reset(&mut self) {
        self.log.clear();
        self.tape.clear();
    }
    fn note(&mut self, lo: Option<u128>, hi: Option<u128>, v: Option<u128>) {
        match (lo, hi, v) {
            (Some(lo), Some(hi), Some(v)) => {
                self.log.push(format!("u{lo}:{hi}:{v}"));
                self.tape.push(v.saturating_sub(lo) as u64);
            }
            (Some(lo), Some(hi), None) => self.log.push(format!("u{lo}:{hi}:none")),
            _ => self.log.push("u:empty".to_string()),
        }
    }
}

macro_rules! logged_unsigned {
    ($name:ident, $ty:ty) => {
        fn $name(&mut self, min: Bound<&$ty>, max: Bound<&$ty>) -> Option<$ty> {
            let r = self.inner.$name(min, max);
            let lo = match min {
                Bound::Included(x) => Some(*x as u128),
                Bound::Excluded(x) => Some(*x as u128 + 1),
                Bound::Unbounded => Some(0),
            };
            let hi = match max {
                Bound::Included(x) => Some(*x as u128),
                Bound::Excluded(x) => (*x as u128).checked_sub(1),
                Bound::Unbounded => Some(<$ty>::MAX as u128),
            };
            self.note(lo, hi, r.map(|v| v as u128));
            r
        }
    };
}
macro_rules! logged_other {
    ($name:ident, $ty:ty) => {
        fn $name(&mut self, min: Bound<&$ty>, max: Bound<&$ty>) -> Option<$ty> {
            self.log.push(concat!("other-", stringify!($name)).to_string());
            self.inner.$name(min, max)
        }
    };
}

impl<D: DynDriver> DynDriver for LogDrv<D> {
    fn depth(&self) -> usize {
        self.inner.depth()
    }
    fn set_depth(&mut self, depth: usize) {
        self.inner.set_depth(depth)
    }
    fn max_depth(&self) -> usize {
        self.inner.max_depth()
    }
    fn gen_variant(&mut self, variants: usize, base_case: usize) -> Option<usize> {
        let r = self.inner.gen_variant(variants, base_case);
        self.note(Some(0), (variants as u128).checked_sub(1), r.map(|v| v as u128));
        r
    }
    logged_unsigned!(gen_u8, u8);
    logged_unsigned!(gen_u16, u16);
    logged_unsigned!(gen_u32, u32);
    logged_unsigned!(gen_u64, u64);
    logged_unsigned!(gen_usize, usize);
    logged_other!(gen_u128, u128);
    logged_other!(gen_i8, i8);
    logged_other!(gen_i16, i16);
    logged_other!(gen_i32, i32);
    logged_other!(gen_i64, i64);
    logged_other!(gen_i128, i128);
    logged_other!(gen_isize, isize);
    logged_other!(gen_f32, f32);
    logged_other!(gen_f64, f64);
    logged_other!(gen_char, char);
    fn gen_bool(&mut self, probability: Option<f32>) -> Option<bool> {
        let r = self.inner.gen_bool(probability);
        match r {
            Some(v) => {
                self.log.push(format!("b{}", v as u8));
                self.tape.push(v as u64);
            }
            None => self.log.push("b:none".to_string()),
        }
        r
    }
    fn gen_from_bytes(
        &mut self,
        hint: &mut dyn FnMut() -> (usize, Option<usize>),
        produce: &mut dyn FnMut(&[u8]) -> Option<usize>,
    ) -> Option<()> {
        self.log.push("other-gen_from_bytes".to_string());
        self.inner.gen_from_bytes(hint, produce)
    }
}
