//! The real simulator hooks (`hydro_lang::sim::runtime`) wired to inspectable queues/channels.
use std::cell::RefCell;
use std::collections::VecDeque;
use std::rc::Rc;
use std::task::{Context, Poll, Waker};

use dfir_rs::rustc_hash::FxHashMap;
use dfir_rs::util::unsync::mpsc::{Receiver, unbounded};
use hydro_lang::live_collections::stream::{NoOrder, TotalOrder};
use hydro_lang::sim::runtime::*;

pub type K = u32;
pub type V = u32;
pub type Q = Rc<RefCell<VecDeque<V>>>;
pub type M = Rc<RefCell<FxHashMap<K, VecDeque<V>>>>;

#[derive(Clone, Copy, PartialEq, Eq, Debug)]
pub enum Kind {
    StreamTotal,
    StreamNo,
    KeyedTotal,
    KeyedNo,
    Singleton,
    Passthrough,
    KeyedSingleton,
    TlOrder,
    TlFold,
    TlKeyedOrder,
    TlPartial,
    TlMerge,
    TlKeyedMerge,
}
pub const ALL_KINDS: [Kind; 13] = [
    Kind::StreamTotal,
    Kind::StreamNo,
    Kind::KeyedTotal,
    Kind::KeyedNo,
    Kind::Singleton,
    Kind::Passthrough,
    Kind::KeyedSingleton,
    Kind::TlOrder,
    Kind::TlFold,
    Kind::TlKeyedOrder,
    Kind::TlPartial,
    Kind::TlMerge,
    Kind::TlKeyedMerge,
];
impl Kind {
    pub fn name(self) -> &'static str {
        match self {
            Kind::StreamTotal => "streamTotal",
            Kind::StreamNo => "streamNo",
            Kind::KeyedTotal => "keyedTotal",
            Kind::KeyedNo => "keyedNo",
            Kind::Singleton => "singleton",
            Kind::Passthrough => "passthrough",
            Kind::KeyedSingleton => "keyedSingleton",
            Kind::TlOrder => "tlOrder",
            Kind::TlFold => "tlFold",
            Kind::TlKeyedOrder => "tlKeyedOrder",
            Kind::TlPartial => "tlPartial",
            Kind::TlMerge => "tlMerge",
            Kind::TlKeyedMerge => "tlKeyedMerge",
        }
    }
    pub fn parse(s: &str) -> Option<Kind> {
        ALL_KINDS.iter().copied().find(|k| k.name() == s)
    }
    pub fn keyed(self) -> bool {
        matches!(
            self,
            Kind::KeyedTotal | Kind::KeyedNo | Kind::KeyedSingleton | Kind::TlKeyedOrder | Kind::TlPartial | Kind::TlKeyedMerge
        )
    }
    pub fn two(self) -> bool {
        matches!(self, Kind::TlMerge | Kind::TlKeyedMerge)
    }
    /// code site used in oracle signatures
    pub fn site(self) -> &'static str {
        match self {
            Kind::StreamTotal => "StreamHook<TotalOrder>",
            Kind::StreamNo => "StreamHook<NoOrder>",
            Kind::KeyedTotal => "KeyedStreamHook<TotalOrder>",
            Kind::KeyedNo => "KeyedStreamHook<NoOrder>",
            Kind::Singleton => "SingletonHook",
            Kind::Passthrough => "PassthroughSingletonHook",
            Kind::KeyedSingleton => "KeyedSingletonHook",
            Kind::TlOrder => "TopLevelStreamOrderHook",
            Kind::TlFold => "TopLevelFoldHook",
            Kind::TlKeyedOrder => "TopLevelKeyedStreamOrderHook",
            Kind::TlPartial => "TopLevelPartiallyOrderedStreamHook",
            Kind::TlMerge => "TopLevelMergeOrderedHook",
            Kind::TlKeyedMerge => "TopLevelKeyedMergeOrderedHook",
        }
    }
}

pub enum OutRx {
    Item(Receiver<V>),
    Kv(Receiver<(K, V)>),
    Batch(Receiver<Vec<V>>),
}

/// one message on a hook's output channel
#[derive(Clone, Debug, PartialEq, Eq)]
pub enum Msg {
    Item(V),
    Kv(K, V),
    Batch(Vec<V>),
}

fn drain<T>(rx: &mut Receiver<T>) -> Vec<T> {
    let mut out = vec![];
    let mut cx = Context::from_waker(Waker::noop());
    while let Poll::Ready(Some(x)) = rx.poll_recv(&mut cx) {
        out.push(x);
    }
    out
}

impl OutRx {
    pub fn drain(&mut self) -> Vec<Msg> {
        match self {
            OutRx::Item(r) => drain(r).into_iter().map(Msg::Item).collect(),
            OutRx::Kv(r) => drain(r).into_iter().map(|(k, v)| Msg::Kv(k, v)).collect(),
            OutRx::Batch(r) => drain(r).into_iter().map(Msg::Batch).collect(),
        }
    }
}

/// harness-side handle: the shared input buffers and the output receiver of one hook
pub struct Handle {
    pub kind: Kind,
    pub q: Option<Q>,
    pub q2: Option<Q>,
    pub m: Option<M>,
    pub m2: Option<M>,
    pub out: OutRx,
}

pub type KMapData = Vec<(K, Vec<V>)>;

fn mkq(items: &[V]) -> Q {
    Rc::new(RefCell::new(items.iter().copied().collect()))
}
fn build(entries: &[&(K, Vec<V>)]) -> FxHashMap<K, VecDeque<V>> {
    let mut m: FxHashMap<K, VecDeque<V>> = FxHashMap::default();
    for (k, vs) in entries {
        m.entry(*k).or_default().extend(vs.iter().copied());
    }
    m
}
#[expect(clippy::disallowed_methods, reason = "iteration order is exactly what is observed")]
fn key_order(m: &FxHashMap<K, VecDeque<V>>) -> Vec<K> {
    m.keys().copied().collect()
}
fn permute(n: usize, idx: &mut Vec<usize>, used: &mut Vec<bool>, f: &mut dyn FnMut(&[usize]) -> bool) -> bool {
    if idx.len() == n {
        return f(idx);
    }
    for i in 0..n {
        if !used[i] {
            used[i] = true;
            idx.push(i);
            if permute(n, idx, used, f) {
                return true;
            }
            idx.pop();
            used[i] = false;
        }
    }
    false
}
/// Build the map so that it *iterates* in the order of `entries` when some insertion order achieves
/// that (op lines carry the observed iteration order: this makes replaying a line reproduce the
/// state it was recorded from); otherwise insert in the given order.
fn mkm(entries: &KMapData) -> M {
    let want: Vec<K> = entries.iter().map(|e| e.0).collect();
    let direct = build(&entries.iter().collect::<Vec<_>>());
    if key_order(&direct) == want || entries.len() > 6 {
        return Rc::new(RefCell::new(direct));
    }
    let mut found = None;
    permute(entries.len(), &mut vec![], &mut vec![false; entries.len()], &mut |p| {
        let m = build(&p.iter().map(|i| &entries[*i]).collect::<Vec<_>>());
        if key_order(&m) == want {
            found = Some(m);
            true
        } else {
            false
        }
    });
    Rc::new(RefCell::new(found.unwrap_or(direct)))
}

#[expect(clippy::disallowed_methods, reason = "iteration order is exactly what is observed")]
pub fn observe_map(m: &M) -> KMapData {
    m.borrow().iter().map(|(k, q)| (*k, q.iter().copied().collect())).collect()
}
pub fn observe_q(q: &Q) -> Vec<V> {
    q.borrow().iter().copied().collect()
}

const LOC: (&str, &str, &str) = ("harness.rs:1:1", " batch", " ");
fn fmt_v(v: &V) -> Option<String> {
    Some(format!("{v}"))
}
fn fmt_kv(v: &(K, V)) -> Option<String> {
    Some(format!("{v:?}"))
}

/// create a real hook of `kind` with the given initial contents
pub fn make(kind: Kind, q: &[V], q2: &[V], m: &KMapData, m2: &KMapData) -> (Box<dyn SimHook>, Handle) {
    match kind {
        Kind::StreamTotal => {
            let (tx, rx) = unbounded();
            let qq = mkq(q);
            let h = StreamHook::<V, TotalOrder> {
                input: qq.clone(),
                to_release: None,
                output: tx,
                batch_location: LOC,
                format_item_debug: fmt_v,
                _order: std::marker::PhantomData,
            };
            (Box::new(h), Handle { kind, q: Some(qq), q2: None, m: None, m2: None, out: OutRx::Item(rx) })
        }
        Kind::StreamNo => {
            let (tx, rx) = unbounded();
            let qq = mkq(q);
            let h = StreamHook::<V, NoOrder> {
                input: qq.clone(),
                to_release: None,
                output: tx,
                batch_location: LOC,
                format_item_debug: fmt_v,
                _order: std::marker::PhantomData,
            };
            (Box::new(h), Handle { kind, q: Some(qq), q2: None, m: None, m2: None, out: OutRx::Item(rx) })
        }
        Kind::KeyedTotal => {
            let (tx, rx) = unbounded();
            let mm = mkm(m);
            let h = KeyedStreamHook::<K, V, TotalOrder> {
                input: mm.clone(),
                to_release: None,
                output: tx,
                batch_location: LOC,
                format_item_debug: fmt_kv,
                _order: std::marker::PhantomData,
            };
            (Box::new(h), Handle { kind, q: None, q2: None, m: Some(mm), m2: None, out: OutRx::Kv(rx) })
        }
        Kind::KeyedNo => {
            let (tx, rx) = unbounded();
            let mm = mkm(m);
            let h = KeyedStreamHook::<K, V, NoOrder> {
                input: mm.clone(),
                to_release: None,
                output: tx,
                batch_location: LOC,
                format_item_debug: fmt_kv,
                _order: std::marker::PhantomData,
            };
            (Box::new(h), Handle { kind, q: None, q2: None, m: Some(mm), m2: None, out: OutRx::Kv(rx) })
        }
        Kind::Singleton => {
            let (tx, rx) = unbounded();
            let qq = mkq(q);
            let h = SingletonHook::<V>::new(qq.clone(), tx, LOC, fmt_v);
            (Box::new(h), Handle { kind, q: Some(qq), q2: None, m: None, m2: None, out: OutRx::Item(rx) })
        }
        Kind::Passthrough => {
            let (tx, rx) = unbounded();
            let qq = mkq(q);
            let h = PassthroughSingletonHook::<V>::new(qq.clone(), tx, LOC, fmt_v);
            (Box::new(h), Handle { kind, q: Some(qq), q2: None, m: None, m2: None, out: OutRx::Item(rx) })
        }
        Kind::KeyedSingleton => {
            let (tx, rx) = unbounded();
            let mm = mkm(m);
            let h = KeyedSingletonHook::<K, V>::new(mm.clone(), tx, LOC, fmt_v, fmt_v);
            (Box::new(h), Handle { kind, q: None, q2: None, m: Some(mm), m2: None, out: OutRx::Kv(rx) })
        }
        Kind::TlOrder => {
            let (tx, rx) = unbounded();
            let qq = mkq(q);
            let h = TopLevelStreamOrderHook::<V> {
                input: qq.clone(),
                to_release: None,
                output: tx,
                location: LOC,
                format_item_debug: fmt_v,
            };
            (Box::new(h), Handle { kind, q: Some(qq), q2: None, m: None, m2: None, out: OutRx::Item(rx) })
        }
        Kind::TlFold => {
            let (tx, rx) = unbounded();
            let qq = mkq(q);
            let h = TopLevelFoldHook::<V> {
                input: qq.clone(),
                to_release: None,
                output: tx,
                location: LOC,
                format_item_debug: fmt_v,
            };
            (Box::new(h), Handle { kind, q: Some(qq), q2: None, m: None, m2: None, out: OutRx::Batch(rx) })
        }
        Kind::TlKeyedOrder => {
            let (tx, rx) = unbounded();
            let mm = mkm(m);
            let h = TopLevelKeyedStreamOrderHook::<K, V> {
                input: mm.clone(),
                to_release: None,
                output: tx,
                location: LOC,
                format_item_debug: fmt_kv,
            };
            (Box::new(h), Handle { kind, q: None, q2: None, m: Some(mm), m2: None, out: OutRx::Kv(rx) })
        }
        Kind::TlPartial => {
            let (tx, rx) = unbounded();
            let mm = mkm(m);
            let h = TopLevelPartiallyOrderedStreamHook::<K, V> {
                input: mm.clone(),
                to_release: None,
                output: tx,
                location: LOC,
                format_item_debug: fmt_kv,
            };
            (Box::new(h), Handle { kind, q: None, q2: None, m: Some(mm), m2: None, out: OutRx::Kv(rx) })
        }
        Kind::TlMerge => {
            let (tx, rx) = unbounded();
            let (a, b) = (mkq(q), mkq(q2));
            let h = TopLevelMergeOrderedHook::<V> {
                first: a.clone(),
                second: b.clone(),
                to_release: None,
                release_source: None,
                output: tx,
                location: LOC,
                format_item_debug: fmt_v,
            };
            (Box::new(h), Handle { kind, q: Some(a), q2: Some(b), m: None, m2: None, out: OutRx::Item(rx) })
        }
        Kind::TlKeyedMerge => {
            let (tx, rx) = unbounded();
            let (a, b) = (mkm(m), mkm(m2));
            let h = TopLevelKeyedMergeOrderedHook::<K, V> {
                first: a.clone(),
                second: b.clone(),
                to_release: None,
                release_source: None,
                output: tx,
                location: LOC,
                format_item_debug: fmt_kv,
            };
            (Box::new(h), Handle { kind, q: None, q2: None, m: Some(a), m2: Some(b), out: OutRx::Kv(rx) })
        }
    }
}

// ---------------------------------------------------------------- inline (in-tick) order hooks

#[derive(Clone, Copy, PartialEq, Eq, Debug)]
pub enum InlineKind {
    SOrder,
    Merge,
    KOrder,
    POrder,
    KMerge,
}
pub const INLINE_KINDS: [InlineKind; 5] = [InlineKind::SOrder, InlineKind::Merge, InlineKind::KOrder, InlineKind::POrder, InlineKind::KMerge];
impl InlineKind {
    pub fn name(self) -> &'static str {
        match self {
            InlineKind::SOrder => "sOrder",
            InlineKind::Merge => "merge",
            InlineKind::KOrder => "kOrder",
            InlineKind::POrder => "pOrder",
            InlineKind::KMerge => "kMerge",
        }
    }
    pub fn parse(s: &str) -> Option<InlineKind> {
        INLINE_KINDS.iter().copied().find(|k| k.name() == s)
    }
    pub fn keyed(self) -> bool {
        !matches!(self, InlineKind::SOrder | InlineKind::Merge)
    }
    pub fn two(self) -> bool {
        matches!(self, InlineKind::Merge | InlineKind::KMerge)
    }
    pub fn site(self) -> &'static str {
        match self {
            InlineKind::SOrder => "StreamOrderHook",
            InlineKind::Merge => "MergeOrderedHook",
            InlineKind::KOrder => "KeyedStreamOrderHook",
            InlineKind::POrder => "PartiallyOrderedStreamHook",
            InlineKind::KMerge => "KeyedMergeOrderedHook",
        }
    }
}

pub enum InlineOut {
    Items(Receiver<Vec<V>>),
    Pairs(Receiver<Vec<(K, V)>>),
}

/// the iteration orders of the two internal maps of `KeyedStreamOrderHook::autonomous_decision`,
/// reproduced by performing the same insertions on maps of the same type
#[expect(clippy::disallowed_methods, reason = "iteration order is exactly what is observed")]
pub fn keyed_order_maps(inputs: &[(K, V)]) -> (Vec<K>, Vec<K>) {
    let mut grouped: FxHashMap<K, Vec<V>> = FxHashMap::default();
    for (k, v) in inputs.iter().copied() {
        grouped.entry(k).or_insert_with(Vec::new).push(v);
    }
    let go: Vec<K> = grouped.keys().copied().collect();
    let mut out: FxHashMap<K, Vec<V>> = FxHashMap::default();
    for (k, vs) in grouped {
        out.insert(k, vs);
    }
    let oo: Vec<K> = out.keys().copied().collect();
    (go, oo)
}

pub fn make_inline(kind: InlineKind, a: &[V], b: &[V], ap: &[(K, V)], bp: &[(K, V)]) -> (Box<dyn SimInlineHook>, InlineOut) {
    match kind {
        InlineKind::SOrder => {
            let (tx, rx) = unbounded();
            let h = StreamOrderHook::<V>::new(Rc::new(RefCell::new(Some(a.to_vec()))), tx, LOC, fmt_v);
            (Box::new(h), InlineOut::Items(rx))
        }
        InlineKind::Merge => {
            let (tx, rx) = unbounded();
            let h = MergeOrderedHook::<V>::new(
                Rc::new(RefCell::new(Some(a.to_vec()))),
                Rc::new(RefCell::new(Some(b.to_vec()))),
                tx,
                LOC,
                fmt_v,
            );
            (Box::new(h), InlineOut::Items(rx))
        }
        InlineKind::KOrder => {
            let (tx, rx) = unbounded();
            let h = KeyedStreamOrderHook::<K, V>::new(Rc::new(RefCell::new(Some(ap.to_vec()))), tx, LOC, fmt_v, fmt_v);
            (Box::new(h), InlineOut::Pairs(rx))
        }
        InlineKind::POrder => {
            let (tx, rx) = unbounded();
            let h = PartiallyOrderedStreamHook::<K, V>::new(Rc::new(RefCell::new(Some(ap.to_vec()))), tx, LOC, fmt_v, fmt_v);
            (Box::new(h), InlineOut::Pairs(rx))
        }
        InlineKind::KMerge => {
            let (tx, rx) = unbounded();
            let h = KeyedMergeOrderedHook::<K, V>::new(
                Rc::new(RefCell::new(Some(ap.to_vec()))),
                Rc::new(RefCell::new(Some(bp.to_vec()))),
                tx,
                LOC,
                fmt_kv,
            );
            (Box::new(h), InlineOut::Pairs(rx))
        }
    }
}

pub fn drain_vec<T>(rx: &mut Receiver<Vec<T>>) -> Vec<Vec<T>> {
    drain(rx)
}

// ---------------------------------------------------------------- recording wrapper around a real hook

/// one call `run_hooks` (or the harness) made on a hook: `a<i>:<force>:<returned flag>` / `r<i>`
#[derive(Clone, Copy, Debug, PartialEq, Eq)]
pub enum Ev {
    Auto(usize, bool, bool),
    Rel(usize),
}
pub type EvLog = Rc<RefCell<Vec<Ev>>>;

pub fn fmt_evs(evs: &[Ev]) -> String {
    if evs.is_empty() {
        return "-".into();
    }
    evs.iter()
        .map(|e| match e {
            Ev::Auto(i, f, nt) => format!("a{i}:{}:{}", *f as u8, *nt as u8),
            Ev::Rel(i) => format!("r{i}"),
        })
        .collect::<Vec<_>>()
        .join(",")
}

/// The real hook behind a `SimHook` that forwards every call and records, for the calls that take a
/// decision, which hook was called with which `force_nontrivial` and what it answered.  This is what
/// the *real* `run_hooks` gets in its slice, so the forcing flag of each of its calls is observable.
pub struct Spy {
    pub i: usize,
    pub inner: Box<dyn SimHook>,
    pub ev: EvLog,
}

impl SimHook for Spy {
    fn current_decision(&self) -> Option<bool> {
        self.inner.current_decision()
    }
    fn can_make_nontrivial_decision(&self) -> bool {
        self.inner.can_make_nontrivial_decision()
    }
    fn autonomous_decision<'a>(
        &mut self,
        driver: &mut bolero::generator::bolero_generator::driver::object::Borrowed<'a>,
        force_nontrivial: bool,
    ) -> bool {
        let nt = self.inner.autonomous_decision(driver, force_nontrivial);
        self.ev.borrow_mut().push(Ev::Auto(self.i, force_nontrivial, nt));
        nt
    }
    fn release_decision(&mut self, log_writer: Option<&mut dyn std::fmt::Write>) {
        self.ev.borrow_mut().push(Ev::Rel(self.i));
        self.inner.release_decision(log_writer)
    }
    fn is_ready(&self) -> bool {
        self.inner.is_ready()
    }
}
