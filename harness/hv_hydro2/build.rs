//! Compiles the flows of `hv_hydro2_flows` through the production Hydro -> DFIR code generator
//! (the `hydro_test_embedded` pattern) into `$OUT_DIR/<name>.rs`.
use hydro_lang::location::Location;

macro_rules! gen1 {
    ($out_dir:expr, $file:literal, $fname:literal, $f:path, [$($inp:literal),*]) => {{
        let mut flow = hydro_lang::compile::builder::FlowBuilder::new();
        let process = flow.process::<()>();
        $f($(process.embedded_input($inp)),*);
        let code = flow.with_process(&process, $fname).generate_embedded("hv_hydro2_flows");
        std::fs::write(format!("{}/{}.rs", $out_dir, $file), prettyplease::unparse(&code)).unwrap();
    }};
}

fn main() {
    println!("cargo::rerun-if-changed=build.rs");
    let out_dir = std::env::var("OUT_DIR").unwrap();
    use hv_hydro2_flows::c32;
    gen1!(out_dir, "c32_max_tick", "max_tick", c32::max_tick, ["input"]);
    gen1!(out_dir, "c32_min_tick", "min_tick", c32::min_tick, ["input"]);
    gen1!(out_dir, "c32_first_tick", "first_tick", c32::first_tick, ["input"]);
    gen1!(out_dir, "c32_last_tick", "last_tick", c32::last_tick, ["input"]);
    gen1!(out_dir, "c32_count_tick", "count_tick", c32::count_tick, ["input"]);
    gen1!(out_dir, "c32_is_empty_tick", "is_empty_tick", c32::is_empty_tick, ["input"]);
    gen1!(out_dir, "c32_max_top", "max_top", c32::max_top, ["input"]);
    gen1!(out_dir, "c32_min_top", "min_top", c32::min_top, ["input"]);
    gen1!(out_dir, "c32_first_top", "first_top", c32::first_top, ["input"]);
    gen1!(out_dir, "c32_last_top", "last_top", c32::last_top, ["input"]);
    gen1!(out_dir, "c32_count_top", "count_top", c32::count_top, ["input"]);
    gen1!(out_dir, "c32_vcount_tick", "vcount_tick", c32::vcount_tick, ["input"]);
    gen1!(out_dir, "c32_vcount_top", "vcount_top", c32::vcount_top, ["input"]);
    gen1!(out_dir, "c32_intosing_tick", "intosing_tick", c32::intosing_tick, ["input"]);
    gen1!(out_dir, "c32_intosing_top", "intosing_top", c32::intosing_top, ["input"]);
    gen1!(out_dir, "c32_intosing_mono", "intosing_mono", c32::intosing_mono, ["input"]);
    gen1!(out_dir, "c32_maxkey_tick", "maxkey_tick", c32::maxkey_tick, ["input"]);
    gen1!(out_dir, "c32_maxkey_top", "maxkey_top", c32::maxkey_top, ["input"]);
    gen1!(out_dir, "c32_keycount_tick", "keycount_tick", c32::keycount_tick, ["input"]);
    gen1!(out_dir, "c32_keycount_top", "keycount_top", c32::keycount_top, ["input"]);
    gen1!(out_dir, "c32_keycount_mono", "keycount_mono", c32::keycount_mono, ["input"]);
    gen1!(out_dir, "c32_cast_stream", "cast_stream", c32::cast_stream, ["input"]);
    gen1!(out_dir, "c32_cast_keyed", "cast_keyed", c32::cast_keyed, ["input"]);
    gen1!(out_dir, "c32_repeat_tick", "repeat_tick", c32::repeat_tick, ["keys", "vals"]);
    use hv_hydro2_flows::{c31, c33, c34};
    gen1!(out_dir, "c33_cnt", "cnt", c33::cnt, ["input"]);
    gen1!(out_dir, "c33_fmax", "fmax", c33::fmax, ["input"]);
    gen1!(out_dir, "c33_vcount", "vcount", c33::vcount, ["input"]);
    gen1!(out_dir, "c33_kmax", "kmax", c33::kmax, ["input"]);
    gen1!(out_dir, "c33_ksum", "ksum", c33::ksum, ["input"]);
    gen1!(out_dir, "c33_kfirst_map", "kfirst_map", c33::kfirst_map, ["input"]);
    gen1!(out_dir, "c33_kfirst_entries", "kfirst_entries", c33::kfirst_entries, ["input"]);
    gen1!(out_dir, "c33_kfirst_filter", "kfirst_filter", c33::kfirst_filter, ["input"]);
    gen1!(out_dir, "c33_kfirst_fmap", "kfirst_fmap", c33::kfirst_fmap, ["input"]);
    gen1!(out_dir, "c33_vcount_map", "vcount_map", c33::vcount_map, ["input"]);
    gen1!(out_dir, "c31_batches", "batches", c31::batches, ["input"]);
    gen1!(out_dir, "c31_batch_snap", "batch_snap", c31::batch_snap, ["input"]);
    gen1!(out_dir, "c31_state_counter", "state_counter", c31::state_counter, ["input"]);
    gen1!(out_dir, "c31_state_prev_last", "state_prev_last", c31::state_prev_last, ["input"]);
    gen1!(out_dir, "c31_state_opt_keep", "state_opt_keep", c31::state_opt_keep, ["input"]);
    gen1!(out_dir, "c31_two_batches", "two_batches", c31::two_batches, ["a", "b"]);
    gen1!(out_dir, "c31_lookup_counts", "lookup_counts", c31::lookup_counts, ["incs", "gets"]);
    gen1!(out_dir, "c34_atomic_sum", "atomic_sum", c34::atomic_sum, ["writes", "reads"]);
    gen1!(out_dir, "c34_keyed_counter", "keyed_counter", c34::keyed_counter, ["incs", "gets"]);
    gen1!(out_dir, "c34_plain_sum", "plain_sum", c34::plain_sum, ["writes", "reads"]);
    gen1!(out_dir, "c34_atomic_lww", "atomic_lww", c34::atomic_lww, ["writes", "reads"]);
    gen1!(out_dir, "c34_atomic_max", "atomic_max", c34::atomic_max, ["writes", "reads"]);
    gen1!(out_dir, "c34_keyed_lww", "keyed_lww", c34::keyed_lww, ["incs", "gets"]);
}
