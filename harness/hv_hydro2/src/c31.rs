//! C31: `sliced!` programs.  `r <ticks>`: a fresh instance fed tick by tick (production code
//! generation: a batch is what arrived in the tick).  Oracles: the batches a slice observes
//! partition the input in order; snapshots never go back; the hooks of one slice are taken at the
//! same point; state hooks carry their value to the next slice.
use crate::fmt::*;
use crate::flowgen;
use hv_common::{read_lines, Args, Recorder, Rng};
use std::collections::BTreeMap;

pub const OPS: &[&str] = &["batches", "batch_snap", "two_batches", "state_counter", "state_prev_last", "lookup_counts", "state_opt_keep"];

fn split_two<'a>(ticks: &[&'a str]) -> Option<Vec<(&'a str, &'a str)>> {
    ticks.iter().map(|s| s.split_once('/')).collect()
}

pub fn exec(rec: &mut Recorder, op: &str, field: &str, line: &str) -> Option<String> {
    let ticks: Vec<&str> = field.split('|').collect();
    Some(match op {
        "batches" => {
            let t: Vec<Vec<i32>> = ticks.iter().map(|s| parse_ints(s)).collect::<Option<_>>()?;
            let Ok(r) = flowgen::run_c31_batches(&t) else { return Some("panic".into()) };
            let fed: Vec<i32> = t.concat();
            let got: Vec<i32> = r.concat();
            rec.check(fed == got, "c31-batches-not-a-partition@batches", &format!("{line}: fed {:?} observed {:?}", fed, got));
            r.iter().map(|o| show_ints(o)).collect::<Vec<_>>().join("|")
        }
        "batch_snap" => {
            let t: Vec<Vec<i32>> = ticks.iter().map(|s| parse_ints(s)).collect::<Option<_>>()?;
            let Ok(r) = flowgen::run_c31_batch_snap(&t) else { return Some("panic".into()) };
            let mut seen = 0usize;
            let mut last_total = 0usize;
            for o in &r {
                if let Some((len, total)) = o.first() {
                    seen += len;
                    rec.check(*total >= last_total, "c31-snapshot-went-back@batch_snap", &format!("{line}: total {last_total} then {total}"));
                    rec.check(*total == seen, "c31-hooks-not-same-point@batch_snap", &format!("{line}: batches so far hold {seen} items but the snapshot of count() says {total}"));
                    last_total = *total;
                }
            }
            rec.check(seen == t.concat().len(), "c31-batches-not-a-partition@batch_snap", &format!("{line}: fed {} items, batches hold {seen}", t.concat().len()));
            r.iter().map(|o| one(o, |(a, b)| format!("{a}:{b}"))).collect::<Vec<_>>().join("|")
        }
        "two_batches" => {
            let h = split_two(&ticks)?;
            let t: Vec<(Vec<i32>, Vec<i32>)> = h.iter().map(|(a, b)| Some((parse_ints(a)?, parse_ints(b)?))).collect::<Option<_>>()?;
            let Ok(r) = flowgen::run_c31_two_batches(&t) else { return Some("panic".into()) };
            // the batches must be contiguous in-order segments of each input: check through lengths + sums
            let fa: Vec<i32> = t.iter().flat_map(|p| p.0.clone()).collect();
            let fb: Vec<i32> = t.iter().flat_map(|p| p.1.clone()).collect();
            let (mut ia, mut ib, mut ok) = (0usize, 0usize, true);
            for o in &r {
                if let Some(((la, lb), (sa, sb))) = o.first() {
                    if ia + la > fa.len() || ib + lb > fb.len() { ok = false; break }
                    ok &= fa[ia..ia + la].iter().sum::<i32>() == *sa && fb[ib..ib + lb].iter().sum::<i32>() == *sb;
                    ia += la; ib += lb;
                }
            }
            rec.check(ok && ia == fa.len() && ib == fb.len(), "c31-batches-not-a-partition@two_batches", &format!("{line}"));
            r.iter().map(|o| one(o, |((la, lb), (sa, sb))| format!("{la}:{lb}:{sa}:{sb}"))).collect::<Vec<_>>().join("|")
        }
        "state_counter" => {
            let t: Vec<Vec<i32>> = ticks.iter().map(|s| parse_ints(s)).collect::<Option<_>>()?;
            let Ok(r) = flowgen::run_c31_state_counter(&t) else { return Some("panic".into()) };
            let mut total = 0usize;
            for (i, o) in r.iter().enumerate() {
                total += t[i].len();
                if let Some(c) = o.first() {
                    rec.check(*c == total, "c31-state-not-carried@state_counter", &format!("{line}: slice {i} reports {c}, {total} items fed so far"));
                }
            }
            r.iter().map(|o| one(o, |x| x.to_string())).collect::<Vec<_>>().join("|")
        }
        "state_prev_last" => {
            let t: Vec<Vec<i32>> = ticks.iter().map(|s| parse_ints(s)).collect::<Option<_>>()?;
            let Ok(r) = flowgen::run_c31_state_prev_last(&t) else { return Some("panic".into()) };
            for (i, o) in r.iter().enumerate() {
                if let Some(seen) = o.first() {
                    let expect = if i == 0 { None } else { t[i - 1].last().copied() };
                    rec.check(*seen == expect, "c31-state-not-carried@state_prev_last", &format!("{line}: slice {i} sees {:?}, previous slice wrote {:?}", seen, expect));
                }
            }
            r.iter().map(|o| one(o, show_opt_int)).collect::<Vec<_>>().join("|")
        }
        "state_opt_keep" => {
            // Optional state with the non-null initial value 100; slice i stores the sum of its batch
            // when that is positive and NULL otherwise.  Oracle (from the fed batches only): slice 0
            // sees the initial value, slice i+1 sees exactly what slice i stored (null included).
            let t: Vec<Vec<i32>> = ticks.iter().map(|s| parse_ints(s)).collect::<Option<_>>()?;
            let Ok(r) = flowgen::run_c31_state_opt_keep(&t) else { return Some("panic".into()) };
            for (i, o) in r.iter().enumerate() {
                rec.check(o.len() == 1, "c31-state-slice-output-count@state_opt_keep", &format!("{line}: slice {i} emitted {} values", o.len()));
                if let Some(seen) = o.first() {
                    let expect = if i == 0 { Some(100) } else { Some(t[i - 1].iter().sum::<i32>()).filter(|s| *s > 0) };
                    if i > 0 && expect.is_none() { rec.count("state_opt_keep:null-stored-then-read"); }
                    rec.check(*seen == expect, "c31-state-not-carried@state_opt_keep", &format!("{line}: slice {i} sees {:?}, previous slice stored {:?} (initial value only in slice 0)", seen, expect));
                }
            }
            r.iter().map(|o| one(o, show_opt_int)).collect::<Vec<_>>().join("|")
        }
        "lookup_counts" => {
            let h = split_two(&ticks)?;
            // protocol: incs/gets ; generated parameter order: (gets, incs)
            let t: Vec<(Vec<i32>, Vec<(i32, i32)>)> = h.iter().map(|(incs, gets)| Some((parse_ints(gets)?, parse_pairs(incs)?))).collect::<Option<_>>()?;
            let Ok(r) = flowgen::run_c31_lookup_counts(&t) else { return Some("panic".into()) };
            let mut last: BTreeMap<i32, usize> = BTreeMap::new();
            let mut fed: BTreeMap<i32, usize> = BTreeMap::new();
            for (i, o) in r.iter().enumerate() {
                for (k, _) in &t[i].1 { *fed.entry(*k).or_default() += 1; }
                for (k, n) in o {
                    let prev = last.get(k).copied().unwrap_or(0);
                    rec.check(*n >= prev, "c31-snapshot-went-back@lookup_counts", &format!("{line}: key {k}: {prev} then {n}"));
                    rec.check(*n <= fed.get(k).copied().unwrap_or(0), "c31-snapshot-from-the-future@lookup_counts", &format!("{line}: key {k}: {n} > fed"));
                    last.insert(*k, *n);
                }
            }
            r.iter().map(|o| show_sorted_pairs(o)).collect::<Vec<_>>().join("|")
        }
        _ => return None,
    })
}

fn do_line(rec: &mut Recorder, op: &str, line: &str) {
    let Some(rest) = line.strip_prefix("r ") else { rec.line(line, "bad-op"); return };
    if rest.contains(' ') || rest.is_empty() { rec.line(line, "bad-op"); return }
    match exec(rec, op, rest, line) {
        Some(out) => {
            rec.check(out != "panic" && !out.contains('#'), &format!("c31-ill-formed-output@{op}"), &format!("{line} -> {out}"));
            rec.count(&format!("op:{op}"));
            rec.count(&format!("ticks:{}", rest.split('|').count().min(8)));
            if rest.split('|').filter(|t| *t != "-" && *t != "-/-").count() >= 2 { rec.nontrivial(); }
            rec.line(line, &out)
        }
        None => rec.line(line, "bad-op"),
    }
}

fn ints(rng: &mut Rng, nmax: u64) -> Vec<i32> {
    let n = if rng.chance(1, 4) { 0 } else { rng.range(0, nmax) };
    (0..n).map(|_| rng.range(0, 9) as i32 - 3).collect()
}

fn gen_line(rng: &mut Rng, op: &str, thorough: bool) -> String {
    let nt = rng.range(1, if thorough { 9 } else { 6 });
    let f: Vec<String> = (0..nt).map(|_| match op {
        "two_batches" => format!("{}/{}", show_ints(&ints(rng, 4)), show_ints(&ints(rng, 4))),
        "lookup_counts" => {
            let n = if rng.chance(1, 4) { 0 } else { rng.range(0, 4) };
            let incs: Vec<(i32, i32)> = (0..n).map(|_| (rng.range(0, 3) as i32, rng.range(0, 2) as i32)).collect();
            let m = rng.range(0, 3);
            let gets: Vec<i32> = (0..m).map(|_| rng.range(0, 4) as i32).collect();
            format!("{}/{}", show_pairs(&incs), show_ints(&gets))
        }
        _ => show_ints(&ints(rng, 5)),
    }).collect();
    format!("r {}", f.join("|"))
}

pub fn run(args: &Args) -> Recorder {
    let mut rec = Recorder::new("a case is non-trivial when some run feeds input in at least two different ticks");
    if let Some(p) = &args.replay {
        let mut op = String::new();
        for line in read_lines(p) {
            if let Some(rest) = line.strip_prefix("#case") {
                let rest = rest.trim();
                let (n, tags) = rest.split_once(' ').unwrap_or((rest, ""));
                rec.case(n.parse().unwrap_or(0), tags);
                op = tags.split(' ').find_map(|w| w.strip_prefix("op=")).unwrap_or("").to_string();
            } else {
                do_line(&mut rec, &op, &line);
            }
        }
        return rec;
    }
    let thorough = args.tier == "thorough";
    for i in 0..args.cases {
        let mut rng = Rng::new(args.seed).fork(i);
        let op = OPS[(i as usize) % OPS.len()];
        rec.case(i, &format!("mode=c31 op={op}"));
        for _ in 0..3 {
            let l = gen_line(&mut rng, op, thorough);
            do_line(&mut rec, op, &l);
        }
        if i % 20 == 3 { do_line(&mut rec, op, "r 1/2/3"); do_line(&mut rec, op, "zz"); }
    }
    rec
}
