//! hv_hydro2 <mode> --seed N --cases N --out DIR --tier quick|thorough [--replay FILE]
//! modes: c32 (trusted order/retry assumptions), c33 (monotone / bounded-value annotations),
//!        c31 (slices), c34 (atomic acknowledgements)
mod c31;
mod c32;
mod c33;
mod c34;
mod fmt;
mod flowgen;

use hv_common::{Args, Recorder};

fn main() {
    let args = Args::parse();
    hv_common::quiet_panics();
    let mut rec = match args.mode.as_str() {
        "c32" => c32::run(&args),
        "c33" => c33::run(&args),
        "c31" => c31::run(&args),
        "c34" => c34::run(&args),
        m => {
            eprintln!("unknown mode {m}");
            std::process::exit(2)
        }
    };
    rec.finish(&args.out);
    let _: &mut Recorder = &mut rec;
}
