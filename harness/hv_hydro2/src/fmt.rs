//! parsing / canonical printing shared by all modes (must agree with the Lean driver)
use std::collections::BTreeMap;

pub fn parse_ints(s: &str) -> Option<Vec<i32>> {
    if s == "-" { Some(vec![]) } else { s.split(',').map(|p| p.parse().ok()).collect() }
}
pub fn parse_pair(s: &str) -> Option<(i32, i32)> {
    let (a, b) = s.split_once(':')?;
    Some((a.parse().ok()?, b.parse().ok()?))
}
pub fn parse_pairs(s: &str) -> Option<Vec<(i32, i32)>> {
    if s == "-" { Some(vec![]) } else { s.split(',').map(parse_pair).collect() }
}
pub fn show_ints(l: &[i32]) -> String {
    if l.is_empty() { "-".into() } else { l.iter().map(|x| x.to_string()).collect::<Vec<_>>().join(",") }
}
pub fn show_pairs<A: std::fmt::Display, B: std::fmt::Display>(l: &[(A, B)]) -> String {
    if l.is_empty() { "-".into() } else { l.iter().map(|(a, b)| format!("{a}:{b}")).collect::<Vec<_>>().join(",") }
}
pub fn show_sorted_pairs<B: std::fmt::Display + Ord + Clone>(l: &[(i32, B)]) -> String {
    let mut v = l.to_vec();
    v.sort();
    show_pairs(&v)
}
pub fn show_opt_int(o: &Option<i32>) -> String {
    match o { Some(x) => format!("some {x}"), None => "none".into() }
}
pub fn show_opt_pair(o: &Option<(i32, i32)>) -> String {
    match o { Some((a, b)) => format!("some {a}:{b}"), None => "none".into() }
}
/// keys ascending, each with its values in arrival order
pub fn show_keyed(l: &[(i32, i32)]) -> String {
    let mut m: BTreeMap<i32, Vec<i32>> = BTreeMap::new();
    for (k, v) in l { m.entry(*k).or_default().push(*v); }
    if m.is_empty() { return "-".into(); }
    m.iter().map(|(k, vs)| format!("{k}:[{}]", vs.iter().map(|v| v.to_string()).collect::<Vec<_>>().join(" "))).collect::<Vec<_>>().join(";")
}
/// exactly one output expected per tick (singleton-like outputs)
pub fn one<T>(outs: &[T], f: impl Fn(&T) -> String) -> String {
    if outs.len() == 1 { f(&outs[0]) } else { format!("#{}outputs[{}]", outs.len(), outs.iter().map(|o| f(o)).collect::<Vec<_>>().join("+")) }
}
pub fn show_ticks_ints(ticks: &[Vec<i32>]) -> String {
    ticks.iter().map(|t| show_ints(t)).collect::<Vec<_>>().join("|")
}
pub fn show_ticks_pairs(ticks: &[Vec<(i32, i32)>]) -> String {
    ticks.iter().map(|t| show_pairs(t)).collect::<Vec<_>>().join("|")
}
