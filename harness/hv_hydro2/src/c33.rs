//! C33: collections whose types promise monotone growth, snapshotted every tick.
//! `r <ticks>`: a fresh instance fed tick by tick; oracle: the promise of the result type
//! (Monotonic / MonotonicValue / MonotonicKeys / BoundedValue) holds between all snapshots.
use crate::fmt::*;
use crate::flowgen;
use hv_common::{read_lines, Args, Recorder, Rng};
use std::collections::BTreeMap;

pub const OPS: &[&str] = &["cnt", "fmax", "vcount", "kmax", "ksum", "kfirst_map", "kfirst_entries", "kfirst_filter", "kfirst_fmap", "vcount_map"];

type Snap = BTreeMap<i32, i64>;

fn keyed_checks(rec: &mut Recorder, op: &str, snaps: &[Snap], mono: bool, fixed: bool, line: &str) {
    for w in snaps.windows(2) {
        let (a, b) = (&w[0], &w[1]);
        for (k, va) in a {
            match b.get(k) {
                None => rec.check(false, &format!("c33-key-disappeared@{op}"), &format!("{line}: key {k} present then absent")),
                Some(vb) => {
                    rec.check(true, &format!("c33-key-disappeared@{op}"), "");
                    if mono { rec.check(vb >= va, &format!("c33-value-decreased@{op}"), &format!("{line}: key {k}: {va} then {vb}")); }
                    if fixed { rec.check(vb == va, &format!("c33-bounded-value-changed@{op}"), &format!("{line}: key {k}: {va} then {vb}")); }
                }
            }
        }
    }
}

pub fn exec(rec: &mut Recorder, op: &str, field: &str, line: &str) -> Option<String> {
    let ticks: Vec<&str> = field.split('|').collect();
    Some(match op {
        "cnt" | "fmax" => {
            let t: Vec<Vec<i32>> = ticks.iter().map(|s| parse_ints(s)).collect::<Option<_>>()?;
            let (outs, txt): (Vec<i64>, String) = if op == "cnt" {
                let r = flowgen::run_c33_cnt(&t);
                if r.is_err() { return Some("panic".into()) }
                let r = r.unwrap();
                (r.iter().filter_map(|o| o.first().map(|x| *x as i64)).collect(), r.iter().map(|o| one(o, |x| x.to_string())).collect::<Vec<_>>().join("|"))
            } else {
                let r = flowgen::run_c33_fmax(&t);
                if r.is_err() { return Some("panic".into()) }
                let r = r.unwrap();
                (r.iter().filter_map(|o| o.first().map(|x| *x as i64)).collect(), r.iter().map(|o| one(o, |x| x.to_string())).collect::<Vec<_>>().join("|"))
            };
            for w in outs.windows(2) {
                rec.check(w[1] >= w[0], &format!("c33-monotone-singleton-decreased@{op}"), &format!("{line}: {} then {}", w[0], w[1]));
            }
            txt
        }
        "vcount" | "kmax" | "ksum" | "kfirst_map" | "kfirst_entries" | "kfirst_filter" | "kfirst_fmap" | "vcount_map" => {
            let t: Vec<Vec<(i32, i32)>> = ticks.iter().map(|s| parse_pairs(s)).collect::<Option<_>>()?;
            let (snaps, txt): (Vec<Snap>, String) = match op {
                "vcount" | "vcount_map" => {
                    let r = if op == "vcount" { flowgen::run_c33_vcount(&t) } else { flowgen::run_c33_vcount_map(&t) };
                    if r.is_err() { return Some("panic".into()) }
                    let r = r.unwrap();
                    (r.iter().map(|o| o.iter().map(|(k, v)| (*k, *v as i64)).collect()).collect(), r.iter().map(|o| show_sorted_pairs(o)).collect::<Vec<_>>().join("|"))
                }
                "kmax" | "ksum" => {
                    let r = if op == "kmax" { flowgen::run_c33_kmax(&t) } else { flowgen::run_c33_ksum(&t) };
                    if r.is_err() { return Some("panic".into()) }
                    let r = r.unwrap();
                    (r.iter().map(|o| o.iter().map(|(k, v)| (*k, *v as i64)).collect()).collect(), r.iter().map(|o| show_sorted_pairs(o)).collect::<Vec<_>>().join("|"))
                }
                "kfirst_map" | "kfirst_filter" | "kfirst_fmap" => {
                    let r = match op { "kfirst_map" => flowgen::run_c33_kfirst_map(&t), "kfirst_filter" => flowgen::run_c33_kfirst_filter(&t), _ => flowgen::run_c33_kfirst_fmap(&t) };
                    if r.is_err() { return Some("panic".into()) }
                    let r = r.unwrap();
                    (r.iter().map(|o| o.first().map(|m| m.iter().map(|(k, v)| (*k, *v as i64)).collect()).unwrap_or_default()).collect(),
                     r.iter().map(|o| one(o, |m| { let v: Vec<(i32, i32)> = m.iter().map(|(a, b)| (*a, *b)).collect(); show_sorted_pairs(&v) })).collect::<Vec<_>>().join("|"))
                }
                _ => {
                    let r = flowgen::run_c33_kfirst_entries(&t);
                    if r.is_err() { return Some("panic".into()) }
                    let r = r.unwrap();
                    // the keyed singleton as the accumulation of its emitted entries
                    let mut acc: Snap = BTreeMap::new();
                    let mut snaps = vec![];
                    for o in &r {
                        for (k, v) in o {
                            let re = acc.contains_key(k);
                            rec.check(!re, "c33-entry-reemitted@kfirst_entries", &format!("{line}: key {k} emitted again"));
                            acc.entry(*k).or_insert(*v as i64);
                        }
                        snaps.push(acc.clone());
                    }
                    (snaps, r.iter().map(|o| show_sorted_pairs(o)).collect::<Vec<_>>().join("|"))
                }
            };
            let (mono, fixed) = match op { "vcount" | "kmax" => (true, false), "ksum" | "vcount_map" => (false, false), _ => (true, true) };
            keyed_checks(rec, op, &snaps, mono, fixed, line);
            if snaps.iter().any(|s| !s.is_empty()) && snaps.len() >= 2 { rec.count("keyed-history-with-entries"); }
            txt
        }
        _ => return None,
    })
}

fn do_line(rec: &mut Recorder, op: &str, line: &str) {
    let Some(rest) = line.strip_prefix("r ") else { rec.line(line, "bad-op"); return };
    if rest.contains(' ') || rest.is_empty() { rec.line(line, "bad-op"); return }
    match exec(rec, op, rest, line) {
        Some(out) => {
            rec.check(out != "panic" && !out.contains('#'), &format!("c33-ill-formed-output@{op}"), &format!("{line} -> {out}"));
            rec.count(&format!("op:{op}"));
            rec.count(&format!("ticks:{}", rest.split('|').count().min(6)));
            if rest.split('|').filter(|t| *t != "-").count() >= 2 { rec.nontrivial(); }
            rec.line(line, &out)
        }
        None => rec.line(line, "bad-op"),
    }
}

fn gen_hist(rng: &mut Rng, keyed: bool, thorough: bool) -> String {
    let nt = rng.range(1, if thorough { 8 } else { 6 });
    (0..nt).map(|_| {
        let n = if rng.chance(1, 5) { 0 } else { rng.range(0, 4) };
        if keyed {
            show_pairs(&(0..n).map(|_| (rng.range(0, 3) as i32, rng.range(0, 6) as i32 - 3)).collect::<Vec<_>>())
        } else {
            show_ints(&(0..n).map(|_| rng.range(0, 8) as i32 - 4).collect::<Vec<_>>())
        }
    }).collect::<Vec<_>>().join("|")
}

pub fn run(args: &Args) -> Recorder {
    let mut rec = Recorder::new("a case is non-trivial when some run feeds input in at least two different ticks (so that two snapshots can differ)");
    if let Some(p) = &args.replay {
        let mut op = String::new();
        for line in read_lines(p) {
            if let Some(rest) = line.strip_prefix("#case") {
                let rest = rest.trim();
                let (n, tags) = rest.split_once(' ').unwrap_or((rest, ""));
                rec.case(n.parse().unwrap_or(0), tags);
                op = tags.split(' ').find_map(|w| w.strip_prefix("op=")).unwrap_or("").to_string();
            } else {
                do_line(&mut rec, &op, &line);
            }
        }
        return rec;
    }
    let thorough = args.tier == "thorough";
    for i in 0..args.cases {
        let mut rng = Rng::new(args.seed).fork(i);
        let op = OPS[(i as usize) % OPS.len()];
        rec.case(i, &format!("mode=c33 op={op}"));
        let keyed = !matches!(op, "cnt" | "fmax");
        for _ in 0..3 {
            let h = gen_hist(&mut rng, keyed, thorough);
            do_line(&mut rec, op, &format!("r {h}"));
        }
        if i % 20 == 7 { do_line(&mut rec, op, "r 1:,2"); do_line(&mut rec, op, "q"); }
    }
    rec
}
