//! C34: atomic acknowledgements imply read-after-write.  `r <ticks>` with `writes/reads` per tick.
//! Oracle: every read response produced in tick t reflects all writes acknowledged in ticks < t
//! (an acknowledgement observed before the read was issued), acknowledgements are exactly the
//! writes (each once, in order), and a response never reflects a write that was not yet fed.
use crate::fmt::*;
use crate::flowgen;
use hv_common::{read_lines, Args, Recorder, Rng};
use std::collections::BTreeMap;

pub const OPS: &[&str] = &["atomic_sum", "keyed_counter", "atomic_lww", "plain_sum", "keyed_lww", "atomic_max"];

fn split_two<'a>(ticks: &[&'a str]) -> Option<Vec<(&'a str, &'a str)>> {
    ticks.iter().map(|s| s.split_once('/')).collect()
}

fn show_triples(l: &[(i32, (i32, usize))]) -> String {
    let mut v: Vec<(i32, i32, usize)> = l.iter().map(|(c, (k, n))| (*c, *k, *n)).collect();
    v.sort();
    if v.is_empty() { "-".into() } else { v.iter().map(|(a, b, c)| format!("{a}:{b}:{c}")).collect::<Vec<_>>().join(",") }
}

pub fn exec(rec: &mut Recorder, op: &str, field: &str, line: &str) -> Option<String> {
    let ticks: Vec<&str> = field.split('|').collect();
    let h = split_two(&ticks)?;
    Some(match op {
        "atomic_sum" | "plain_sum" => {
            // protocol writes/reads ; generated parameter order (reads, writes)
            let t: Vec<(Vec<i32>, Vec<i32>)> = h.iter().map(|(w, r)| Some((parse_ints(r)?, parse_ints(w)?))).collect::<Option<_>>()?;
            let r = if op == "atomic_sum" { flowgen::run_c34_atomic_sum(&t) } else { flowgen::run_c34_plain_sum(&t) };
            let Ok(r) = r else { return Some("panic".into()) };
            let mut acked_before: i64 = 0; // sum of writes acknowledged in earlier ticks
            let mut fed: i64 = 0;
            let mut fed_writes: Vec<i32> = vec![];
            let mut acks_all: Vec<i32> = vec![];
            for (i, (acks, resp)) in r.iter().enumerate() {
                fed += t[i].1.iter().map(|x| *x as i64).sum::<i64>();
                fed_writes.extend(&t[i].1);
                for (id, sum) in resp {
                    if op == "atomic_sum" {
                        // writes are non-negative in generated cases, so "reflects" is `>=`
                        rec.check(*sum as i64 >= acked_before, "c34-ack-not-visible@atomic_sum",
                            &format!("{line}: read {id} in tick {i} sees {sum} but writes summing to {acked_before} were acknowledged before"));
                        rec.check(*sum as i64 <= fed, "c34-read-from-the-future@atomic_sum", &format!("{line}: read {id} sees {sum} > fed {fed}"));
                    }
                }
                acked_before += acks.iter().map(|x| *x as i64).sum::<i64>();
                acks_all.extend(acks);
            }
            if op == "atomic_sum" {
                rec.check(acks_all == fed_writes, "c34-acks-not-the-writes@atomic_sum", &format!("{line}: acks {:?} writes {:?}", acks_all, fed_writes));
            }
            r.iter().map(|(a, p)| format!("acks={};resp={}", show_ints(a), show_pairs(p))).collect::<Vec<_>>().join("|")
        }
        "atomic_lww" | "atomic_max" => {
            // reduce-style register: a response is `(read id, Option<register value>)`
            let t: Vec<(Vec<i32>, Vec<i32>)> = h.iter().map(|(w, r)| Some((parse_ints(r)?, parse_ints(w)?))).collect::<Option<_>>()?;
            let r = if op == "atomic_lww" { flowgen::run_c34_atomic_lww(&t) } else { flowgen::run_c34_atomic_max(&t) };
            let Ok(r) = r else { return Some("panic".into()) };
            let mut fed_writes: Vec<i32> = vec![];
            let mut acks_all: Vec<i32> = vec![]; // acknowledgements released in earlier ticks
            for (i, (acks, resp)) in r.iter().enumerate() {
                fed_writes.extend(&t[i].1);
                let a = acks_all.len().min(fed_writes.len());
                rec.check(resp.len() == t[i].0.len(), &format!("c34-read-not-answered@{op}"), &format!("{line}: tick {i} reads {:?} responses {:?}", t[i].0, resp));
                for (id, val) in resp {
                    match val {
                        None => rec.check(a == 0, &format!("c34-ack-not-visible@{op}"),
                            &format!("{line}: read {id} in tick {i} sees an EMPTY register but writes {:?} were acknowledged before", &acks_all)),
                        Some(v) if op == "atomic_lww" => {
                            // the value of the last acknowledged write or of a later (already fed) one
                            let lo = a.saturating_sub(1);
                            rec.check(fed_writes.contains(v), "c34-read-from-the-future@atomic_lww", &format!("{line}: read {id} sees {v}, fed {:?}", fed_writes));
                            rec.check(!fed_writes.contains(v) || fed_writes[lo..].contains(v), "c34-ack-not-visible@atomic_lww",
                                &format!("{line}: read {id} in tick {i} sees {v}, older than the last write acknowledged before ({:?})", acks_all.last()));
                        }
                        Some(v) => {
                            let need = acks_all.iter().max();
                            rec.check(need.map_or(true, |m| v >= m), "c34-ack-not-visible@atomic_max",
                                &format!("{line}: read {id} in tick {i} sees {v} but {need:?} was acknowledged before"));
                            rec.check(fed_writes.contains(v), "c34-read-from-the-future@atomic_max", &format!("{line}: read {id} sees {v}, fed {:?}", fed_writes));
                        }
                    }
                }
                acks_all.extend(acks);
            }
            rec.check(acks_all == fed_writes, &format!("c34-acks-not-the-writes@{op}"), &format!("{line}: acks {:?} writes {:?}", acks_all, fed_writes));
            r.iter().map(|(a, p)| format!("acks={};resp={}", show_ints(a),
                if p.is_empty() { "-".to_string() } else { p.iter().map(|(id, v)| match v { Some(v) => format!("{id}:{v}"), None => format!("{id}:none") }).collect::<Vec<_>>().join(",") }
            )).collect::<Vec<_>>().join("|")
        }
        "keyed_lww" => {
            // protocol writes (key:value) / gets (client:key) ; generated parameter order (gets, incs)
            let t: Vec<(Vec<(i32, i32)>, Vec<(i32, i32)>)> = h.iter().map(|(w, r)| Some((parse_pairs(r)?, parse_pairs(w)?))).collect::<Option<_>>()?;
            let Ok(r) = flowgen::run_c34_keyed_lww(&t) else { return Some("panic".into()) };
            let mut acked_before: BTreeMap<i32, usize> = BTreeMap::new(); // per key: number of acknowledged writes
            let mut fed: BTreeMap<i32, Vec<i32>> = BTreeMap::new(); // per key: values fed, in order
            let mut acks_all: Vec<(i32, i32)> = vec![];
            let mut fed_all: Vec<(i32, i32)> = vec![];
            for (i, (acks, resp)) in r.iter().enumerate() {
                for (k, v) in &t[i].1 { fed.entry(*k).or_default().push(*v); }
                fed_all.extend(&t[i].1);
                for (client, key) in &t[i].0 {
                    // a get of a key with an acknowledged write must be answered (the join drops it if the register is empty)
                    let need = acked_before.get(key).copied().unwrap_or(0);
                    let answered = resp.iter().any(|(c, (k, _))| c == client && k == key);
                    rec.check(need == 0 || answered, "c34-ack-not-visible@keyed_lww",
                        &format!("{line}: get of client {client} for key {key} in tick {i} finds NO register but {need} writes to it were acknowledged before"));
                }
                for (client, (key, val)) in resp {
                    let need = acked_before.get(key).copied().unwrap_or(0);
                    let empty = vec![];
                    let f = fed.get(key).unwrap_or(&empty);
                    let lo = need.min(f.len()).saturating_sub(1);
                    rec.check(f.contains(val), "c34-read-from-the-future@keyed_lww", &format!("{line}: key {key} value {val}"));
                    rec.check(!f.contains(val) || f[lo..].contains(val), "c34-ack-not-visible@keyed_lww",
                        &format!("{line}: get of client {client} for key {key} in tick {i} sees {val}, older than the last of the {need} writes acknowledged before"));
                }
                for (k, _) in acks { *acked_before.entry(*k).or_default() += 1; }
                acks_all.extend(acks);
            }
            acks_all.sort(); fed_all.sort();
            rec.check(acks_all == fed_all, "c34-acks-not-the-writes@keyed_lww", &format!("{line}"));
            r.iter().map(|(a, p)| {
                let mut v: Vec<(i32, i32, i32)> = p.iter().map(|(c, (k, x))| (*c, *k, *x)).collect();
                v.sort();
                let rs = if v.is_empty() { "-".to_string() } else { v.iter().map(|(a, b, c)| format!("{a}:{b}:{c}")).collect::<Vec<_>>().join(",") };
                format!("acks={};resp={}", show_sorted_pairs(a), rs)
            }).collect::<Vec<_>>().join("|")
        }
        "keyed_counter" => {
            // protocol incs/gets ; generated parameter order (gets, incs)
            let t: Vec<(Vec<(i32, i32)>, Vec<(i32, i32)>)> = h.iter().map(|(w, r)| Some((parse_pairs(r)?, parse_pairs(w)?))).collect::<Option<_>>()?;
            let Ok(r) = flowgen::run_c34_keyed_counter(&t) else { return Some("panic".into()) };
            let mut acked_before: BTreeMap<i32, usize> = BTreeMap::new();
            let mut fed: BTreeMap<i32, usize> = BTreeMap::new();
            let mut acks_all: Vec<(i32, i32)> = vec![];
            let mut fed_all: Vec<(i32, i32)> = vec![];
            for (i, (acks, resp)) in r.iter().enumerate() {
                for (_, k) in &t[i].1 { *fed.entry(*k).or_default() += 1; }
                fed_all.extend(&t[i].1);
                for (client, (key, count)) in resp {
                    let need = acked_before.get(key).copied().unwrap_or(0);
                    rec.check(*count >= need, "c34-ack-not-visible@keyed_counter",
                        &format!("{line}: get of client {client} for key {key} in tick {i} sees {count} but {need} increments were acknowledged before"));
                    rec.check(*count <= fed.get(key).copied().unwrap_or(0), "c34-read-from-the-future@keyed_counter", &format!("{line}: key {key} count {count}"));
                }
                for (_, k) in acks { *acked_before.entry(*k).or_default() += 1; }
                acks_all.extend(acks);
            }
            acks_all.sort(); fed_all.sort();
            rec.check(acks_all == fed_all, "c34-acks-not-the-writes@keyed_counter", &format!("{line}"));
            r.iter().map(|(a, p)| format!("acks={};resp={}", show_sorted_pairs(a), show_triples(p))).collect::<Vec<_>>().join("|")
        }
        _ => return None,
    })
}

fn do_line(rec: &mut Recorder, op: &str, line: &str) {
    let Some(rest) = line.strip_prefix("r ") else { rec.line(line, "bad-op"); return };
    if rest.contains(' ') || rest.is_empty() { rec.line(line, "bad-op"); return }
    match exec(rec, op, rest, line) {
        Some(out) => {
            rec.check(out != "panic", &format!("c34-panic@{op}"), &format!("{line} -> {out}"));
            rec.count(&format!("op:{op}"));
            rec.count(&format!("ticks:{}", rest.split('|').count().min(8)));
            // non-trivial: a write in some tick and a read in the same or a later tick
            let f: Vec<(&str, &str)> = rest.split('|').filter_map(|t| t.split_once('/')).collect();
            let first_w = f.iter().position(|(w, _)| *w != "-");
            let last_r = f.iter().rposition(|(_, r)| *r != "-");
            if let (Some(w), Some(r)) = (first_w, last_r) { if r >= w { rec.nontrivial(); if r > w { rec.count("read-after-acked-write"); } } }
            rec.line(line, &out)
        }
        None => rec.line(line, "bad-op"),
    }
}

fn gen_line(rng: &mut Rng, op: &str, thorough: bool) -> String {
    let keyed = op == "keyed_counter" || op == "keyed_lww";
    let reduce_style = matches!(op, "atomic_lww" | "atomic_max" | "keyed_lww");
    // reduce-style registers: half of the runs have >= 3 ticks with the writes in the early ticks only and
    // reads (without new writes) in the later ticks - the state has to survive the tick boundary
    let early_writes = reduce_style && rng.chance(1, 2);
    let nt = if early_writes { rng.range(3, if thorough { 9 } else { 6 }) } else { rng.range(1, if thorough { 9 } else { 6 }) };
    let wt = if early_writes { rng.range(1, nt - 1) } else { nt };
    let f: Vec<String> = (0..nt).map(|ti| {
        let mut nw = if rng.chance(1, 3) { 0 } else { rng.range(0, 3) };
        let mut nr = if rng.chance(1, 3) { 0 } else { rng.range(0, 3) };
        if early_writes {
            if ti >= wt { nw = 0; if nr == 0 && (ti + 1 == nt || rng.chance(1, 2)) { nr = 1; } }
            else if ti == 0 && nw == 0 { nw = 1; }
        }
        if keyed {
            let w: Vec<(i32, i32)> = (0..nw).map(|_| (rng.range(0, 2) as i32, rng.range(0, if op == "keyed_lww" { 7 } else { 2 }) as i32)).collect();
            let r: Vec<(i32, i32)> = (0..nr).map(|_| (rng.range(0, 2) as i32, rng.range(0, 3) as i32)).collect();
            format!("{}/{}", show_pairs(&w), show_pairs(&r))
        } else {
            let w: Vec<i32> = (0..nw).map(|_| rng.range(0, if reduce_style { 9 } else { 5 }) as i32).collect();
            let r: Vec<i32> = (0..nr).map(|_| rng.range(0, 9) as i32).collect();
            format!("{}/{}", show_ints(&w), show_ints(&r))
        }
    }).collect();
    format!("r {}", f.join("|"))
}

pub fn run(args: &Args) -> Recorder {
    let mut rec = Recorder::new("a case is non-trivial when some run holds a write and a read in the same or a later tick");
    if let Some(p) = &args.replay {
        let mut op = String::new();
        for line in read_lines(p) {
            if let Some(rest) = line.strip_prefix("#case") {
                let rest = rest.trim();
                let (n, tags) = rest.split_once(' ').unwrap_or((rest, ""));
                rec.case(n.parse().unwrap_or(0), tags);
                op = tags.split(' ').find_map(|w| w.strip_prefix("op=")).unwrap_or("").to_string();
            } else {
                do_line(&mut rec, &op, &line);
            }
        }
        return rec;
    }
    let thorough = args.tier == "thorough";
    for i in 0..args.cases {
        let mut rng = Rng::new(args.seed).fork(i);
        let op = OPS[(i as usize) % OPS.len()];
        rec.case(i, &format!("mode=c34 op={op}"));
        for _ in 0..3 {
            let l = gen_line(&mut rng, op, thorough);
            do_line(&mut rec, op, &l);
        }
        if i % 20 == 3 { do_line(&mut rec, op, "r 1|2"); do_line(&mut rec, op, "zz"); }
    }
    rec
}
