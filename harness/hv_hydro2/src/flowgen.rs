//! The flows of `hv_hydro2_flows`, compiled by `build.rs` through Hydro's production code
//! generator (`generate_embedded`), and small runners that drive one fresh instance tick by tick.
#![allow(unused_imports, unused_qualifications, missing_docs, non_snake_case, unused_mut, unused_variables, dead_code)]
use std::cell::RefCell;
use std::collections::VecDeque;
use std::pin::Pin;
use std::rc::Rc;
use std::task::{Context, Poll};

/// Input stream fed by the harness: yields what is queued, then `Pending` (never ends).
pub struct Feed<T>(pub Rc<RefCell<VecDeque<T>>>);
impl<T> futures::Stream for Feed<T> {
    type Item = T;
    fn poll_next(self: Pin<&mut Self>, _cx: &mut Context<'_>) -> Poll<Option<T>> {
        match self.0.borrow_mut().pop_front() {
            Some(x) => Poll::Ready(Some(x)),
            None => Poll::Pending,
        }
    }
}
impl<T> Unpin for Feed<T> {}

macro_rules! flow_mod {
    ($m:ident, $file:literal) => {
        pub mod $m {
            include!(concat!(env!("OUT_DIR"), "/", $file, ".rs"));
        }
    };
}

/// one input `input`, one output `out`
macro_rules! runner1 {
    ($name:ident, $m:ident, $f:ident, $I:ty, $O:ty) => {
        pub fn $name(ticks: &[Vec<$I>]) -> Result<Vec<Vec<$O>>, String> {
            let q: Rc<RefCell<VecDeque<$I>>> = Default::default();
            let outs: Rc<RefCell<Vec<$O>>> = Default::default();
            let o2 = outs.clone();
            let mut outputs = $m::$f::EmbeddedOutputs { out: move |x: $O| o2.borrow_mut().push(x) };
            hv_common::catch(std::panic::AssertUnwindSafe(|| {
                let mut flow = $m::$f(Feed(q.clone()), &mut outputs);
                let mut per_tick = Vec::new();
                for t in ticks {
                    q.borrow_mut().extend(t.iter().cloned());
                    flow.run_tick_sync();
                    per_tick.push(std::mem::take(&mut *outs.borrow_mut()));
                }
                per_tick
            }))
        }
    };
}

/// two inputs, one output `out`
macro_rules! runner2 {
    ($name:ident, $m:ident, $f:ident, $I1:ty, $I2:ty, $O:ty) => {
        pub fn $name(ticks: &[(Vec<$I1>, Vec<$I2>)]) -> Result<Vec<Vec<$O>>, String> {
            let q1: Rc<RefCell<VecDeque<$I1>>> = Default::default();
            let q2: Rc<RefCell<VecDeque<$I2>>> = Default::default();
            let outs: Rc<RefCell<Vec<$O>>> = Default::default();
            let o2 = outs.clone();
            let mut outputs = $m::$f::EmbeddedOutputs { out: move |x: $O| o2.borrow_mut().push(x) };
            hv_common::catch(std::panic::AssertUnwindSafe(|| {
                let mut flow = $m::$f(Feed(q1.clone()), Feed(q2.clone()), &mut outputs);
                let mut per_tick = Vec::new();
                for (a, b) in ticks {
                    q1.borrow_mut().extend(a.iter().cloned());
                    q2.borrow_mut().extend(b.iter().cloned());
                    flow.run_tick_sync();
                    per_tick.push(std::mem::take(&mut *outs.borrow_mut()));
                }
                per_tick
            }))
        }
    };
}

type HM = std::collections::HashMap<i32, i32>;

// ---------------------------------------------------------------- C32
flow_mod!(c32_max_tick, "c32_max_tick");
flow_mod!(c32_min_tick, "c32_min_tick");
flow_mod!(c32_first_tick, "c32_first_tick");
flow_mod!(c32_last_tick, "c32_last_tick");
flow_mod!(c32_count_tick, "c32_count_tick");
flow_mod!(c32_is_empty_tick, "c32_is_empty_tick");
flow_mod!(c32_max_top, "c32_max_top");
flow_mod!(c32_min_top, "c32_min_top");
flow_mod!(c32_first_top, "c32_first_top");
flow_mod!(c32_last_top, "c32_last_top");
flow_mod!(c32_count_top, "c32_count_top");
flow_mod!(c32_vcount_tick, "c32_vcount_tick");
flow_mod!(c32_vcount_top, "c32_vcount_top");
flow_mod!(c32_intosing_tick, "c32_intosing_tick");
flow_mod!(c32_intosing_top, "c32_intosing_top");
flow_mod!(c32_intosing_mono, "c32_intosing_mono");
flow_mod!(c32_maxkey_tick, "c32_maxkey_tick");
flow_mod!(c32_maxkey_top, "c32_maxkey_top");
flow_mod!(c32_keycount_tick, "c32_keycount_tick");
flow_mod!(c32_keycount_top, "c32_keycount_top");
flow_mod!(c32_keycount_mono, "c32_keycount_mono");
flow_mod!(c32_cast_stream, "c32_cast_stream");
flow_mod!(c32_cast_keyed, "c32_cast_keyed");
flow_mod!(c32_repeat_tick, "c32_repeat_tick");

runner1!(run_c32_max_tick, c32_max_tick, max_tick, i32, Option<i32>);
runner1!(run_c32_min_tick, c32_min_tick, min_tick, i32, Option<i32>);
runner1!(run_c32_first_tick, c32_first_tick, first_tick, i32, Option<i32>);
runner1!(run_c32_last_tick, c32_last_tick, last_tick, i32, Option<i32>);
runner1!(run_c32_count_tick, c32_count_tick, count_tick, i32, usize);
runner1!(run_c32_is_empty_tick, c32_is_empty_tick, is_empty_tick, i32, bool);
runner1!(run_c32_max_top, c32_max_top, max_top, i32, Option<i32>);
runner1!(run_c32_min_top, c32_min_top, min_top, i32, Option<i32>);
runner1!(run_c32_first_top, c32_first_top, first_top, i32, Option<i32>);
runner1!(run_c32_last_top, c32_last_top, last_top, i32, Option<i32>);
runner1!(run_c32_count_top, c32_count_top, count_top, i32, usize);
runner1!(run_c32_vcount_tick, c32_vcount_tick, vcount_tick, (i32, i32), (i32, usize));
runner1!(run_c32_vcount_top, c32_vcount_top, vcount_top, (i32, i32), (i32, usize));
runner1!(run_c32_intosing_tick, c32_intosing_tick, intosing_tick, (i32, i32), HM);
runner1!(run_c32_intosing_top, c32_intosing_top, intosing_top, (i32, i32), HM);
runner1!(run_c32_intosing_mono, c32_intosing_mono, intosing_mono, (i32, i32), HM);
runner1!(run_c32_maxkey_tick, c32_maxkey_tick, maxkey_tick, (i32, i32), Option<(i32, i32)>);
runner1!(run_c32_maxkey_top, c32_maxkey_top, maxkey_top, (i32, i32), Option<(i32, i32)>);
runner1!(run_c32_keycount_tick, c32_keycount_tick, keycount_tick, (i32, i32), usize);
runner1!(run_c32_keycount_top, c32_keycount_top, keycount_top, (i32, i32), usize);
runner1!(run_c32_keycount_mono, c32_keycount_mono, keycount_mono, (i32, i32), usize);
runner1!(run_c32_cast_stream, c32_cast_stream, cast_stream, i32, i32);
runner1!(run_c32_cast_keyed, c32_cast_keyed, cast_keyed, (i32, i32), (i32, i32));
runner2!(run_c32_repeat_tick, c32_repeat_tick, repeat_tick, (i32, i32), i32, (i32, i32));

/// two inputs, two outputs `acks` / `resp`
macro_rules! runner2x2 {
    ($name:ident, $m:ident, $f:ident, $I1:ty, $I2:ty, $O1:ty, $O2:ty) => {
        pub fn $name(ticks: &[(Vec<$I1>, Vec<$I2>)]) -> Result<Vec<(Vec<$O1>, Vec<$O2>)>, String> {
            let q1: Rc<RefCell<VecDeque<$I1>>> = Default::default();
            let q2: Rc<RefCell<VecDeque<$I2>>> = Default::default();
            let o1: Rc<RefCell<Vec<$O1>>> = Default::default();
            let o2: Rc<RefCell<Vec<$O2>>> = Default::default();
            let (p1, p2) = (o1.clone(), o2.clone());
            let mut outputs = $m::$f::EmbeddedOutputs {
                acks: move |x: $O1| p1.borrow_mut().push(x),
                resp: move |x: $O2| p2.borrow_mut().push(x),
            };
            hv_common::catch(std::panic::AssertUnwindSafe(|| {
                let mut flow = $m::$f(Feed(q1.clone()), Feed(q2.clone()), &mut outputs);
                let mut per_tick = Vec::new();
                for (a, b) in ticks {
                    q1.borrow_mut().extend(a.iter().cloned());
                    q2.borrow_mut().extend(b.iter().cloned());
                    flow.run_tick_sync();
                    per_tick.push((std::mem::take(&mut *o1.borrow_mut()), std::mem::take(&mut *o2.borrow_mut())));
                }
                per_tick
            }))
        }
    };
}

// ---------------------------------------------------------------- C33
flow_mod!(c33_cnt, "c33_cnt");
flow_mod!(c33_fmax, "c33_fmax");
flow_mod!(c33_vcount, "c33_vcount");
flow_mod!(c33_kmax, "c33_kmax");
flow_mod!(c33_ksum, "c33_ksum");
flow_mod!(c33_kfirst_map, "c33_kfirst_map");
flow_mod!(c33_kfirst_entries, "c33_kfirst_entries");
flow_mod!(c33_kfirst_filter, "c33_kfirst_filter");
flow_mod!(c33_kfirst_fmap, "c33_kfirst_fmap");
flow_mod!(c33_vcount_map, "c33_vcount_map");
runner1!(run_c33_cnt, c33_cnt, cnt, i32, usize);
runner1!(run_c33_fmax, c33_fmax, fmax, i32, i32);
runner1!(run_c33_vcount, c33_vcount, vcount, (i32, i32), (i32, usize));
runner1!(run_c33_kmax, c33_kmax, kmax, (i32, i32), (i32, i32));
runner1!(run_c33_ksum, c33_ksum, ksum, (i32, i32), (i32, i32));
runner1!(run_c33_kfirst_map, c33_kfirst_map, kfirst_map, (i32, i32), HM);
runner1!(run_c33_kfirst_entries, c33_kfirst_entries, kfirst_entries, (i32, i32), (i32, i32));
runner1!(run_c33_kfirst_filter, c33_kfirst_filter, kfirst_filter, (i32, i32), HM);
runner1!(run_c33_kfirst_fmap, c33_kfirst_fmap, kfirst_fmap, (i32, i32), HM);
runner1!(run_c33_vcount_map, c33_vcount_map, vcount_map, (i32, i32), (i32, usize));

// ---------------------------------------------------------------- C31
flow_mod!(c31_batches, "c31_batches");
flow_mod!(c31_batch_snap, "c31_batch_snap");
flow_mod!(c31_two_batches, "c31_two_batches");
flow_mod!(c31_state_counter, "c31_state_counter");
flow_mod!(c31_state_prev_last, "c31_state_prev_last");
flow_mod!(c31_lookup_counts, "c31_lookup_counts");
flow_mod!(c31_state_opt_keep, "c31_state_opt_keep");
runner1!(run_c31_state_opt_keep, c31_state_opt_keep, state_opt_keep, i32, Option<i32>);
runner1!(run_c31_batches, c31_batches, batches, i32, i32);
runner1!(run_c31_batch_snap, c31_batch_snap, batch_snap, i32, (usize, usize));
runner2!(run_c31_two_batches, c31_two_batches, two_batches, i32, i32, ((usize, usize), (i32, i32)));
runner1!(run_c31_state_counter, c31_state_counter, state_counter, i32, usize);
runner1!(run_c31_state_prev_last, c31_state_prev_last, state_prev_last, i32, Option<i32>);
// generated parameter order is alphabetical: (gets, incs)
runner2!(run_c31_lookup_counts, c31_lookup_counts, lookup_counts, i32, (i32, i32), (i32, usize));

// ---------------------------------------------------------------- C34
flow_mod!(c34_atomic_sum, "c34_atomic_sum");
flow_mod!(c34_keyed_counter, "c34_keyed_counter");
flow_mod!(c34_plain_sum, "c34_plain_sum");
// generated parameter order is alphabetical: (reads, writes) / (gets, incs)
runner2x2!(run_c34_atomic_sum, c34_atomic_sum, atomic_sum, i32, i32, i32, (i32, i32));
runner2x2!(run_c34_plain_sum, c34_plain_sum, plain_sum, i32, i32, i32, (i32, i32));
runner2x2!(run_c34_keyed_counter, c34_keyed_counter, keyed_counter, (i32, i32), (i32, i32), (i32, i32), (i32, (i32, usize)));
flow_mod!(c34_atomic_lww, "c34_atomic_lww");
flow_mod!(c34_atomic_max, "c34_atomic_max");
flow_mod!(c34_keyed_lww, "c34_keyed_lww");
runner2x2!(run_c34_atomic_lww, c34_atomic_lww, atomic_lww, i32, i32, i32, (i32, Option<i32>));
runner2x2!(run_c34_atomic_max, c34_atomic_max, atomic_max, i32, i32, i32, (i32, Option<i32>));
runner2x2!(run_c34_keyed_lww, c34_keyed_lww, keyed_lww, (i32, i32), (i32, i32), (i32, i32), (i32, (i32, i32)));
