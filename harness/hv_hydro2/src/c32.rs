//! C32: every library operator that trusts an ordering / retry assumption gives the same result
//! for every delivery its input type admits.  Lines:
//!   `v <ticks>`  a delivery that is an admissible variant of the first `v` line of the case
//!                (oracle: all `v` lines of a case end with the same result on the real code)
//!   `r <ticks>`  any other run (correspondence only)
use crate::fmt::*;
use crate::flowgen;
use hv_common::{read_lines, Args, Recorder, Rng};
use std::collections::BTreeSet;

#[derive(Clone, Copy, PartialEq, Debug)]
pub enum Inp { Ints, Pairs, Two }
#[derive(Clone, Copy, PartialEq, Debug)]
pub enum Adm {
    /// NoOrder + AtLeastOnce: same set of elements
    SameSet,
    /// NoOrder + ExactlyOnce: permutation
    Perm,
    /// TotalOrder + AtLeastOnce: stuttering
    Stutter,
    /// entries feeding a keyed singleton: distinct keys, any order
    PermDistinctKeys,
    /// (keys, vals): distinct keys in any order, vals unchanged
    RepeatKeys,
    /// casts: the same sequence
    Ident,
}
pub struct Op { pub name: &'static str, pub inp: Inp, pub top: bool, pub adm: Adm }

pub const OPS: &[Op] = &[
    Op { name: "max_tick", inp: Inp::Ints, top: false, adm: Adm::SameSet },
    Op { name: "min_tick", inp: Inp::Ints, top: false, adm: Adm::SameSet },
    Op { name: "first_tick", inp: Inp::Ints, top: false, adm: Adm::Stutter },
    Op { name: "last_tick", inp: Inp::Ints, top: false, adm: Adm::Stutter },
    Op { name: "count_tick", inp: Inp::Ints, top: false, adm: Adm::Perm },
    Op { name: "is_empty_tick", inp: Inp::Ints, top: false, adm: Adm::SameSet },
    Op { name: "max_top", inp: Inp::Ints, top: true, adm: Adm::SameSet },
    Op { name: "min_top", inp: Inp::Ints, top: true, adm: Adm::SameSet },
    Op { name: "first_top", inp: Inp::Ints, top: true, adm: Adm::Stutter },
    Op { name: "last_top", inp: Inp::Ints, top: true, adm: Adm::Stutter },
    Op { name: "count_top", inp: Inp::Ints, top: true, adm: Adm::Perm },
    Op { name: "vcount_tick", inp: Inp::Pairs, top: false, adm: Adm::Perm },
    Op { name: "vcount_top", inp: Inp::Pairs, top: true, adm: Adm::Perm },
    Op { name: "intosing_tick", inp: Inp::Pairs, top: false, adm: Adm::PermDistinctKeys },
    Op { name: "intosing_top", inp: Inp::Pairs, top: true, adm: Adm::PermDistinctKeys },
    Op { name: "intosing_mono", inp: Inp::Pairs, top: true, adm: Adm::PermDistinctKeys },
    Op { name: "maxkey_tick", inp: Inp::Pairs, top: false, adm: Adm::PermDistinctKeys },
    Op { name: "maxkey_top", inp: Inp::Pairs, top: true, adm: Adm::PermDistinctKeys },
    Op { name: "keycount_tick", inp: Inp::Pairs, top: false, adm: Adm::PermDistinctKeys },
    Op { name: "keycount_top", inp: Inp::Pairs, top: true, adm: Adm::PermDistinctKeys },
    Op { name: "keycount_mono", inp: Inp::Pairs, top: true, adm: Adm::PermDistinctKeys },
    Op { name: "repeat_tick", inp: Inp::Two, top: false, adm: Adm::RepeatKeys },
    Op { name: "cast_stream", inp: Inp::Ints, top: false, adm: Adm::Ident },
    Op { name: "cast_keyed", inp: Inp::Pairs, top: false, adm: Adm::Ident },
];

pub fn find_op(name: &str) -> Option<&'static Op> { OPS.iter().find(|o| o.name == name) }

fn join<T>(r: Result<Vec<Vec<T>>, String>, f: impl Fn(&[T]) -> String) -> String {
    match r {
        Ok(per_tick) => per_tick.iter().map(|t| f(t)).collect::<Vec<_>>().join("|"),
        Err(_) => "panic".into(),
    }
}

fn hm_sorted(m: &std::collections::HashMap<i32, i32>) -> String {
    let v: Vec<(i32, i32)> = m.iter().map(|(a, b)| (*a, *b)).collect();
    show_sorted_pairs(&v)
}

/// run a fresh instance of flow `op` on the tick fields; None = malformed line
pub fn exec(op: &Op, field: &str) -> Option<String> {
    let ticks: Vec<&str> = field.split('|').collect();
    Some(match op.inp {
        Inp::Ints => {
            let t: Vec<Vec<i32>> = ticks.iter().map(|s| parse_ints(s)).collect::<Option<_>>()?;
            match op.name {
                "max_tick" => join(flowgen::run_c32_max_tick(&t), |o| one(o, show_opt_int)),
                "min_tick" => join(flowgen::run_c32_min_tick(&t), |o| one(o, show_opt_int)),
                "first_tick" => join(flowgen::run_c32_first_tick(&t), |o| one(o, show_opt_int)),
                "last_tick" => join(flowgen::run_c32_last_tick(&t), |o| one(o, show_opt_int)),
                "count_tick" => join(flowgen::run_c32_count_tick(&t), |o| one(o, |x| x.to_string())),
                "is_empty_tick" => join(flowgen::run_c32_is_empty_tick(&t), |o| one(o, |x| x.to_string())),
                "max_top" => join(flowgen::run_c32_max_top(&t), |o| one(o, show_opt_int)),
                "min_top" => join(flowgen::run_c32_min_top(&t), |o| one(o, show_opt_int)),
                "first_top" => join(flowgen::run_c32_first_top(&t), |o| one(o, show_opt_int)),
                "last_top" => join(flowgen::run_c32_last_top(&t), |o| one(o, show_opt_int)),
                "count_top" => join(flowgen::run_c32_count_top(&t), |o| one(o, |x| x.to_string())),
                "cast_stream" => join(flowgen::run_c32_cast_stream(&t), |o| show_ints(o)),
                _ => return None,
            }
        }
        Inp::Pairs => {
            let t: Vec<Vec<(i32, i32)>> = ticks.iter().map(|s| parse_pairs(s)).collect::<Option<_>>()?;
            match op.name {
                "vcount_tick" => join(flowgen::run_c32_vcount_tick(&t), |o| show_sorted_pairs(o)),
                "vcount_top" => join(flowgen::run_c32_vcount_top(&t), |o| show_sorted_pairs(o)),
                "intosing_tick" => join(flowgen::run_c32_intosing_tick(&t), |o| one(o, hm_sorted)),
                "intosing_top" => join(flowgen::run_c32_intosing_top(&t), |o| one(o, hm_sorted)),
                "intosing_mono" => join(flowgen::run_c32_intosing_mono(&t), |o| one(o, hm_sorted)),
                "maxkey_tick" => join(flowgen::run_c32_maxkey_tick(&t), |o| one(o, show_opt_pair)),
                "maxkey_top" => join(flowgen::run_c32_maxkey_top(&t), |o| one(o, show_opt_pair)),
                "keycount_tick" => join(flowgen::run_c32_keycount_tick(&t), |o| one(o, |x| x.to_string())),
                "keycount_top" => join(flowgen::run_c32_keycount_top(&t), |o| one(o, |x| x.to_string())),
                "keycount_mono" => join(flowgen::run_c32_keycount_mono(&t), |o| one(o, |x| x.to_string())),
                "cast_keyed" => join(flowgen::run_c32_cast_keyed(&t), |o| show_pairs(o)),
                _ => return None,
            }
        }
        Inp::Two => {
            let mut t = Vec::new();
            for s in &ticks {
                let (a, b) = s.split_once('/')?;
                t.push((parse_pairs(a)?, parse_ints(b)?));
            }
            match op.name {
                "repeat_tick" => join(flowgen::run_c32_repeat_tick(&t), |o| show_keyed(o)),
                _ => return None,
            }
        }
    })
}

fn runs(l: &[i32]) -> Vec<(i32, usize)> {
    let mut r: Vec<(i32, usize)> = vec![];
    for &x in l {
        match r.last_mut() { Some((y, n)) if *y == x => *n += 1, _ => r.push((x, 1)) }
    }
    r
}

/// is `var` an admissible re-delivery of `base` for this operator's input type?
pub fn admissible(op: &Op, base: &str, var: &str) -> bool {
    if !op.top && (base.contains('|') || var.contains('|')) { return false; }
    let flat = |s: &str| -> String {
        let parts: Vec<&str> = s.split('|').filter(|p| *p != "-").collect();
        if parts.is_empty() { "-".into() } else { parts.join(",") }
    };
    match op.inp {
        Inp::Ints => {
            let (Some(b), Some(v)) = (parse_ints(&flat(base)), parse_ints(&flat(var))) else { return false };
            match op.adm {
                Adm::SameSet => b.iter().collect::<BTreeSet<_>>() == v.iter().collect::<BTreeSet<_>>(),
                Adm::Perm => { let (mut b, mut v) = (b, v); b.sort(); v.sort(); b == v }
                Adm::Stutter => {
                    let (rb, rv) = (runs(&b), runs(&v));
                    rb.len() == rv.len() && rb.iter().zip(&rv).all(|((x, n), (y, m))| x == y && m >= n)
                }
                Adm::Ident => b == v,
                _ => false,
            }
        }
        Inp::Pairs => {
            let (Some(b), Some(v)) = (parse_pairs(&flat(base)), parse_pairs(&flat(var))) else { return false };
            match op.adm {
                Adm::Perm => { let (mut b, mut v) = (b, v); b.sort(); v.sort(); b == v }
                Adm::PermDistinctKeys => {
                    let ks: BTreeSet<i32> = b.iter().map(|p| p.0).collect();
                    let (mut b2, mut v2) = (b.clone(), v); b2.sort(); v2.sort();
                    ks.len() == b.len() && b2 == v2
                }
                Adm::Ident => b == v,
                _ => false,
            }
        }
        Inp::Two => {
            let (Some((bk, bv)), Some((vk, vv))) = (base.split_once('/'), var.split_once('/')) else { return false };
            let (Some(bk), Some(vk)) = (parse_pairs(bk), parse_pairs(vk)) else { return false };
            let ks: BTreeSet<i32> = bk.iter().map(|p| p.0).collect();
            let (mut b2, mut v2) = (bk.clone(), vk); b2.sort(); v2.sort();
            ks.len() == bk.len() && b2 == v2 && bv == vv
        }
    }
}

struct CaseState { op: Option<&'static Op>, base: Option<(String, String)>, variants: usize, distinct: BTreeSet<String> }

fn do_line(rec: &mut Recorder, st: &mut CaseState, line: &str) {
    let mut it = line.splitn(2, ' ');
    let (cmd, rest) = (it.next().unwrap_or(""), it.next().unwrap_or(""));
    let Some(op) = st.op else { rec.line(line, "bad-op"); return };
    if !(cmd == "r" || cmd == "v") || rest.contains(' ') || rest.is_empty() { rec.line(line, "bad-op"); return }
    // a variant line counts for the oracle only if it is admissible w.r.t. the first `v` line of the
    // case; otherwise it is an ordinary run
    let mut is_variant = cmd == "v";
    if is_variant {
        let ok = match &st.base { Some((b, _)) => admissible(op, b, rest), None => admissible(op, rest, rest) };
        if !ok { is_variant = false; rec.count("inadmissible-variant-line"); }
    }
    let Some(out) = exec(op, rest) else { rec.line(line, "bad-op"); return };
    rec.count(&format!("op:{}", op.name));
    rec.count(&format!("ticks:{}", rest.split('|').count().min(5)));
    rec.check(out != "panic" && !out.contains("#"), &format!("c32-ill-formed-output@{}", op.name), &format!("{line} -> {out}"));
    if is_variant {
        let fin = out.rsplit('|').next().unwrap_or("").to_string();
        match &st.base {
            None => st.base = Some((rest.to_string(), fin)),
            Some((b, bfin)) => {
                st.variants += 1;
                if st.distinct.insert(rest.to_string()) && rest != b { rec.count("variant-lines"); }
                rec.check(&fin == bfin, &format!("c32-variance@{}", op.name),
                    &format!("base `{b}` -> {bfin} but admissible delivery `{rest}` -> {fin}"));
            }
        }
    }
    rec.line(line, &out);
}

fn start_case(rec: &mut Recorder, st: &mut CaseState, n: u64, tags: &str) {
    rec.case(n, tags);
    let opname = tags.split(' ').find_map(|w| w.strip_prefix("op=")).unwrap_or("");
    *st = CaseState { op: find_op(opname), base: None, variants: 0, distinct: BTreeSet::new() };
}

fn end_case(rec: &mut Recorder, st: &CaseState) {
    if st.distinct.len() >= 2 { rec.nontrivial(); }
}

// ------------------------------------------------------------------ generation

fn perms<T: Clone + Ord>(l: &[T], limit: usize, rng: &mut Rng) -> Vec<Vec<T>> {
    // all distinct permutations if there are at most `limit`, else `limit` random ones
    fn rec_perm<T: Clone + Ord>(rest: &mut Vec<T>, cur: &mut Vec<T>, out: &mut BTreeSet<Vec<T>>, cap: usize) {
        if out.len() > cap { return }
        if rest.is_empty() { out.insert(cur.clone()); return }
        for i in 0..rest.len() {
            let x = rest.remove(i);
            cur.push(x.clone());
            rec_perm(rest, cur, out, cap);
            cur.pop();
            rest.insert(i, x);
        }
    }
    let mut all = BTreeSet::new();
    if l.len() <= 5 {
        rec_perm(&mut l.to_vec(), &mut vec![], &mut all, 130);
        if all.len() <= limit { return all.into_iter().collect(); }
    }
    let mut out = BTreeSet::new();
    for _ in 0..limit * 3 {
        let mut p = l.to_vec();
        for i in (1..p.len()).rev() { let j = rng.below(i as u64 + 1) as usize; p.swap(i, j); }
        out.insert(p);
        if out.len() >= limit { break }
    }
    out.into_iter().collect()
}

fn partition<T: Clone>(l: &[T], rng: &mut Rng, top: bool) -> Vec<Vec<T>> {
    if !top { return vec![l.to_vec()] }
    let nt = rng.range(1, 4) as usize;
    let mut ticks: Vec<Vec<T>> = vec![vec![]; nt];
    // contiguous split at random cut points (batches are contiguous and keep the order)
    let mut cuts: Vec<usize> = (0..nt - 1).map(|_| rng.below(l.len() as u64 + 1) as usize).collect();
    cuts.sort();
    let mut start = 0;
    for (i, c) in cuts.iter().chain(std::iter::once(&l.len())).enumerate() {
        ticks[i] = l[start..*c].to_vec();
        start = *c;
    }
    ticks
}

fn gen_ints(rng: &mut Rng, nmax: u64) -> Vec<i32> {
    let n = rng.range(0, nmax);
    (0..n).map(|_| rng.range(0, 5) as i32 - 2).collect()
}

fn gen_case(rec: &mut Recorder, st: &mut CaseState, idx: u64, seed: u64, thorough: bool) {
    let mut rng = Rng::new(seed).fork(idx);
    let op = &OPS[(idx as usize) % OPS.len()];
    start_case(rec, st, idx, &format!("mode=c32 op={}", op.name));
    let limit = if thorough { 120 } else { 24 };
    let ndup = if thorough { 12 } else { 5 };
    let nmax = 5;
    let mut lines: Vec<String> = vec![];
    match (op.inp, op.adm) {
        (Inp::Ints, Adm::SameSet) | (Inp::Ints, Adm::Perm) => {
            let base = gen_ints(&mut rng, nmax);
            lines.push(format!("v {}", show_ticks_ints(&partition(&base, &mut rng, op.top))));
            for p in perms(&base, limit, &mut rng) {
                lines.push(format!("v {}", show_ticks_ints(&partition(&p, &mut rng, op.top))));
            }
            if op.adm == Adm::SameSet && !base.is_empty() {
                for _ in 0..ndup {
                    let mut p = perms(&base, 1, &mut rng).pop().unwrap_or_default();
                    if rng.chance(1, 3) {
                        // drop repeated copies first: the set is what matters
                        let mut seen = BTreeSet::new();
                        p.retain(|x| seen.insert(*x));
                    }
                    for _ in 0..rng.range(1, 3) {
                        let x = *rng.pick(&base);
                        let at = rng.below(p.len() as u64 + 1) as usize;
                        p.insert(at, x);
                    }
                    lines.push(format!("v {}", show_ticks_ints(&partition(&p, &mut rng, op.top))));
                }
            }
        }
        (Inp::Ints, Adm::Stutter) => {
            let base = gen_ints(&mut rng, nmax);
            lines.push(format!("v {}", show_ticks_ints(&partition(&base, &mut rng, op.top))));
            for _ in 0..(ndup * 2) {
                let mut p = vec![];
                for &x in &base { for _ in 0..rng.range(1, 3) { p.push(x); } }
                lines.push(format!("v {}", show_ticks_ints(&partition(&p, &mut rng, op.top))));
            }
        }
        (Inp::Ints, _) => {
            let base = gen_ints(&mut rng, nmax);
            lines.push(format!("v {}", show_ints(&base)));
            lines.push(format!("v {}", show_ints(&base)));
        }
        (Inp::Pairs, Adm::Perm) => {
            let n = rng.range(0, nmax);
            let base: Vec<(i32, i32)> = (0..n).map(|_| (rng.range(0, 2) as i32, rng.range(0, 3) as i32)).collect();
            lines.push(format!("v {}", show_ticks_pairs(&partition(&base, &mut rng, op.top))));
            for p in perms(&base, limit, &mut rng) {
                lines.push(format!("v {}", show_ticks_pairs(&partition(&p, &mut rng, op.top))));
            }
        }
        (Inp::Pairs, Adm::PermDistinctKeys) => {
            let n = rng.range(0, nmax) as usize;
            let mut keys: Vec<i32> = (0..7).collect();
            for i in (1..keys.len()).rev() { let j = rng.below(i as u64 + 1) as usize; keys.swap(i, j); }
            let base: Vec<(i32, i32)> = keys[..n].iter().map(|k| (*k, rng.range(0, 3) as i32 + 1)).collect();
            lines.push(format!("v {}", show_ticks_pairs(&partition(&base, &mut rng, op.top))));
            for p in perms(&base, limit, &mut rng) {
                lines.push(format!("v {}", show_ticks_pairs(&partition(&p, &mut rng, op.top))));
            }
        }
        (Inp::Pairs, _) => {
            let n = rng.range(0, nmax);
            let base: Vec<(i32, i32)> = (0..n).map(|_| (rng.range(0, 2) as i32, rng.range(0, 3) as i32)).collect();
            lines.push(format!("v {}", show_pairs(&base)));
            lines.push(format!("v {}", show_pairs(&base)));
        }
        (Inp::Two, _) => {
            let n = rng.range(0, 4) as usize;
            let mut keys: Vec<i32> = (0..6).collect();
            for i in (1..keys.len()).rev() { let j = rng.below(i as u64 + 1) as usize; keys.swap(i, j); }
            let ks: Vec<(i32, i32)> = keys[..n].iter().map(|k| (*k, rng.range(0, 3) as i32)).collect();
            let vs = gen_ints(&mut rng, 5);
            lines.push(format!("v {}/{}", show_pairs(&ks), show_ints(&vs)));
            for p in perms(&ks, limit, &mut rng) {
                lines.push(format!("v {}/{}", show_pairs(&p), show_ints(&vs)));
            }
        }
    }
    // unrelated multi-tick runs: correspondence of the per-tick outputs (tick state does not leak)
    for _ in 0..2 {
        let nt = rng.range(1, 4);
        let field = match op.inp {
            Inp::Ints => show_ticks_ints(&(0..nt).map(|_| gen_ints(&mut rng, 4)).collect::<Vec<_>>()),
            Inp::Pairs => show_ticks_pairs(&(0..nt).map(|_| {
                let n = rng.range(0, 4);
                (0..n).map(|_| (rng.range(0, 3) as i32, rng.range(0, 3) as i32)).collect()
            }).collect::<Vec<_>>()),
            Inp::Two => (0..nt).map(|_| {
                let n = rng.range(0, 3);
                let ks: Vec<(i32, i32)> = (0..n).map(|_| (rng.range(0, 3) as i32, rng.range(0, 3) as i32)).collect();
                format!("{}/{}", show_pairs(&ks), show_ints(&gen_ints(&mut rng, 4)))
            }).collect::<Vec<_>>().join("|"),
        };
        lines.push(format!("r {field}"));
    }
    if idx % 16 == 5 { lines.push("r 1,,x".into()); lines.push("w 1".into()); }
    for l in lines { do_line(rec, st, &l); }
    end_case(rec, st);
}

pub fn run(args: &Args) -> Recorder {
    let mut rec = Recorder::new("a case is non-trivial when it holds at least two distinct admissible deliveries (different order or multiplicity) of the same content");
    let mut st = CaseState { op: None, base: None, variants: 0, distinct: BTreeSet::new() };
    if let Some(p) = &args.replay {
        let mut open = false;
        for line in read_lines(p) {
            if let Some(rest) = line.strip_prefix("#case") {
                if open { end_case(&mut rec, &st); }
                let rest = rest.trim();
                let (n, tags) = rest.split_once(' ').unwrap_or((rest, ""));
                start_case(&mut rec, &mut st, n.parse().unwrap_or(0), tags);
                open = true;
            } else {
                if !open { start_case(&mut rec, &mut st, 0, ""); open = true; }
                do_line(&mut rec, &mut st, &line);
            }
        }
        if open { end_case(&mut rec, &st); }
        return rec;
    }
    let thorough = args.tier == "thorough";
    for i in 0..args.cases { gen_case(&mut rec, &mut st, i, args.seed, thorough); }
    rec
}
