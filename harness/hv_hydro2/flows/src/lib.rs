//! Hydro flows compiled through the production code generator (`generate_embedded`) by
//! `hv_hydro2/build.rs`.  Every flow reads `embedded_input`s and writes `embedded_output`s; the
//! harness decides the tick partition by feeding the inputs tick by tick.
#[cfg(stageleft_runtime)]
hydro_lang::setup!();

pub mod c31;
pub mod c32;
pub mod c33;
pub mod c34;
