//! C34 corpus: an atomic region updates state and releases acknowledgements; reads take an
//! atomic snapshot of that state.
use hydro_lang::live_collections::stream::TotalOrder;
use hydro_lang::prelude::*;

use crate::c32::In;

/// `location/tick.rs::tests::sim_atomic_stream`: a summing register
pub fn atomic_sum<'a>(writes: In<'a, i32>, reads: In<'a, i32>) {
    let atomic_write = writes.atomic();
    let current_state = atomic_write.clone().fold(
        q!(|| 0i32),
        q!(|state: &mut i32, v: i32| {
            *state += v;
        }),
    );
    atomic_write.end_atomic().embedded_output("acks");
    sliced! {
        let batch_of_req = use::batch(reads, nondet!(/** harness decides batches */));
        let latest_singleton = use::atomic(current_state, nondet!(/** atomic snapshot */));
        batch_of_req.cross_singleton(latest_singleton)
    }
    .embedded_output("resp");
}

/// `hydro_test::tutorials::keyed_counter` with integer keys: increments `(client, key)` are
/// acknowledged after the per-key counter is updated; `get` requests `(client, key)` read it.
pub fn keyed_counter<'a>(incs: In<'a, (i32, i32)>, gets: In<'a, (i32, i32)>) {
    let increment_request_processing = incs.into_keyed().atomic();
    let current_count = increment_request_processing
        .clone()
        .entries()
        .map(q!(|(_, key)| (key, ())))
        .into_keyed()
        .value_counts();
    let increment_ack = increment_request_processing.end_atomic();
    increment_ack
        .entries()
        .assume_ordering::<TotalOrder>(nondet!(/** harness sorts */))
        .embedded_output("acks");

    let requests_regrouped = gets
        .into_keyed()
        .entries()
        .map(q!(|(cid, key)| (key, cid)))
        .into_keyed();

    let get_lookup = sliced! {
        let request_batch = use::batch(requests_regrouped, nondet!(/** we never observe batch boundaries */));
        let count_snapshot = use::atomic(current_count, nondet!(/** atomicity guarantees consistency wrt increments */));
        request_batch.join_keyed_singleton(count_snapshot)
    };

    get_lookup
        .entries()
        .map(q!(|(key, (client, count))| (client, (key, count))))
        .assume_ordering::<TotalOrder>(nondet!(/** harness sorts */))
        .embedded_output("resp");
}

/// the same register read *without* atomicity (`use::snapshot` of the top-level state after
/// `end_atomic`-less processing): used as a contrast in the corpus, not subject to the oracle
pub fn plain_sum<'a>(writes: In<'a, i32>, reads: In<'a, i32>) {
    let current_state = writes.clone().fold(
        q!(|| 0i32),
        q!(|state: &mut i32, v: i32| {
            *state += v;
        }),
    );
    writes.embedded_output("acks");
    sliced! {
        let batch_of_req = use::batch(reads, nondet!(/** harness decides batches */));
        let latest_singleton = use::snapshot(current_state, nondet!(/** plain snapshot */));
        batch_of_req.cross_singleton(latest_singleton)
    }
    .embedded_output("resp");
}

// ---- reduce-style registers (state kept with `reduce` / `max` / keyed `reduce` inside the atomic
// region: the Reduce / ReduceKeyed arm of emit_core, not the Fold arm) ----

/// last-writer-wins register (`.last()` = `reduce(|curr, new| *curr = new)`) updated in the atomic
/// region; a read answers `(id, Option<value>)`
pub fn atomic_lww<'a>(writes: In<'a, i32>, reads: In<'a, i32>) {
    let atomic_write = writes.atomic();
    let register = atomic_write.clone().last();
    atomic_write.end_atomic().embedded_output("acks");
    sliced! {
        let batch_of_req = use::batch(reads, nondet!(/** harness decides batches */));
        let latest = use::atomic(register, nondet!(/** atomic snapshot */));
        batch_of_req.cross_singleton(latest.into_singleton())
    }
    .embedded_output("resp");
}

/// high-water-mark register (`.max()`) updated in the atomic region
pub fn atomic_max<'a>(writes: In<'a, i32>, reads: In<'a, i32>) {
    let atomic_write = writes.atomic();
    let register = atomic_write.clone().max();
    atomic_write.end_atomic().embedded_output("acks");
    sliced! {
        let batch_of_req = use::batch(reads, nondet!(/** harness decides batches */));
        let latest = use::atomic(register, nondet!(/** atomic snapshot */));
        batch_of_req.cross_singleton(latest.into_singleton())
    }
    .embedded_output("resp");
}

/// per-key last-writer-wins registers (keyed `reduce`): writes `(key, value)` are acknowledged
/// after the key's register is overwritten; `get` requests `(client, key)` read it
pub fn keyed_lww<'a>(incs: In<'a, (i32, i32)>, gets: In<'a, (i32, i32)>) {
    let write_processing = incs.into_keyed().atomic();
    let registers = write_processing
        .clone()
        .reduce(q!(|curr: &mut i32, new: i32| *curr = new));
    let write_ack = write_processing.end_atomic();
    write_ack
        .entries()
        .assume_ordering::<TotalOrder>(nondet!(/** harness sorts */))
        .embedded_output("acks");

    let requests_regrouped = gets
        .into_keyed()
        .entries()
        .map(q!(|(cid, key)| (key, cid)))
        .into_keyed();

    let get_lookup = sliced! {
        let request_batch = use::batch(requests_regrouped, nondet!(/** we never observe batch boundaries */));
        let snapshot = use::atomic(registers, nondet!(/** atomicity guarantees consistency wrt writes */));
        request_batch.join_keyed_singleton(snapshot)
    };

    get_lookup
        .entries()
        .map(q!(|(key, (client, value))| (client, (key, value))))
        .assume_ordering::<TotalOrder>(nondet!(/** harness sorts */))
        .embedded_output("resp");
}
