//! C33 corpus: top-level aggregations whose *types* promise monotone growth; the harness snapshots
//! them every tick.  The type annotations are part of the tie: if the bound mapping
//! (`KeyedStreamToMonotone`, `StreamToMonotone`, `WithBoundedValue`, …) changes, this file stops
//! compiling.
use hydro_lang::live_collections::keyed_singleton::{BoundedValue, MonotonicKeys, MonotonicValue};
use hydro_lang::live_collections::singleton::Monotonic;
use hydro_lang::live_collections::stream::TotalOrder;
use hydro_lang::prelude::*;

use crate::c32::{In, P};

pub fn cnt<'a>(input: In<'a, i32>) {
    let tick = input.location().tick();
    let c: Singleton<usize, P<'a>, Monotonic> = input.count();
    c.snapshot(&tick, nondet!(/** harness observes every tick */))
        .all_ticks()
        .embedded_output("out");
}

pub fn fmax<'a>(input: In<'a, i32>) {
    let tick = input.location().tick();
    let s: Singleton<i32, P<'a>, Monotonic> = input.fold(
        q!(|| i32::MIN),
        q!(
            |acc, v| {
                if v > *acc {
                    *acc = v;
                }
            },
            monotone = manual_proof!(/** a running maximum only grows */)
        ),
    );
    s.snapshot(&tick, nondet!(/** harness observes every tick */))
        .all_ticks()
        .embedded_output("out");
}

pub fn vcount<'a>(input: In<'a, (i32, i32)>) {
    let tick = input.location().tick();
    let k: KeyedSingleton<i32, usize, P<'a>, MonotonicValue> = input.into_keyed().value_counts();
    k.snapshot(&tick, nondet!(/** harness observes every tick */))
        .entries()
        .all_ticks()
        .assume_ordering::<TotalOrder>(nondet!(/** harness sorts */))
        .embedded_output("out");
}

pub fn kmax<'a>(input: In<'a, (i32, i32)>) {
    let tick = input.location().tick();
    let k: KeyedSingleton<i32, i32, P<'a>, MonotonicValue> = input.into_keyed().fold(
        q!(|| i32::MIN),
        q!(
            |acc, v| {
                if v > *acc {
                    *acc = v;
                }
            },
            monotone = manual_proof!(/** a running maximum only grows */)
        ),
    );
    k.snapshot(&tick, nondet!(/** harness observes every tick */))
        .entries()
        .all_ticks()
        .assume_ordering::<TotalOrder>(nondet!(/** harness sorts */))
        .embedded_output("out");
}

pub fn ksum<'a>(input: In<'a, (i32, i32)>) {
    let tick = input.location().tick();
    let k: KeyedSingleton<i32, i32, P<'a>, MonotonicKeys> =
        input.into_keyed().fold(q!(|| 0i32), q!(|acc, v| *acc += v));
    k.snapshot(&tick, nondet!(/** harness observes every tick */))
        .entries()
        .all_ticks()
        .assume_ordering::<TotalOrder>(nondet!(/** harness sorts */))
        .embedded_output("out");
}

pub fn kfirst_map<'a>(input: In<'a, (i32, i32)>) {
    let tick = input.location().tick();
    let k: KeyedSingleton<i32, i32, P<'a>, BoundedValue> = input.into_keyed().first();
    k.into_singleton()
        .snapshot(&tick, nondet!(/** harness observes every tick */))
        .all_ticks()
        .embedded_output("out");
}

pub fn kfirst_entries<'a>(input: In<'a, (i32, i32)>) {
    let k: KeyedSingleton<i32, i32, P<'a>, BoundedValue> = input.into_keyed().first();
    k.entries()
        .assume_ordering::<TotalOrder>(nondet!(/** harness sorts */))
        .embedded_output("out");
}

// ---- bound-preserving operators on keyed singletons (review): `filter` keeps a BoundedValue bound,
// `filter_map` / `map` go through `EraseMonotonic` (BoundedValue stays, MonotonicValue -> MonotonicKeys)

/// per-key first, filtered by a predicate on the (fixed) value: still `BoundedValue`
pub fn kfirst_filter<'a>(input: In<'a, (i32, i32)>) {
    let tick = input.location().tick();
    let k: KeyedSingleton<i32, i32, P<'a>, BoundedValue> = input.into_keyed().first().filter(q!(|v| *v > 0));
    k.into_singleton()
        .snapshot(&tick, nondet!(/** harness observes every tick */))
        .all_ticks()
        .embedded_output("out");
}

/// per-key first through `filter_map`: `BoundedValue::EraseMonotonic = BoundedValue`
pub fn kfirst_fmap<'a>(input: In<'a, (i32, i32)>) {
    let tick = input.location().tick();
    let k: KeyedSingleton<i32, i32, P<'a>, BoundedValue> =
        input.into_keyed().first().filter_map(q!(|v| if v % 2 == 0 { Some(v * 10) } else { None }));
    k.into_singleton()
        .snapshot(&tick, nondet!(/** harness observes every tick */))
        .all_ticks()
        .embedded_output("out");
}

/// a non-monotone map of a monotone count: `MonotonicValue::EraseMonotonic = MonotonicKeys` (keys persist,
/// values may go down)
pub fn vcount_map<'a>(input: In<'a, (i32, i32)>) {
    let tick = input.location().tick();
    let k: KeyedSingleton<i32, usize, P<'a>, MonotonicKeys> = input.into_keyed().value_counts().map(q!(|c| c % 2));
    k.snapshot(&tick, nondet!(/** harness observes every tick */))
        .entries()
        .all_ticks()
        .assume_ordering::<TotalOrder>(nondet!(/** harness sorts */))
        .embedded_output("out");
}
