//! C31 corpus: `sliced!` programs (batch hooks, snapshot hooks, `state` cycles).
use hydro_lang::live_collections::stream::TotalOrder;
use hydro_lang::prelude::*;

use crate::c32::{In, P};

/// the batches a slice observes
pub fn batches<'a>(input: In<'a, i32>) {
    sliced! {
        let b = use::batch(input, nondet!(/** harness decides batches */));
        b
    }
    .embedded_output("out");
}

/// a batch hook and a snapshot hook of the same source in one slice: (batch length, count so far)
pub fn batch_snap<'a>(input: In<'a, i32>) {
    let total = input.clone().count();
    sliced! {
        let b = use::batch(input, nondet!(/** harness decides batches */));
        let c = use::snapshot(total, nondet!(/** harness observes every tick */));
        b.count().zip(c).into_stream()
    }
    .embedded_output("out");
}

/// two batch hooks in one slice: (|a_t|, |b_t|, sum a_t, sum b_t)
pub fn two_batches<'a>(a: In<'a, i32>, b: In<'a, i32>) {
    sliced! {
        let x = use::batch(a, nondet!(/** harness decides batches */));
        let y = use::batch(b, nondet!(/** harness decides batches */));
        let sx = x.clone().fold(q!(|| 0i32), q!(|s, v| *s += v));
        let sy = y.clone().fold(q!(|| 0i32), q!(|s, v| *s += v));
        x.count().zip(y.count()).zip(sx.zip(sy)).into_stream()
    }
    .embedded_output("out");
}

/// `use::state` with an initial value: running count carried from slice to slice
pub fn state_counter<'a>(input: In<'a, i32>) {
    sliced! {
        let batch = use::batch(input, nondet!(/** harness decides batches */));
        let mut counter = use::state(|l| l.singleton(q!(0usize)));
        let new_count = counter.clone().zip(batch.count()).map(q!(|(old, add)| old + add));
        counter = new_count.clone();
        new_count.into_stream()
    }
    .embedded_output("out");
}

/// `use::state_null`: the last element of the *previous* slice's batch (null on the first slice
/// and after an empty batch)
pub fn state_prev_last<'a>(input: In<'a, i32>) {
    sliced! {
        let batch = use::batch(input, nondet!(/** harness decides batches */));
        let mut prev = use::state_null::<Optional<i32, Tick<P<'a>>, Bounded>>();
        let seen = prev.clone().into_singleton();
        prev = batch.last();
        seen.into_stream()
    }
    .embedded_output("out");
}

/// `use::state` on an `Optional` with a NON-null initial value whose body sometimes stores null:
/// the state is the sum of this slice's batch when that is positive, null otherwise.  A slice must
/// see exactly what the previous slice stored (null included); the initial value only in slice 0.
pub fn state_opt_keep<'a>(input: In<'a, i32>) {
    sliced! {
        let batch = use::batch(input, nondet!(/** harness decides batches */));
        let mut slot = use::state(|l| Optional::from(l.singleton(q!(100i32))));
        let seen = slot.clone().into_singleton();
        slot = batch.fold(q!(|| 0i32), q!(|s, v| *s += v)).filter(q!(|s| *s > 0));
        seen.into_stream()
    }
    .embedded_output("out");
}

/// a snapshot hook of a keyed aggregation next to a batch hook of lookups
pub fn lookup_counts<'a>(incs: In<'a, (i32, i32)>, gets: In<'a, i32>) {
    let counts = incs.into_keyed().value_counts();
    sliced! {
        let g = use::batch(gets.map(q!(|k| (k, ()))).into_keyed(), nondet!(/** harness decides batches */));
        let c = use::snapshot(counts, nondet!(/** harness observes every tick */));
        g.join_keyed_singleton(c).entries().map(q!(|(k, ((), n))| (k, n)))
    }
    .assume_ordering::<TotalOrder>(nondet!(/** harness sorts */))
    .embedded_output("out");
}
