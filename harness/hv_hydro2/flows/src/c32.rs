//! C32 corpus: one flow per library operator that calls `assume_ordering_trusted` /
//! `assume_retries_trusted`.  The input is declared with the *weakest* type the operator accepts
//! (via `weaken_ordering` / `weaken_retries`, themselves trusted sites), so the harness may feed it
//! in any order / with any duplication that type permits.
use hydro_lang::live_collections::stream::{AtLeastOnce, ExactlyOnce, NoOrder, TotalOrder};
use hydro_lang::prelude::*;

pub type P<'a> = Process<'a, ()>;
pub type In<'a, T> = Stream<T, P<'a>, Unbounded, TotalOrder, ExactlyOnce>;

// ---- per-tick (Bounded) variants: the `_trusted_bounded` branch is taken ----
pub fn max_tick<'a>(input: In<'a, i32>) {
    let tick = input.location().tick();
    input
        .weaken_ordering::<NoOrder>()
        .weaken_retries::<AtLeastOnce>()
        .batch(&tick, nondet!(/** harness decides batches */))
        .max()
        .into_singleton()
        .all_ticks()
        .embedded_output("out");
}

pub fn min_tick<'a>(input: In<'a, i32>) {
    let tick = input.location().tick();
    input
        .weaken_ordering::<NoOrder>()
        .weaken_retries::<AtLeastOnce>()
        .batch(&tick, nondet!(/** harness decides batches */))
        .min()
        .into_singleton()
        .all_ticks()
        .embedded_output("out");
}

pub fn first_tick<'a>(input: In<'a, i32>) {
    let tick = input.location().tick();
    input
        .weaken_retries::<AtLeastOnce>()
        .batch(&tick, nondet!(/** harness decides batches */))
        .first()
        .into_singleton()
        .all_ticks()
        .embedded_output("out");
}

pub fn last_tick<'a>(input: In<'a, i32>) {
    let tick = input.location().tick();
    input
        .weaken_retries::<AtLeastOnce>()
        .batch(&tick, nondet!(/** harness decides batches */))
        .last()
        .into_singleton()
        .all_ticks()
        .embedded_output("out");
}

pub fn count_tick<'a>(input: In<'a, i32>) {
    let tick = input.location().tick();
    input
        .weaken_ordering::<NoOrder>()
        .batch(&tick, nondet!(/** harness decides batches */))
        .count()
        .all_ticks()
        .embedded_output("out");
}

pub fn is_empty_tick<'a>(input: In<'a, i32>) {
    let tick = input.location().tick();
    input
        .weaken_ordering::<NoOrder>()
        .weaken_retries::<AtLeastOnce>()
        .batch(&tick, nondet!(/** harness decides batches */))
        .is_empty()
        .all_ticks()
        .embedded_output("out");
}

// ---- top-level (Unbounded) variants: state is `'static`, a snapshot is taken every tick ----
pub fn max_top<'a>(input: In<'a, i32>) {
    let tick = input.location().tick();
    input
        .weaken_ordering::<NoOrder>()
        .weaken_retries::<AtLeastOnce>()
        .max()
        .snapshot(&tick, nondet!(/** harness observes every tick */))
        .into_singleton()
        .all_ticks()
        .embedded_output("out");
}

pub fn min_top<'a>(input: In<'a, i32>) {
    let tick = input.location().tick();
    input
        .weaken_ordering::<NoOrder>()
        .weaken_retries::<AtLeastOnce>()
        .min()
        .snapshot(&tick, nondet!(/** harness observes every tick */))
        .into_singleton()
        .all_ticks()
        .embedded_output("out");
}

pub fn first_top<'a>(input: In<'a, i32>) {
    let tick = input.location().tick();
    input
        .weaken_retries::<AtLeastOnce>()
        .first()
        .snapshot(&tick, nondet!(/** harness observes every tick */))
        .into_singleton()
        .all_ticks()
        .embedded_output("out");
}

pub fn last_top<'a>(input: In<'a, i32>) {
    let tick = input.location().tick();
    input
        .weaken_retries::<AtLeastOnce>()
        .last()
        .snapshot(&tick, nondet!(/** harness observes every tick */))
        .into_singleton()
        .all_ticks()
        .embedded_output("out");
}

pub fn count_top<'a>(input: In<'a, i32>) {
    let tick = input.location().tick();
    input
        .weaken_ordering::<NoOrder>()
        .count()
        .snapshot(&tick, nondet!(/** harness observes every tick */))
        .all_ticks()
        .embedded_output("out");
}

// ---- keyed operators ----
pub fn vcount_tick<'a>(input: In<'a, (i32, i32)>) {
    let tick = input.location().tick();
    input
        .into_keyed()
        .weaken_ordering::<NoOrder>()
        .batch(&tick, nondet!(/** harness decides batches */))
        .value_counts()
        .entries()
        .all_ticks()
        .assume_ordering::<TotalOrder>(nondet!(/** harness sorts */))
        .embedded_output("out");
}

pub fn vcount_top<'a>(input: In<'a, (i32, i32)>) {
    let tick = input.location().tick();
    input
        .into_keyed()
        .weaken_ordering::<NoOrder>()
        .value_counts()
        .snapshot(&tick, nondet!(/** harness observes every tick */))
        .entries()
        .all_ticks()
        .assume_ordering::<TotalOrder>(nondet!(/** harness sorts */))
        .embedded_output("out");
}

pub fn intosing_tick<'a>(input: In<'a, (i32, i32)>) {
    let tick = input.location().tick();
    input
        .into_keyed()
        .batch(&tick, nondet!(/** harness decides batches */))
        .first()
        .into_singleton()
        .all_ticks()
        .embedded_output("out");
}

pub fn intosing_top<'a>(input: In<'a, (i32, i32)>) {
    let tick = input.location().tick();
    input
        .into_keyed()
        .first()
        .into_singleton()
        .snapshot(&tick, nondet!(/** harness observes every tick */))
        .all_ticks()
        .embedded_output("out");
}

pub fn intosing_mono<'a>(input: In<'a, (i32, i32)>) {
    let tick = input.location().tick();
    input
        .into_keyed()
        .fold(q!(|| 0i32), q!(|acc, v| *acc += v))
        .into_singleton()
        .snapshot(&tick, nondet!(/** harness observes every tick */))
        .all_ticks()
        .embedded_output("out");
}

pub fn maxkey_tick<'a>(input: In<'a, (i32, i32)>) {
    let tick = input.location().tick();
    input
        .into_keyed()
        .batch(&tick, nondet!(/** harness decides batches */))
        .first()
        .get_max_key()
        .into_singleton()
        .all_ticks()
        .embedded_output("out");
}

pub fn maxkey_top<'a>(input: In<'a, (i32, i32)>) {
    let tick = input.location().tick();
    input
        .into_keyed()
        .first()
        .get_max_key()
        .snapshot(&tick, nondet!(/** harness observes every tick */))
        .into_singleton()
        .all_ticks()
        .embedded_output("out");
}

pub fn keycount_tick<'a>(input: In<'a, (i32, i32)>) {
    let tick = input.location().tick();
    input
        .into_keyed()
        .batch(&tick, nondet!(/** harness decides batches */))
        .first()
        .key_count()
        .all_ticks()
        .embedded_output("out");
}

pub fn keycount_top<'a>(input: In<'a, (i32, i32)>) {
    let tick = input.location().tick();
    input
        .into_keyed()
        .first()
        .key_count()
        .snapshot(&tick, nondet!(/** harness observes every tick */))
        .all_ticks()
        .embedded_output("out");
}

pub fn keycount_mono<'a>(input: In<'a, (i32, i32)>) {
    let tick = input.location().tick();
    input
        .into_keyed()
        .fold(q!(|| 0i32), q!(|acc, v| *acc += v))
        .key_count()
        .snapshot(&tick, nondet!(/** harness observes every tick */))
        .all_ticks()
        .embedded_output("out");
}

pub fn repeat_tick<'a>(keys: In<'a, (i32, i32)>, vals: In<'a, i32>) {
    let tick = keys.location().tick();
    let ks = keys
        .into_keyed()
        .batch(&tick, nondet!(/** harness decides batches */))
        .first();
    vals.batch(&tick, nondet!(/** harness decides batches */))
        .repeat_with_keys(ks)
        .entries()
        .all_ticks()
        .assume_ordering::<TotalOrder>(nondet!(/** harness groups by key */))
        .embedded_output("out");
}

// ---- the casts themselves ----
pub fn cast_stream<'a>(input: In<'a, i32>) {
    input
        .make_totally_ordered()
        .make_exactly_once()
        .weaken_ordering::<NoOrder>()
        .weaken_retries::<AtLeastOnce>()
        .assume_ordering::<TotalOrder>(nondet!(/** harness compares the exact sequence */))
        .assume_retries::<ExactlyOnce>(nondet!(/** harness compares the exact sequence */))
        .embedded_output("out");
}

pub fn cast_keyed<'a>(input: In<'a, (i32, i32)>) {
    input
        .into_keyed()
        .make_totally_ordered()
        .make_exactly_once()
        .weaken_ordering::<NoOrder>()
        .weaken_retries::<AtLeastOnce>()
        .entries()
        .assume_ordering::<TotalOrder>(nondet!(/** harness compares the exact sequence */))
        .assume_retries::<ExactlyOnce>(nondet!(/** harness compares the exact sequence */))
        .embedded_output("out");
}
