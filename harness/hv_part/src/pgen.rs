//! Program generator over the DFIR operator catalogue: emits surface syntax as a list of
//! "program lines" (`s <statement>`, `lb` = `loop {`, `le` = `};`) so that a case can be
//! delta-debugged line by line and replayed from its text alone.

use hv_common::Rng;

#[derive(Clone, Debug)]
pub struct GNode {
    pub name: String,
    pub text: String, // operator text, may contain `#refs`
    pub ctx: usize,   // loop index, 0 = root
    pub anon: bool,
}
#[derive(Clone, Debug)]
pub struct GEdge {
    pub src: usize,
    pub sport: Option<String>,
    pub dst: usize,
    pub dport: Option<String>,
}
#[derive(Clone, Debug)]
struct Open {
    node: usize,
    port: Option<String>,
    ctx: usize,
}
struct Pending {
    node: usize,
    port: Option<String>,
    ctx: usize,
}

pub struct Prog {
    pub nodes: Vec<GNode>,
    pub edges: Vec<GEdge>,
    pub loops: Vec<usize>, // parent of loop i (loops[0] = root, parent 0)
    pub tags: Vec<&'static str>,
}

const UNARY: &[&str] = &[
    "map(|x| x)", "map(|x| x)", "filter(|_| true)", "inspect(|_| ())", "identity()", "flat_map(|x| [x])",
    "fold(|| 0, |a, x| ())", "fold::<'static>(|| 0, |a, x| ())", "reduce(|a, x| ())", "sort()", "unique()",
    "unique::<'static>()", "persist::<'static>()", "enumerate()", "resolve_futures_blocking()", "sort_by_key(|x| x)",
    "filter_map(|x| Some(x))", "multiset_delta()", "lattice_fold(|| 0)", "flatten()",
];
const BIN: &[(&str, &str, &str)] = &[
    ("join()", "0", "1"), ("join::<'static>()", "0", "1"), ("cross_join()", "0", "1"), ("difference()", "pos", "neg"),
    ("anti_join()", "pos", "neg"), ("zip()", "0", "1"), ("chain()", "0", "1"), ("cross_singleton()", "input", "single"),
    ("defer_signal()", "input", "signal"), ("join_multiset()", "0", "1"), ("zip_longest()", "0", "1"),
];

pub struct Cfg {
    pub size: u64,
    pub loops: bool,
    pub refs: bool,
    pub cycles: bool,
    pub malformed: bool,
}

impl Prog {
    fn add(&mut self, text: &str, ctx: usize) -> usize {
        let i = self.nodes.len();
        self.nodes.push(GNode { name: format!("v{i}"), text: text.to_string(), ctx, anon: false });
        i
    }
    fn edge(&mut self, o: &Open, dst: usize, dport: Option<&str>) {
        self.edges.push(GEdge { src: o.node, sport: o.port.clone(), dst, dport: dport.map(|s| s.to_string()) });
    }
}

fn take(r: &mut Rng, open: &mut Vec<Open>, ctx: Option<usize>) -> Option<Open> {
    let idxs: Vec<usize> = (0..open.len()).filter(|&i| ctx.is_none_or(|c| open[i].ctx == c)).collect();
    if idxs.is_empty() {
        return None;
    }
    let i = *r.pick(&idxs);
    Some(open.swap_remove(i))
}

/// closure text with handoff references spliced in
fn ref_closure(r: &mut Rng, base: &str, hvars: &mut [HVar], malformed: bool) -> String {
    if hvars.is_empty() {
        return base.to_string();
    }
    let n = if r.chance(1, 4) { 2 } else { 1 };
    let mut refs = Vec::new();
    for _ in 0..n {
        let k = r.below(hvars.len() as u64) as usize;
        let hv = &mut hvars[k];
        let txt = match hv.mode {
            0 => format!("#{}", hv.name),
            1 => {
                if hv.used == 0 || malformed {
                    format!("#mut {}", hv.name)
                } else {
                    continue; // a second ungrouped `#mut` would be a build error
                }
            }
            _ => {
                let g = hv.next_group;
                hv.next_group += if r.chance(2, 3) { 1 } else { 0 };
                let is_mut = r.chance(1, 3);
                if is_mut {
                    // a `mut` must be alone in its group: take a fresh group and close it
                    let g = hv.next_group + 1;
                    hv.next_group = g + 1;
                    format!("#{{{g}}} mut {}", hv.name)
                } else {
                    format!("#{{{g}}} {}", hv.name)
                }
            }
        };
        hv.used += 1;
        refs.push(txt);
    }
    if refs.is_empty() {
        return base.to_string();
    }
    let body = refs.iter().map(|t| format!("{{ let _ = {t}; }}")).collect::<Vec<_>>().join(" ");
    match base {
        "map" => format!("map(|x| {{ {body} x }})"),
        "filter" => format!("filter(|_| {{ {body} true }})"),
        "inspect" => format!("inspect(|_| {{ {body} }})"),
        _ => format!("for_each(|_| {{ {body} }})"),
    }
}

pub struct HVar {
    pub name: String,
    pub mode: u8, // 0 shared ungrouped, 1 single mut ungrouped, 2 grouped
    pub used: u32,
    pub next_group: u32,
}

pub fn generate(r: &mut Rng, cfg: &Cfg) -> Prog {
    let mut p = Prog { nodes: vec![], edges: vec![], loops: vec![0], tags: vec![] };
    let mut open: Vec<Open> = Vec::new();
    let mut pending: Vec<Pending> = Vec::new();
    let mut hvars: Vec<HVar> = Vec::new();
    let nsrc = r.range(1, 3);
    for _ in 0..nsrc {
        let n = p.add("source_iter([1])", 0);
        open.push(Open { node: n, port: None, ctx: 0 });
    }
    let steps = r.range(2, cfg.size.max(3));
    for _ in 0..steps {
        let a = r.below(100);
        if open.is_empty() {
            let n = p.add("source_iter([1])", 0);
            open.push(Open { node: n, port: None, ctx: 0 });
            continue;
        }
        if a < 30 {
            // unary
            let o = take(r, &mut open, None).unwrap();
            let mut text = r.pick(UNARY).to_string();
            if cfg.cycles && r.chance(1, 8) {
                text = if r.chance(1, 2) { "defer_tick()".into() } else { "defer_tick_lazy()".into() };
                p.tags.push("defer");
            } else if cfg.refs && r.chance(1, 3) {
                let b = *r.pick(&["map", "filter", "inspect"]);
                text = ref_closure(r, b, &mut hvars, cfg.malformed);
            }
            let n = p.add(&text, o.ctx);
            p.edge(&o, n, None);
            open.push(Open { node: n, port: None, ctx: o.ctx });
        } else if a < 42 {
            // tee / unzip
            let o = take(r, &mut open, None).unwrap();
            if r.chance(1, 5) {
                let n = p.add("unzip()", o.ctx);
                p.edge(&o, n, None);
                open.push(Open { node: n, port: Some("0".into()), ctx: o.ctx });
                open.push(Open { node: n, port: Some("1".into()), ctx: o.ctx });
            } else {
                let n = p.add("tee()", o.ctx);
                p.edge(&o, n, None);
                let k = r.range(1, 3);
                for _ in 0..k {
                    open.push(Open { node: n, port: None, ctx: o.ctx });
                }
            }
        } else if a < 56 {
            // multi-input
            let o1 = take(r, &mut open, None).unwrap();
            let Some(o2) = take(r, &mut open, Some(o1.ctx)) else {
                open.push(o1);
                continue;
            };
            if r.chance(1, 2) {
                let n = p.add("union()", o1.ctx);
                p.edge(&o1, n, None);
                p.edge(&o2, n, None);
                if r.chance(1, 3) {
                    if let Some(o3) = take(r, &mut open, Some(o1.ctx)) {
                        p.edge(&o3, n, None);
                    }
                }
                if cfg.cycles && r.chance(1, 2) {
                    pending.push(Pending { node: n, port: None, ctx: o1.ctx });
                }
                open.push(Open { node: n, port: None, ctx: o1.ctx });
            } else {
                let (t, pa, pb) = *r.pick(BIN);
                let n = p.add(t, o1.ctx);
                p.edge(&o1, n, Some(pa));
                p.edge(&o2, n, Some(pb));
                open.push(Open { node: n, port: None, ctx: o1.ctx });
            }
        } else if a < 64 {
            // a lone union that only gets a (possibly cyclic) back input later
            let o = take(r, &mut open, None).unwrap();
            let n = p.add("union()", o.ctx);
            p.edge(&o, n, None);
            if cfg.cycles {
                pending.push(Pending { node: n, port: None, ctx: o.ctx });
            }
            open.push(Open { node: n, port: None, ctx: o.ctx });
        } else if a < 72 {
            // sink
            let o = take(r, &mut open, None).unwrap();
            let text = if cfg.refs && r.chance(1, 3) { ref_closure(r, "for_each", &mut hvars, cfg.malformed) } else if r.chance(1, 4) { "null()".to_string() } else { "for_each(|_| ())".to_string() };
            let n = p.add(&text, o.ctx);
            p.edge(&o, n, None);
        } else if a < 80 && cfg.refs {
            // handoff pseudo-operator
            let o = take(r, &mut open, None).unwrap();
            let t = *r.pick(&["handoff()", "singleton()", "optional()"]);
            let n = p.add(t, o.ctx);
            p.edge(&o, n, None);
            p.tags.push("hoffop");
            hvars.push(HVar { name: p.nodes[n].name.clone(), mode: r.below(3) as u8, used: 0, next_group: 0 });
            if r.chance(2, 3) {
                open.push(Open { node: n, port: None, ctx: o.ctx });
            }
        } else if a < 90 && cfg.loops {
            // enter a loop
            let o = take(r, &mut open, None).unwrap();
            let kids: Vec<usize> = (1..p.loops.len()).filter(|&l| p.loops[l] == o.ctx).collect();
            let l = if !kids.is_empty() && r.chance(2, 3) {
                *r.pick(&kids)
            } else {
                p.loops.push(o.ctx);
                p.loops.len() - 1
            };
            let n = p.add(if r.chance(1, 4) { "batch_lazy()" } else { "batch()" }, l);
            p.edge(&o, n, None);
            p.tags.push("loop");
            open.push(Open { node: n, port: None, ctx: l });
        } else if cfg.loops {
            // leave a loop
            let inside: Vec<usize> = (0..open.len()).filter(|&i| open[i].ctx != 0).collect();
            if inside.is_empty() {
                continue;
            }
            let o = open.swap_remove(*r.pick(&inside));
            let parent = p.loops[o.ctx];
            let n = p.add("all_iterations()", parent);
            p.edge(&o, n, None);
            open.push(Open { node: n, port: None, ctx: parent });
        }
    }
    // resolve pending back inputs: directly (a same-tick cycle if the output descends from the union)
    // or through defer_tick (never a same-tick cycle)
    for pd in pending {
        if !r.chance(3, 4) {
            continue;
        }
        let Some(o) = take(r, &mut open, Some(pd.ctx)) else { continue };
        if r.chance(1, 2) {
            let d = p.add(if r.chance(1, 3) { "defer_tick_lazy()" } else { "defer_tick()" }, pd.ctx);
            p.edge(&o, d, None);
            p.edges.push(GEdge { src: d, sport: None, dst: pd.node, dport: pd.port.clone() });
            p.tags.push("backedge-deferred");
        } else {
            p.edge(&o, pd.node, pd.port.as_deref());
            p.tags.push("backedge-direct");
        }
    }
    if cfg.malformed && r.chance(1, 2) && !open.is_empty() {
        // malformed: an edge crossing loop contexts without a windowing operator
        let o = take(r, &mut open, None).unwrap();
        let l = r.below(p.loops.len() as u64) as usize;
        let n = p.add("map(|x| x)", l);
        p.edge(&o, n, None);
        open.push(Open { node: n, port: None, ctx: l });
        p.tags.push("malformed");
    }
    // close what is left
    for o in std::mem::take(&mut open) {
        let n = p.add("for_each(|_| ())", o.ctx);
        p.edge(&o, n, None);
    }
    // pick anonymous nodes: unary/sink nodes with elided ports on both sides
    for i in 0..p.nodes.len() {
        let ins: Vec<&GEdge> = p.edges.iter().filter(|e| e.dst == i).collect();
        let outs: Vec<&GEdge> = p.edges.iter().filter(|e| e.src == i).collect();
        let referenced = hvars.iter().any(|h| h.name == p.nodes[i].name);
        if !referenced && ins.len() == 1 && outs.len() <= 1 && ins[0].dport.is_none() && outs.iter().all(|e| e.sport.is_none()) && ins[0].src != i && r.chance(1, 2) {
            p.nodes[i].anon = true;
        }
    }
    p
}

fn port_out(name: &str, p: &Option<String>) -> String {
    match p {
        Some(x) => format!("{name}[{x}]"),
        None => name.to_string(),
    }
}
fn port_in(name: &str, p: &Option<String>) -> String {
    match p {
        Some(x) => format!("[{x}]{name}"),
        None => name.to_string(),
    }
}

/// render to program lines
pub fn render(r: &mut Rng, p: &Prog) -> Vec<String> {
    // items per ctx
    let nl = p.loops.len();
    let mut items: Vec<Vec<String>> = vec![Vec::new(); nl];
    let mut emitted = vec![false; p.nodes.len()];
    // named declarations
    for (i, n) in p.nodes.iter().enumerate() {
        if !n.anon {
            items[n.ctx].push(format!("s {} = {};", n.name, n.text));
            emitted[i] = true;
        }
    }
    // chains through anonymous nodes, starting from edges whose source is named
    let mut used_edge = vec![false; p.edges.len()];
    for (ei, e) in p.edges.iter().enumerate() {
        if p.nodes[e.src].anon || used_edge[ei] {
            continue;
        }
        if !p.nodes[e.dst].anon {
            continue;
        }
        // walk the chain
        used_edge[ei] = true;
        let mut s = port_out(&p.nodes[e.src].name, &e.sport);
        let mut cur = e.dst;
        let ctx = p.nodes[cur].ctx;
        loop {
            s.push_str(" -> ");
            s.push_str(&p.nodes[cur].text);
            emitted[cur] = true;
            let nxt = p.edges.iter().position(|x| x.src == cur);
            match nxt {
                None => break,
                Some(ni) => {
                    used_edge[ni] = true;
                    let ne = &p.edges[ni];
                    if p.nodes[ne.dst].anon && p.nodes[ne.dst].ctx == ctx && !emitted[ne.dst] {
                        cur = ne.dst;
                    } else if p.nodes[ne.dst].anon {
                        // chain must be cut here (different loop context): cannot name an anonymous node
                        // -> should not happen: fall back by treating as named (see fixup below)
                        s.push_str(" -> ");
                        s.push_str(&port_in(&p.nodes[ne.dst].name, &ne.dport));
                        break;
                    } else {
                        s.push_str(" -> ");
                        s.push_str(&port_in(&p.nodes[ne.dst].name, &ne.dport));
                        break;
                    }
                }
            }
        }
        items[ctx].push(format!("s {s};"));
    }
    // plain edges between named nodes
    for (ei, e) in p.edges.iter().enumerate() {
        if used_edge[ei] {
            continue;
        }
        let ctx = p.nodes[e.dst].ctx;
        items[ctx].push(format!("s {} -> {};", port_out(&p.nodes[e.src].name, &e.sport), port_in(&p.nodes[e.dst].name, &e.dport)));
    }
    // shuffle each block a little (names are forward-referencable)
    for it in items.iter_mut() {
        for i in (1..it.len()).rev() {
            if r.chance(1, 2) {
                let j = r.below(i as u64 + 1) as usize;
                it.swap(i, j);
            }
        }
    }
    fn emit(l: usize, p: &Prog, items: &Vec<Vec<String>>, r: &mut Rng, out: &mut Vec<String>) {
        let kids: Vec<usize> = (1..p.loops.len()).filter(|&k| p.loops[k] == l).collect();
        let mut pos: Vec<usize> = kids.iter().map(|_| r.below(items[l].len() as u64 + 1) as usize).collect();
        pos.sort();
        let mut ki = 0;
        for (i, it) in items[l].iter().enumerate() {
            while ki < kids.len() && pos[ki] == i {
                out.push("lb".into());
                emit(kids[ki], p, items, r, out);
                out.push("le".into());
                ki += 1;
            }
            out.push(it.clone());
        }
        while ki < kids.len() {
            out.push("lb".into());
            emit(kids[ki], p, items, r, out);
            out.push("le".into());
            ki += 1;
        }
    }
    let mut out = Vec::new();
    emit(0, p, &items, r, &mut out);
    out
}

/// make sure anonymous nodes can be rendered: an anonymous node must be reachable through a chain
/// that starts at a named node and stays in one loop context
pub fn fix_anon(p: &mut Prog) {
    loop {
        let mut changed = false;
        for i in 0..p.nodes.len() {
            if !p.nodes[i].anon {
                continue;
            }
            let pe = p.edges.iter().find(|e| e.dst == i).unwrap();
            let pred = pe.src;
            if p.nodes[pred].anon && p.nodes[pred].ctx != p.nodes[i].ctx {
                p.nodes[i].anon = false;
                changed = true;
            }
        }
        if !changed {
            break;
        }
    }
    // an anonymous cycle without any named node cannot be started: name the nodes of such chains
    for i in 0..p.nodes.len() {
        if !p.nodes[i].anon {
            continue;
        }
        let mut cur = i;
        let mut steps = 0;
        loop {
            let pe = p.edges.iter().find(|e| e.dst == cur).unwrap();
            cur = pe.src;
            steps += 1;
            if !p.nodes[cur].anon {
                break;
            }
            if steps > p.nodes.len() {
                p.nodes[i].anon = false;
                break;
            }
        }
    }
}

pub fn program_text(lines: &[String]) -> String {
    let mut s = String::new();
    for l in lines {
        if l == "lb" {
            s.push_str("loop { ");
        } else if l == "le" {
            s.push_str("}; ");
        } else if let Some(t) = l.strip_prefix("s ") {
            s.push_str(t);
            s.push(' ');
        }
    }
    s
}

/// Templated programs that aim at the interplay of `loop {}` blocks (hoisted as a whole by
/// `make_loops_contiguous`) with handoff references: a borrower one or two loop levels deep, the referenced
/// singleton/optional/handoff at the root or in the outer loop, declared before or after the loop in program
/// order, optionally with a pipe consumer of the handoff and with access groups split between the levels.
pub fn loop_ref_template(r: &mut Rng) -> (Vec<String>, &'static str) {
    fn shuffle(r: &mut Rng, v: &mut Vec<String>) {
        for i in (1..v.len()).rev() {
            let j = r.below(i as u64 + 1) as usize;
            v.swap(i, j);
        }
    }
    let depth = r.range(1, 2);
    let kind = *r.pick(&["singleton()", "optional()", "handoff()"]);
    let tlevel = if depth == 2 && r.chance(1, 3) { 1 } else { 0 };
    let consumer = r.chance(1, 3);
    let access = tlevel == 0 && r.chance(1, 3);
    let outer_borrower = !access && r.chance(1, 4); // a second, root-level borrower
    let borrow = |g: &str| format!("map(|x| {{ let _ = {g}s; x }})");
    let mut root: Vec<String> = vec!["a = source_iter([1]);".into(), "b = source_iter([1]);".into()];
    let mut l1: Vec<String> = vec!["a -> batch() -> t1;".into(), "t1 = tee();".into(), "t1 -> for_each(|_| ());".into()];
    let mut l2: Vec<String> = Vec::new();
    let inner_ref = if access { "#{1} " } else { "#" };
    if depth == 1 {
        l1.push(format!("b -> batch() -> {} -> for_each(|_| ());", borrow(inner_ref)));
    } else {
        l1.push("b -> batch() -> null();".into());
        l2.push(format!("t1 -> batch() -> {} -> for_each(|_| ());", borrow(inner_ref)));
        if r.chance(1, 2) {
            l2.push("t1 -> batch() -> for_each(|_| ());".into());
        }
    }
    let (tdecl, tcons) = if tlevel == 0 {
        (format!("s = source_iter([2]) -> {kind};"), "s -> for_each(|_| ());".to_string())
    } else {
        (format!("s = t1 -> {kind};"), "s -> for_each(|_| ());".to_string())
    };
    let tl = if tlevel == 0 { &mut root } else { &mut l1 };
    tl.push(tdecl);
    if consumer {
        tl.push(tcons);
    }
    if access {
        root.push(format!("source_iter([3]) -> {} -> for_each(|_| ());", borrow("#{0} ")));
    }
    if outer_borrower {
        root.push(format!("source_iter([3]) -> {} -> for_each(|_| ());", borrow("#")));
    }
    shuffle(r, &mut root);
    shuffle(r, &mut l1);
    shuffle(r, &mut l2);
    let cut = r.below(root.len() as u64 + 1) as usize;
    let mut out: Vec<String> = Vec::new();
    for s in &root[..cut] {
        out.push(format!("s {s}"));
    }
    out.push("lb".into());
    let cut1 = r.below(l1.len() as u64 + 1) as usize;
    for s in &l1[..cut1] {
        out.push(format!("s {s}"));
    }
    if !l2.is_empty() {
        out.push("lb".into());
        for s in &l2 {
            out.push(format!("s {s}"));
        }
        out.push("le".into());
    }
    for s in &l1[cut1..] {
        out.push(format!("s {s}"));
    }
    out.push("le".into());
    for s in &root[cut..] {
        out.push(format!("s {s}"));
    }
    (out, if depth == 2 { "tmpl-loop-ref-nested" } else { "tmpl-loop-ref" })
}

/// Templated programs around access groups: one referenced singleton/optional, 2..3 explicit access groups with
/// 1..2 borrowers each, borrowers wired from their own source or chained behind another borrower (a borrower of a
/// later group feeding one of an earlier group is a same-tick cycle that must be rejected; every member of an
/// earlier group must be ordered before every member of the next group).
pub fn access_group_template(r: &mut Rng) -> (Vec<String>, &'static str) {
    let kind = *r.pick(&["singleton()", "optional()"]);
    let ngroups = r.range(2, 3);
    let mut members: Vec<(u64, String)> = Vec::new(); // (group, name)
    for g in 0..ngroups {
        for i in 0..r.range(1, 2) {
            members.push((g, format!("m{g}_{i}")));
        }
    }
    let mut stmts: Vec<String> = vec![format!("s = source_iter([2]) -> {kind};")];
    let mut fed: Vec<bool> = vec![false; members.len()]; // output already consumed by another borrower
    for (k, (g, name)) in members.iter().enumerate() {
        stmts.push(format!("{name} = map(|x| {{ let _ = #{{{g}}} s; x }});"));
        // input: own source, or the output of another borrower that is still unconsumed
        let cands: Vec<usize> = (0..members.len()).filter(|&j| j != k && !fed[j]).collect();
        if !cands.is_empty() && r.chance(1, 2) {
            let j = *r.pick(&cands);
            fed[j] = true;
            stmts.push(format!("{} -> {name};", members[j].1));
        } else {
            stmts.push(format!("source_iter([1]) -> {name};"));
        }
    }
    for (k, (_, name)) in members.iter().enumerate() {
        if !fed[k] {
            stmts.push(format!("{name} -> for_each(|_| ());"));
        }
    }
    for i in (1..stmts.len()).rev() {
        let j = r.below(i as u64 + 1) as usize;
        stmts.swap(i, j);
    }
    (stmts.into_iter().map(|s| format!("s {s}")).collect(), "tmpl-access-groups")
}
