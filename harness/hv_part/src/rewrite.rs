//! C20 (rewrites + meta-graph serialisation) and C42 (deterministic code generation) modes.

use std::collections::BTreeMap;

use dfir_lang::diagnostic::Diagnostics;
use dfir_lang::graph::{DfirGraph, GraphEdgeId, GraphNode, GraphNodeId, HandoffKind, eliminate_extra_unions_tees, partition_graph};
use hv_common::{Args, Recorder, Rng};
use quote::quote;
use slotmap::Key;

use crate::dump::*;
use crate::pgen;

fn ffi<K: Key>(k: K) -> u64 {
    k.data().as_ffi()
}

/// exact view of the DiMulGraph inside a `DfirGraph` through public accessors
struct GView {
    nodes: Vec<(u64, String, String, GraphNodeId)>, // idx, kind, name
    edges: Vec<(u64, u64, u64, String, String)>,    // ffi key, src idx, dst idx, ports
    adj: Vec<(u64, Vec<u64>, Vec<u64>)>,            // node idx, succ edge keys, pred edge keys
}

fn gview(g: &DfirGraph) -> GView {
    let mut v = GView { nodes: vec![], edges: vec![], adj: vec![] };
    for (nid, node) in g.nodes() {
        let kind = match node {
            GraphNode::Operator(_) => "op",
            GraphNode::Handoff { .. } => "hoff",
            GraphNode::ModuleBoundary { .. } => "mod",
        };
        v.nodes.push((idx(nid), kind.to_string(), node.to_name_string().to_string(), nid));
        v.adj.push((idx(nid), g.node_successor_edges(nid).map(ffi).collect(), g.node_predecessor_edges(nid).map(ffi).collect()));
    }
    for (eid, (s, d)) in g.edges() {
        let (sp, dp) = g.edge_ports(eid);
        v.edges.push((ffi(eid), idx(s), idx(d), port_str(sp), port_str(dp)));
    }
    v
}

impl GView {
    fn nodes_line(&self) -> String {
        join_nums(&self.nodes.iter().map(|n| n.0).collect::<Vec<_>>())
    }
    fn edges_line(&self) -> String {
        if self.edges.is_empty() { "-".into() } else { self.edges.iter().map(|e| format!("{}:{}>{}", e.0, e.1, e.2)).collect::<Vec<_>>().join(" ") }
    }
    fn adj_line(&self) -> String {
        let f = |v: &Vec<u64>| v.iter().map(|x| x.to_string()).collect::<Vec<_>>().join(",");
        if self.adj.is_empty() { "-".into() } else { self.adj.iter().map(|a| format!("{}:s={};p={}", a.0, f(&a.1), f(&a.2))).collect::<Vec<_>>().join(" ") }
    }
    fn wires(&self) -> Vec<(u64, String, u64, String)> {
        let mut w: Vec<_> = self.edges.iter().map(|e| (e.1, e.3.clone(), e.2, e.4.clone())).collect();
        w.sort();
        w
    }
    fn wires_line(&self) -> String {
        let w = self.wires();
        if w.is_empty() { "-".into() } else { w.iter().map(|w| format!("{}:{}>{}:{}", w.0, w.1, w.2, w.3)).collect::<Vec<_>>().join(" ") }
    }
    /// `DiMulGraph::assert_valid`, re-stated over the public accessors
    fn valid(&self) -> bool {
        let succ: BTreeMap<u64, &Vec<u64>> = self.adj.iter().map(|a| (a.0, &a.1)).collect();
        let pred: BTreeMap<u64, &Vec<u64>> = self.adj.iter().map(|a| (a.0, &a.2)).collect();
        for e in &self.edges {
            if !succ.get(&e.1).is_some_and(|v| v.contains(&e.0)) || !pred.get(&e.2).is_some_and(|v| v.contains(&e.0)) {
                return false;
            }
        }
        for a in &self.adj {
            let mut s = a.1.clone();
            s.sort();
            s.dedup();
            if s.len() != a.1.len() {
                return false;
            }
        }
        let ns: usize = self.adj.iter().map(|a| a.1.len()).sum();
        let np: usize = self.adj.iter().map(|a| a.2.len()).sum();
        ns == self.edges.len() && np == self.edges.len()
    }
}

/// independent expectation: contract every single-input single-output union/tee out of the wiring
fn contract_unary(v: &GView) -> (Vec<(u64, String, u64, String)>, Vec<u64>) {
    let mut w: Vec<(u64, String, u64, String)> = v.edges.iter().map(|e| (e.1, e.3.clone(), e.2, e.4.clone())).collect();
    let mut removed = Vec::new();
    for n in &v.nodes {
        if n.1 != "op" || (n.2 != "union" && n.2 != "tee") {
            continue;
        }
        let ins: Vec<usize> = (0..w.len()).filter(|&i| w[i].2 == n.0).collect();
        let outs: Vec<usize> = (0..w.len()).filter(|&i| w[i].0 == n.0).collect();
        let a = v.adj.iter().find(|a| a.0 == n.0).unwrap();
        if a.1.len() != 1 || a.2.len() != 1 {
            continue;
        }
        if ins.len() != 1 || outs.len() != 1 || ins[0] == outs[0] {
            continue;
        }
        let new = (w[ins[0]].0, w[ins[0]].1.clone(), w[outs[0]].2, w[outs[0]].3.clone());
        let (i, o) = (ins[0].max(outs[0]), ins[0].min(outs[0]));
        w.remove(i);
        w.remove(o);
        w.push(new);
        removed.push(n.0);
    }
    w.sort();
    (w, removed)
}

fn node_texts(g: &DfirGraph) -> BTreeMap<u64, String> {
    g.nodes().map(|(n, node)| (ffi(n), node.to_pretty_string().to_string())).collect()
}

/// every public accessor of a partitioned graph, as one canonical string
fn full_view(g: &DfirGraph) -> Vec<String> {
    let mut out = Vec::new();
    for (n, node) in g.nodes() {
        let kind = match node {
            GraphNode::Operator(_) => "op".to_string(),
            GraphNode::Handoff { kind, .. } => format!("hoff:{kind:?}"),
            GraphNode::ModuleBoundary { input, .. } => format!("mod:{input}"),
        };
        let oi = g.node_op_inst(n).map(|oi| {
            format!(
                "{}|in={:?}|out={:?}|args={}|gen={}",
                oi.op_constraints.name,
                oi.input_ports.iter().map(port_str).collect::<Vec<_>>(),
                oi.output_ports.iter().map(port_str).collect::<Vec<_>>(),
                oi.arguments_raw.to_string().replace(' ', ""),
                oi.generics.generic_args.as_ref().map(|g| quote!(#g).to_string()).unwrap_or_default(),
            )
        });
        out.push(format!(
            "node {} {} text={:?} sg={:?} loop={:?} var={:?} delay={:?} deg={}/{} opinst={:?} refs={:?}",
            ffi(n),
            kind,
            node.to_pretty_string(),
            g.node_subgraph(n).map(ffi),
            g.node_loop(n).map(ffi),
            g.node_varname(n).map(|v| v.0.to_string()),
            g.handoff_delay_type(n),
            g.node_degree_in(n),
            g.node_degree_out(n),
            oi,
            g.node_handoff_references(n).iter().map(|r| (r.node_id.map(ffi), r.is_mut, r.access_group)).collect::<Vec<_>>(),
        ));
        // adjacency-list *order* is rebuilt in edge-id order by `From<EdgeList>`; it is not part of the dataflow
        // (codegen sorts by (port, edge id)), so compare the lists as sets
        let mut ss = g.node_successor_edges(n).map(ffi).collect::<Vec<_>>();
        let mut ps = g.node_predecessor_edges(n).map(ffi).collect::<Vec<_>>();
        ss.sort();
        ps.sort();
        out.push(format!("adj {} s={:?} p={:?}", ffi(n), ss, ps));
    }
    for (e, (s, d)) in g.edges() {
        let (sp, dp) = g.edge_ports(e);
        out.push(format!("edge {} {}>{} {} {}", ffi(e), ffi(s), ffi(d), port_str(sp), port_str(dp)));
    }
    for (sg, nodes) in g.subgraphs() {
        out.push(format!("sg {} {:?} loop={:?}", ffi(sg), nodes.iter().map(|&n| ffi(n)).collect::<Vec<_>>(), g.subgraph_loop(sg).map(ffi)));
    }
    out.push(format!("toposort {:?}", g.subgraph_toposort().iter().map(|&s| ffi(s)).collect::<Vec<_>>()));
    for (l, nodes) in g.loops() {
        out.push(format!(
            "loop {} parent={:?} nodes={:?} children={:?}",
            ffi(l),
            g.loop_parent(l).map(ffi),
            nodes.iter().map(|&n| ffi(n)).collect::<Vec<_>>(),
            g.loop_children(l).iter().map(|&c| ffi(c)).collect::<Vec<_>>()
        ));
    }
    out.push(format!("root_loops {:?}", g.root_loops().iter().map(|&l| ffi(l)).collect::<Vec<_>>()));
    // `SparseSecondaryMap` is hash-backed: sort before printing
    let mut cols = g.node_color_map().iter().map(|(n, c)| (ffi(n), *c)).collect::<Vec<_>>();
    cols.sort();
    out.push(format!("colors {:?}", cols));
    out.push(format!("mermaid {:?}", g.to_mermaid(&Default::default())));
    out.push(format!("dot {:?}", g.to_dot(&Default::default())));
    out.push(format!("surface {:?}", g.surface_syntax_string()));
    out
}

/// number of reference markers in the raw arguments of every operator
fn ref_marker_counts(g: &DfirGraph) -> Vec<(u64, usize)> {
    g.nodes().filter_map(|(n, _)| g.node_op_inst(n).map(|oi| (ffi(n), oi.arguments_raw.to_string().matches('#').count()))).collect()
}

/// replace `loc_nopath_<l>_<c>_<l>_<c>` by `loc`
pub fn strip_locs(s: &str) -> String {
    let mut out = String::with_capacity(s.len());
    let mut rest = s;
    while let Some(i) = rest.find("loc_nopath_") {
        out.push_str(&rest[..i]);
        out.push_str("loc");
        let tail = &rest[i + "loc_nopath_".len()..];
        let n = tail.bytes().take_while(|b| b.is_ascii_digit() || *b == b'_').count();
        // keep a trailing `__` separator if the digits ran into the next identifier part
        let taken = &tail[..n];
        let keep = if taken.ends_with("__") { 2 } else { 0 };
        rest = &tail[n - keep..];
    }
    out.push_str(rest);
    out
}

pub fn code_of(g: &DfirGraph) -> Result<String, String> {
    let mut d = Diagnostics::new();
    match g.as_code(&quote!(dfir_rs), true, quote!(), &mut d) {
        Ok(t) => Ok(t.to_string()),
        Err(d) => Err(d.iter().map(|x| x.message.clone()).collect::<Vec<_>>().join("; ")),
    }
}

fn dump_graph_lines(rec: &mut Recorder, v: &GView) {
    rec.line("rnodes", &v.nodes_line());
    rec.line("redges", &v.edges_line());
    rec.line("radj", &v.adj_line());
    rec.line("rwires", &v.wires_line());
    rec.line("rvalid", if v.valid() { "true" } else { "false" });
}

pub fn run_c20_case(rec: &mut Recorder, n: u64, tag: &str, plines: &[String]) {
    rec.case(n, tag);
    for l in plines {
        rec.line(l, "ok");
    }
    let src = pgen::program_text(plines);
    let mut g = match build_flat(&src) {
        Built::Ok(g) => g,
        Built::ParseErr(_) => {
            rec.count("parse-err");
            return;
        }
        Built::BuildErr(_) => {
            rec.count("build-err");
            return;
        }
    };
    // ---- 1. eliminate_extra_unions_tees on the flat graph
    let v0 = gview(&g);
    for nd in &v0.nodes {
        rec.line(&format!("rnode {} {} {}", nd.0, nd.1, nd.2), "ok");
    }
    for e in &v0.edges {
        rec.line(&format!("redge {} {} {} {} {}", e.0, e.1, e.2, e.3, e.4), "ok");
    }
    let texts0 = node_texts(&g);
    let loops0: Vec<_> = flat_of(&g).loops.iter().map(|l| (l.id, l.parent, l.nodes.clone())).collect();
    let refs0: Vec<_> = flat_of(&g).refs.iter().map(|r| (r.node, r.target, r.is_mut, r.group)).collect();
    let (expect_wires, expect_removed) = contract_unary(&v0);
    let r = hv_common::catch(std::panic::AssertUnwindSafe(|| eliminate_extra_unions_tees(&mut g)));
    if r.is_err() {
        rec.line("eliminate", "panic");
        rec.count("eliminate-panic");
        // the only panic known is the unary self-loop `u = union(); u -> u;`
        let selfloop = v0.edges.iter().any(|e| e.1 == e.2);
        rec.check(selfloop, "c20-eliminate-panic", "eliminate_extra_unions_tees panicked on a graph without a self-loop");
        return;
    }
    rec.line("eliminate", "ok");
    let v1 = gview(&g);
    dump_graph_lines(rec, &v1);
    if !expect_removed.is_empty() {
        rec.count("unary-union-tee-removed");
        rec.nontrivial();
    }
    rec.check(v1.wires() == expect_wires, "c20-eliminate-wiring", &format!("expected {:?} got {:?}", expect_wires, v1.wires()));
    let kept: Vec<u64> = v0.nodes.iter().map(|n| n.0).filter(|n| !expect_removed.contains(n)).collect();
    rec.check(v1.nodes.iter().map(|n| n.0).collect::<Vec<_>>() == kept, "c20-eliminate-nodes", &format!("expected {:?} got {}", kept, v1.nodes_line()));
    let texts1 = node_texts(&g);
    rec.check(texts1.iter().all(|(k, t)| texts0.get(k) == Some(t)), "c20-eliminate-operator-text", "an operator's text/arguments changed");
    let f1 = flat_of(&g);
    rec.check(f1.loops.iter().map(|l| (l.id, l.parent, l.nodes.clone())).collect::<Vec<_>>() == loops0, "c20-eliminate-loops", "");
    rec.check(f1.refs.iter().map(|r| (r.node, r.target, r.is_mut, r.group)).collect::<Vec<_>>() == refs0, "c20-eliminate-refs", "");
    rec.check(v1.valid(), "c20-eliminate-invalid-graph", "DiMulGraph invariant broken");
    // ---- 2. insert_intermediate_node (the handoff insertion primitive) on up to two edges
    let mut rng = Rng::new(hv_common::fnv(src.as_bytes())).fork(n);
    let mut cur = v1;
    for _ in 0..2 {
        if cur.edges.is_empty() {
            break;
        }
        let pick = cur.edges[rng.below(cur.edges.len() as u64) as usize].clone();
        let eid: GraphEdgeId = slotmap::KeyData::from_ffi(pick.0).into();
        let before = cur.wires();
        let hoff = GraphNode::Handoff { kind: HandoffKind::Vec, src_span: proc_macro2::Span::call_site(), dst_span: proc_macro2::Span::call_site() };
        let r = hv_common::catch(std::panic::AssertUnwindSafe(|| g.insert_intermediate_node(eid, hoff)));
        match r {
            Err(_) => {
                rec.line(&format!("hinsert {} 0", pick.0), "panic");
                rec.check(false, "c20-insert-intermediate-panic", "");
                return;
            }
            Ok((nid, e1)) => {
                let e0 = g.node_predecessor_edges(nid).next().map(ffi).unwrap_or(0);
                rec.line(&format!("hinsert {} {}", pick.0, idx(nid)), &format!("{} {}", e0, ffi(e1)));
                rec.count("intermediate-node-inserted");
                let v2 = gview(&g);
                dump_graph_lines(rec, &v2);
                // contracting the new node gives back the old wiring
                let mut w: Vec<_> = v2.edges.iter().filter(|e| e.1 != idx(nid) && e.2 != idx(nid)).map(|e| (e.1, e.3.clone(), e.2, e.4.clone())).collect();
                let i = v2.edges.iter().find(|e| e.2 == idx(nid));
                let o = v2.edges.iter().find(|e| e.1 == idx(nid));
                if let (Some(i), Some(o)) = (i, o) {
                    w.push((i.1, i.3.clone(), o.2, o.4.clone()));
                    rec.check(i.4 == "_" && o.3 == "_", "c20-insert-intermediate-ports", "ports at the new node are not elided");
                }
                w.sort();
                rec.check(w == before, "c20-insert-intermediate-wiring", &format!("before {:?} after-contraction {:?}", before, w));
                rec.check(v2.valid(), "c20-insert-invalid-graph", "");
                cur = v2;
            }
        }
    }
    // ---- 3. partition + JSON round trip as the runtime does (serde -> insert_node_op_insts_all)
    let Built::Ok(g2) = build_flat(&src) else { return };
    let Ok(g2) = hv_common::catch(std::panic::AssertUnwindSafe(|| prepare(g2))) else { return };
    let Ok(g2) = g2 else { return };
    let Ok(Ok(p)) = hv_common::catch(std::panic::AssertUnwindSafe(|| partition_graph(g2))) else {
        rec.count("not-partitioned");
        return;
    };
    rec.count("partitioned");
    let json = serde_json::to_string(&p).unwrap();
    let back: Result<DfirGraph, String> = match hv_common::catch(std::panic::AssertUnwindSafe(|| serde_json::from_str::<DfirGraph>(&json))) {
        Ok(Ok(g)) => Ok(g),
        Ok(Err(e)) => Err(e.to_string()),
        Err(m) => Err(format!("panic {m}")),
    };
    match back {
        Err(e) => rec.check(false, "c20-json-deserialize", &e),
        Ok(q) => {
            // a corrupted loaded graph may make accessors / codegen panic: that is a round-trip failure, not a crash
            let res = hv_common::catch(std::panic::AssertUnwindSafe(|| roundtrip_checks(rec, &p, q, &json)));
            if let Err(m) = res {
                rec.check(false, "c20-json-roundtrip-panic", &m.chars().take(120).collect::<String>());
            }
        }
    }
}

fn roundtrip_checks(rec: &mut Recorder, p: &DfirGraph, mut q: DfirGraph, json: &str) {
    let json = json.to_string();
    {
        {
            let mut d = Diagnostics::new();
            q.insert_node_op_insts_all(&mut d);
            rec.check(!d.has_error(), "c20-json-opinst-diagnostics", &format!("{:?}", d.iter().map(|x| x.message.clone()).collect::<Vec<_>>()));
            let (a, b) = (full_view(&p), full_view(&q));
            let first = a.iter().zip(b.iter()).find(|(x, y)| x != y);
            rec.check(a == b, "c20-json-roundtrip-accessors", &format!("{:?}", first));
            // the `#var` reference markers inside operator arguments (finding F20, fixed: serde used to print the parsed args)
            let has_refs = ref_marker_counts(&p).iter().any(|x| x.1 > 0);
            rec.check(ref_marker_counts(&p) == ref_marker_counts(&q), "c20-json-roundtrip-args", "operator arguments lose their `#var` markers");
            if has_refs {
                rec.count("json-roundtrip-with-refs");
            }
            let json2 = serde_json::to_string(&q).unwrap();
            rec.check(json == json2, "c20-json-roundtrip-json", "");
            // the loaded graph generates the same code as the original
            match (code_of(&p), code_of(&q)) {
                // token spacing is not significant: serde re-prints a no-argument closure `||` as `| |`
                (Ok(c1), Ok(c2)) => {
                    // source locations baked into helper fn names come from spans, which serde does not keep
                    let (a, b) = (strip_locs(&c1.replace(' ', "")), strip_locs(&c2.replace(' ', "")));
                    let pos = a.bytes().zip(b.bytes()).position(|(x, y)| x != y).unwrap_or(a.len().min(b.len()));
                    let lo = pos.saturating_sub(60);
                    rec.check(a == b, "c20-json-roundtrip-code", &format!("at {pos}: `{}` vs `{}`", &a[lo..(pos + 60).min(a.len())], &b[lo..(pos + 60).min(b.len())]));
                }
                (Err(_), Err(_)) => rec.count("code-error-both"),
                (x, y) => rec.check(false, "c20-json-roundtrip-code-result", &format!("{:?} vs {:?}", x.is_ok(), y.is_ok())),
            }
            rec.count("json-roundtrip");
            if p.nodes().any(|(_, nd)| matches!(nd, GraphNode::Handoff { .. })) {
                rec.nontrivial();
            }
        }
    }
}

fn port_of(label: &str) -> dfir_lang::graph::PortIndexValue {
    if label == "_" {
        dfir_lang::graph::PortIndexValue::Elided(None)
    } else {
        let pi: dfir_lang::parse::PortIndex = syn::parse_str(label).expect("port label");
        pi.into()
    }
}

/// `merge_modules` on a synthetic graph with ModuleBoundary nodes (they cannot arise from surface syntax any more,
/// but `build_dfir_code` still runs the pass): outer producers -> boundary -> inner consumers, matched by port label
pub fn run_c20_module_case(rec: &mut Recorder, n: u64, seed: &Rng) {
    let mut r = seed.fork(n ^ 0x6d6f64);
    rec.case(n, "modules");
    let mut g = DfirGraph::new();
    let labels_all = ["0", "1", "2", "foo", "bar", "_"];
    let nb = r.range(1, 2);
    let mut expect: Vec<(u64, String, u64, String)> = Vec::new();
    let mut mismatch = false;
    let mut bounds = Vec::new();
    let op = |g: &mut DfirGraph, txt: &str| -> GraphNodeId {
        let o: dfir_lang::parse::Operator = syn::parse_str(txt).unwrap();
        g.insert_node(GraphNode::Operator(o), None, None)
    };
    for b in 0..nb {
        let k = r.range(1, 3) as usize;
        let mut labels: Vec<&str> = Vec::new();
        while labels.len() < k {
            let l = *r.pick(&labels_all);
            if !labels.contains(&l) {
                labels.push(l);
            }
        }
        let producers: Vec<GraphNodeId> = (0..k).map(|_| op(&mut g, "map(|x| x)")).collect();
        let m = g.insert_node(GraphNode::ModuleBoundary { input: b == 0, import_expr: proc_macro2::Span::call_site() }, None, None);
        let consumers: Vec<GraphNodeId> = (0..k).map(|_| op(&mut g, "for_each(|_| ())")).collect();
        bounds.push(m);
        let mut out_labels = labels.clone();
        // shuffle the out side, sometimes break the matching
        for i in (1..k).rev() {
            let j = r.below(i as u64 + 1) as usize;
            out_labels.swap(i, j);
        }
        let broken = r.chance(1, 6);
        for i in 0..k {
            let sp = *r.pick(&["_", "0", "out"]);
            g.insert_edge(producers[i], port_of(sp), m, port_of(labels[i]));
            expect.push((idx(producers[i]), sp.to_string(), 0, labels[i].to_string()));
        }
        for i in 0..k {
            let dp = *r.pick(&["_", "1", "inp"]);
            let mut l = out_labels[i];
            if broken && i == 0 {
                l = if l == "zzz" { "0" } else { "zzz" };
                mismatch = true;
            }
            g.insert_edge(m, port_of(l), consumers[i], port_of(dp));
            // match up with the producer edge carrying the same label
            for e in expect.iter_mut() {
                if e.2 == 0 && e.3 == l {
                    e.2 = idx(consumers[i]);
                    e.3 = dp.to_string();
                }
            }
        }
    }
    let v0 = gview(&g);
    for nd in &v0.nodes {
        rec.line(&format!("rnode {} {} {}", nd.0, nd.1, nd.2), "ok");
    }
    for e in &v0.edges {
        rec.line(&format!("redge {} {} {} {} {}", e.0, e.1, e.2, e.3, e.4), "ok");
    }
    let res = hv_common::catch(std::panic::AssertUnwindSafe(|| g.merge_modules()));
    match res {
        Err(_) => {
            rec.line("merge", "panic");
            rec.check(false, "c20-merge-modules-panic", "");
        }
        Ok(Err(_)) => {
            rec.line("merge", "err");
            rec.count("merge-modules-port-mismatch");
            rec.check(mismatch, "c20-merge-modules-spurious-error", "ports matched but merge_modules reported a mismatch");
        }
        Ok(Ok(())) => {
            rec.line("merge", "ok");
            rec.count("merge-modules-ok");
            let v1 = gview(&g);
            dump_graph_lines(rec, &v1);
            rec.check(!mismatch, "c20-merge-modules-accepted-mismatch", "");
            if !mismatch {
                expect.sort();
                rec.check(v1.wires() == expect, "c20-merge-modules-wiring", &format!("expected {:?} got {:?}", expect, v1.wires()));
                rec.check(v1.nodes.iter().all(|x| x.1 != "mod"), "c20-merge-modules-boundary-left", "");
                rec.check(v1.nodes.len() + bounds.len() == v0.nodes.len(), "c20-merge-modules-nodes", "");
                rec.check(v1.valid(), "c20-merge-invalid-graph", "");
                rec.nontrivial();
            }
        }
    }
}

/// compile a program through the whole real pipeline; returns (code text, partitioned graph JSON) or the error text
pub fn compile_all(src: &str) -> Result<(String, String), String> {
    let code = syn::parse_str::<dfir_lang::parse::DfirCode>(src).map_err(|e| format!("parse: {e}"))?;
    let r = hv_common::catch(std::panic::AssertUnwindSafe(|| dfir_lang::graph::build_dfir_code(code, &quote!(dfir_rs))));
    match r {
        Err(p) => Err(format!("panic: {}", classify_panic(&p))),
        Ok(Err(d)) => Err(format!("diagnostics: {}", d.iter().map(|x| x.message.clone()).collect::<Vec<_>>().join(" | "))),
        Ok(Ok(out)) => {
            let json = serde_json::to_string(&out.partitioned_graph).unwrap();
            let extra = format!("{}\n{}\n{}", out.partitioned_graph.to_mermaid(&Default::default()), out.partitioned_graph.to_dot(&Default::default()), out.diagnostics.iter().map(|x| x.message.clone()).collect::<Vec<_>>().join("|"));
            Ok((out.code.to_string(), format!("{json}\n{extra}")))
        }
    }
}

pub fn run_c42_case(rec: &mut Recorder, n: u64, tag: &str, plines: &[String], a: &Args, hashes: &mut Vec<String>) {
    // the partition transcript (model = fixed iteration order, real code = whatever order the hash seeds give)
    crate::run_partition_case(rec, "c42", n, tag, plines);
    let src = pgen::program_text(plines);
    // an `enemyperm` instance: the iterated hash set in two orders
    let mut r = Rng::new(a.seed ^ 0x42).fork(n);
    let k = r.range(0, 5) as usize;
    let mut ws: Vec<u64> = Vec::new();
    while ws.len() < k {
        let w = r.range(3, 12);
        if !ws.contains(&w) {
            ws.push(w);
        }
    }
    let mut ws2 = ws.clone();
    for i in (1..ws2.len()).rev() {
        let j = r.below(i as u64 + 1) as usize;
        ws2.swap(i, j);
    }
    rec.line(&format!("enemyperm 1 2 {} | {}", join_nums(&ws), join_nums(&ws2)), "true");
    // repeated in-process compilation: every run builds its hash maps with fresh random keys
    let first = compile_all(&src);
    let mut same = true;
    for _ in 0..2 {
        let again = compile_all(&src);
        if again != first {
            same = false;
        }
    }
    match &first {
        Ok((code, graph)) => {
            rec.count("compiled");
            rec.check(same, "c42-inprocess-output-differs", "two compilations of the same program in one process differ");
            hashes.push(format!("{n} ok {:016x} {:016x}", hv_common::fnv(code.as_bytes()), hv_common::fnv(graph.as_bytes())));
            if graph.matches("Handoff").count() >= 1 {
                rec.nontrivial();
            }
        }
        Err(e) => {
            rec.count("compile-error");
            rec.check(same, "c42-inprocess-error-differs", "two compilations of the same program give different diagnostics");
            hashes.push(format!("{n} err {:016x}", hv_common::fnv(e.as_bytes())));
        }
    }
}
