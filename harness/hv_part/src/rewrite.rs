//! C20 / C42 modes (filled in below).
use hv_common::{Args, Recorder};

pub fn run_c20_case(rec: &mut Recorder, n: u64, tag: &str, _plines: &[String]) {
    rec.case(n, tag);
}
pub fn run_c42_case(rec: &mut Recorder, n: u64, tag: &str, _plines: &[String], _a: &Args) {
    rec.case(n, tag);
}
