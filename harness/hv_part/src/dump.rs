//! Real pipeline pieces + canonical dumps of `DfirGraph`s.

use std::collections::{BTreeMap, BTreeSet};

use dfir_lang::graph::ops::DelayType;
use dfir_lang::graph::{DfirGraph, FlatGraphBuilder, GraphNode, GraphNodeId, HandoffKind, PortIndexValue, eliminate_extra_unions_tees};
use slotmap::Key;

pub fn idx<K: Key>(k: K) -> u64 {
    k.data().as_ffi() & 0xffff_ffff
}
pub fn ver<K: Key>(k: K) -> u64 {
    k.data().as_ffi() >> 32
}

pub fn port_str(p: &PortIndexValue) -> String {
    match p {
        PortIndexValue::Elided(_) => "_".to_string(),
        other => other.to_string().replace(' ', ""),
    }
}

pub fn delay_str(d: DelayType) -> &'static str {
    match d {
        DelayType::Tick => "T",
        DelayType::TickLazy => "TL",
        DelayType::Loop => "L",
        DelayType::LoopLazy => "LL",
    }
}

#[derive(Clone, Debug)]
pub struct FNode {
    pub id: u64,
    pub hoff: Option<HandoffKind>,
    pub name: String,
    pub lp: Option<u64>,
    pub key: GraphNodeId,
}
#[derive(Clone, Debug)]
pub struct FEdge {
    pub id: u64,
    pub src: u64,
    pub dst: u64,
    pub sport: String,
    pub dport: String,
    /// what the *real* `input_delaytype_fn` of the destination says for this port
    pub delay: Option<DelayType>,
}
#[derive(Clone, Debug)]
pub struct FRef {
    pub node: u64,
    pub target: Option<u64>,
    pub is_mut: bool,
    pub group: Option<u32>,
}
#[derive(Clone, Debug)]
pub struct FLoop {
    pub id: u64,
    pub parent: Option<u64>,
    pub nodes: Vec<u64>,
}
#[derive(Clone, Debug, Default)]
pub struct Flat {
    pub nodes: Vec<FNode>,
    pub edges: Vec<FEdge>,
    pub refs: Vec<FRef>,
    pub loops: Vec<FLoop>,
}

impl Flat {
    pub fn node(&self, id: u64) -> &FNode {
        self.nodes.iter().find(|n| n.id == id).unwrap()
    }
    pub fn is_hoff(&self, id: u64) -> bool {
        self.nodes.iter().any(|n| n.id == id && n.hoff.is_some())
    }
    pub fn loop_parent(&self, l: u64) -> Option<u64> {
        self.loops.iter().find(|x| x.id == l).and_then(|x| x.parent)
    }
    pub fn lines(&self) -> Vec<String> {
        let mut v = Vec::new();
        for l in &self.loops {
            let ns = if l.nodes.is_empty() { "-".to_string() } else { l.nodes.iter().map(|n| n.to_string()).collect::<Vec<_>>().join(",") };
            v.push(format!("loop {} {} {}", l.id, l.parent.map(|p| p.to_string()).unwrap_or("-".into()), ns));
        }
        for n in &self.nodes {
            v.push(format!("node {} {} {} {}", n.id, if n.hoff.is_some() { "hoff" } else { "op" }, n.name, n.lp.map(|p| p.to_string()).unwrap_or("-".into())));
        }
        for e in &self.edges {
            v.push(format!("edge {} {} {} {} {}", e.id, e.src, e.dst, e.sport, e.dport));
        }
        for r in &self.refs {
            v.push(format!(
                "ref {} {} {} {}",
                r.node,
                r.target.map(|t| t.to_string()).unwrap_or("-".into()),
                if r.is_mut { 1 } else { 0 },
                r.group.map(|g| g.to_string()).unwrap_or("-".into())
            ));
        }
        v
    }
}

/// canonical view of a (flat or partitioned) graph through its public accessors
pub fn flat_of(g: &DfirGraph) -> Flat {
    let mut f = Flat::default();
    for (lid, nodes) in g.loops() {
        f.loops.push(FLoop { id: idx(lid), parent: g.loop_parent(lid).map(idx), nodes: nodes.iter().map(|&n| idx(n)).collect() });
    }
    for (nid, node) in g.nodes() {
        let hoff = match node {
            GraphNode::Handoff { kind, .. } => Some(*kind),
            _ => None,
        };
        f.nodes.push(FNode { id: idx(nid), hoff, name: node.to_name_string().to_string(), lp: g.node_loop(nid).map(idx), key: nid });
    }
    for (eid, (s, d)) in g.edges() {
        let (sp, dp) = g.edge_ports(eid);
        let delay = g.node_op_inst(d).and_then(|oi| (oi.op_constraints.input_delaytype_fn)(dp));
        f.edges.push(FEdge { id: idx(eid), src: idx(s), dst: idx(d), sport: port_str(sp), dport: port_str(dp), delay });
    }
    for nid in g.node_ids() {
        for r in g.node_handoff_references(nid) {
            f.refs.push(FRef { node: idx(nid), target: r.node_id.map(idx), is_mut: r.is_mut, group: r.access_group });
        }
    }
    f
}

pub enum Built {
    ParseErr(String),
    BuildErr(Vec<String>),
    /// flat graph before `eliminate_extra_unions_tees`
    Ok(DfirGraph),
}

pub fn build_flat(src: &str) -> Built {
    let code = match syn::parse_str::<dfir_lang::parse::DfirCode>(src) {
        Ok(c) => c,
        Err(e) => return Built::ParseErr(e.to_string()),
    };
    let b = FlatGraphBuilder::from_dfir(code);
    match b.build() {
        Ok(o) => Built::Ok(o.flat_graph),
        Err(d) => Built::BuildErr(d.iter().map(|x| x.message.clone()).collect()),
    }
}

/// `merge_modules` + `eliminate_extra_unions_tees` + the adjacent-handoff rejection of `build_dfir_code`
pub fn prepare(mut g: DfirGraph) -> Result<DfirGraph, String> {
    if let Err(d) = g.merge_modules() {
        return Err(format!("merge-modules: {}", d.message));
    }
    eliminate_extra_unions_tees(&mut g);
    for (_e, (s, d)) in g.edges() {
        if matches!(g.node(s), GraphNode::Handoff { .. }) && matches!(g.node(d), GraphNode::Handoff { .. }) {
            return Err("adjacent-handoffs".into());
        }
    }
    Ok(g)
}

/// result of the real `partition_graph` in canonical form
pub enum POut {
    Ok(Box<PView>),
    Err(Vec<u64>, String),
    Panic(String),
}
pub struct PView {
    pub graph: DfirGraph,
    /// subgraphs in `subgraph_toposort` order
    pub sgs: Vec<Vec<u64>>,
    /// inserted handoffs: (handoff node id, flat edge id it replaced)
    pub inserted: Vec<(GraphNodeId, u64)>,
    pub delays: Vec<String>,
}

pub fn classify_panic(msg: &str) -> String {
    if msg.contains("conflicted or cyclical handoff references") {
        "conflicted-refs".into()
    } else if msg.contains("no-merge pair must not contain the same node twice") {
        "no-merge-pair-same-node".into()
    } else if msg.contains("toposort is invalid after") {
        "toposort-invalid-after-make-loops-contiguous".into()
    } else if msg.contains("re-toposort found cycle") {
        "cycle-check-passed-but-re-toposort-found-cycle".into()
    } else if msg.contains("root-level subgraph cannot be within a loop") {
        "make-loops-contiguous-expect".into()
    } else {
        format!("other:{}", msg.chars().filter(|c| c.is_ascii_alphanumeric() || *c == '-').take(60).collect::<String>())
    }
}

pub fn run_partition(flat: &Flat, g: DfirGraph) -> POut {
    dfir_lang::graph::VERIF_LAST_CYCLE.with(|c| c.borrow_mut().clear());
    let r = hv_common::catch(std::panic::AssertUnwindSafe(move || dfir_lang::graph::partition_graph(g)));
    match r {
        Err(msg) => POut::Panic(classify_panic(&msg)),
        Ok(Err(e)) => {
            let cyc = dfir_lang::graph::VERIF_LAST_CYCLE.with(|c| c.borrow().iter().map(|&n| idx(n)).collect::<Vec<_>>());
            POut::Err(cyc, e.diagnostic.message.clone())
        }
        Ok(Ok(p)) => {
            let sgs: Vec<Vec<u64>> = p.subgraph_toposort().iter().map(|&s| p.subgraph(s).iter().map(|&n| idx(n)).collect()).collect();
            let flat_ids: BTreeSet<(u64, u64)> = flat.nodes.iter().map(|n| (n.id, ver(n.key))).collect();
            // inserted handoffs -> the flat edge they replaced
            let mut used: BTreeSet<u64> = BTreeSet::new();
            let mut inserted = Vec::new();
            for (nid, node) in p.nodes() {
                if flat_ids.contains(&(idx(nid), ver(nid))) {
                    continue;
                }
                if !matches!(node, GraphNode::Handoff { .. }) {
                    continue;
                }
                let pe = p.node_predecessors(nid).next();
                let se = p.node_successors(nid).next();
                let (Some((e0, s)), Some((e1, d))) = (pe, se) else { continue };
                let sp = port_str(p.edge_ports(e0).0);
                let dp = port_str(p.edge_ports(e1).1);
                if let Some(fe) = flat.edges.iter().find(|fe| !used.contains(&fe.id) && fe.src == idx(s) && fe.dst == idx(d) && fe.sport == sp && fe.dport == dp) {
                    used.insert(fe.id);
                    inserted.push((nid, fe.id));
                } else {
                    inserted.push((nid, u64::MAX));
                }
            }
            inserted.sort_by_key(|x| x.1);
            let mut delays = Vec::new();
            for &(nid, fe) in &inserted {
                if let Some(d) = p.handoff_delay_type(nid) {
                    delays.push(format!("e{}:{}", fe, delay_str(d)));
                }
            }
            for n in &flat.nodes {
                if n.hoff.is_some() {
                    if let Some(d) = p.handoff_delay_type(n.key) {
                        delays.push(format!("n{}:{}", n.id, delay_str(d)));
                    }
                }
            }
            POut::Ok(Box::new(PView { graph: p, sgs, inserted, delays }))
        }
    }
}

pub fn join_nums(v: &[u64]) -> String {
    if v.is_empty() { "-".into() } else { v.iter().map(|x| x.to_string()).collect::<Vec<_>>().join(",") }
}

#[allow(dead_code)]
pub type Adj = BTreeMap<u64, Vec<u64>>;
