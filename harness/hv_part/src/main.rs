//! hv_part: harness for C18 / C19 / C20 / C42 (dfir_lang graph pipeline).
//!
//! A case is a DFIR program given as program lines (`s <stmt>`, `lb`, `le`); everything else in the
//! transcript is derived from running the REAL pipeline on that program:
//!   FlatGraphBuilder -> merge_modules -> eliminate_extra_unions_tees -> partition_graph -> as_code.
mod dump;
mod pgen;
mod oracle;
mod rewrite;

use dump::*;
use hv_common::{Args, Recorder, Rng};

fn prog_lines_of(lines: &[String]) -> Vec<String> {
    lines.iter().filter(|l| l.starts_with("s ") || *l == "lb" || *l == "le").cloned().collect()
}

/// split a replay file into cases (tag line + program lines)
fn replay_cases(lines: Vec<String>) -> Vec<(String, Vec<String>)> {
    let mut out: Vec<(String, Vec<String>)> = Vec::new();
    for l in lines {
        if l.starts_with("#case") {
            let tag = l.splitn(3, ' ').nth(2).unwrap_or("").to_string();
            out.push((tag, Vec::new()));
        } else {
            if out.is_empty() {
                out.push((String::new(), Vec::new()));
            }
            out.last_mut().unwrap().1.push(l);
        }
    }
    out
}

fn gen_case(seed: &Rng, i: u64, tier: &str) -> (String, Vec<String>) {
    let mut r = seed.fork(i);
    let big = tier == "thorough";
    let class = i % 10;
    if class == 8 && (i / 10) % 2 == 0 {
        // templated loop-block / handoff-reference programs (see pgen::loop_ref_template)
        let (lines, tag) = pgen::loop_ref_template(&mut r);
        return (format!("class=8t {tag}"), lines);
    }
    if class == 9 && (i / 10) % 2 == 0 {
        // templated access-group programs (see pgen::access_group_template)
        let (lines, tag) = pgen::access_group_template(&mut r);
        return (format!("class=9t {tag}"), lines);
    }
    let cfg = match class {
        0 | 1 => pgen::Cfg { size: 6, loops: false, refs: false, cycles: true, malformed: false },
        2 | 3 => pgen::Cfg { size: 10, loops: true, refs: false, cycles: true, malformed: false },
        4 | 5 => pgen::Cfg { size: 10, loops: false, refs: true, cycles: true, malformed: false },
        6 | 7 => pgen::Cfg { size: if big { 30 } else { 18 }, loops: true, refs: true, cycles: true, malformed: false },
        8 => pgen::Cfg { size: if big { 45 } else { 24 }, loops: true, refs: true, cycles: false, malformed: false },
        _ => pgen::Cfg { size: 10, loops: true, refs: true, cycles: true, malformed: true },
    };
    let mut p = pgen::generate(&mut r, &cfg);
    pgen::fix_anon(&mut p);
    let lines = pgen::render(&mut r, &p);
    let mut tags: Vec<&str> = p.tags.clone();
    tags.sort();
    tags.dedup();
    (format!("class={class} {}", tags.join(",")).trim().to_string(), lines)
}

/// partition modes (c18 / c19): dump the flat graph, run the real partitioner, evaluate the oracle
pub fn run_partition_case(rec: &mut Recorder, mode: &str, n: u64, tag: &str, plines: &[String]) {
    rec.case(n, tag);
    for l in plines {
        rec.line(l, "ok");
    }
    let src = pgen::program_text(plines);
    let g = match build_flat(&src) {
        Built::ParseErr(_) => {
            rec.count("parse-err");
            return;
        }
        Built::BuildErr(msgs) => {
            rec.count("build-err");
            if msgs.iter().any(|m| m.contains("illegal cycle within a `loop")) {
                rec.count("build-err-loop-cycle");
            }
            return;
        }
        Built::Ok(g) => g,
    };
    let g = match prepare(g) {
        Ok(g) => g,
        Err(_) => {
            rec.count("prepare-err");
            return;
        }
    };
    let flat = flat_of(&g);
    for l in flat.lines() {
        rec.line(&l, "ok");
    }
    rec.count(&format!("nodes<={}", ((flat.nodes.len() + 4) / 5) * 5));
    if !flat.refs.is_empty() {
        rec.count("has-refs");
    }
    if flat.loops.len() > 0 {
        rec.count(&format!("loops={}", flat.loops.len().min(4)));
    }
    if flat.loops.iter().any(|l| l.parent.is_some()) {
        rec.count("nested-loops");
    }
    if flat.edges.iter().any(|e| e.delay.is_some()) {
        rec.count("has-delay-edge");
    }
    if flat.nodes.iter().any(|n| n.hoff.is_some()) {
        rec.count("has-flat-handoff");
    }
    let out = run_partition(&flat, g);
    let es = oracle::dep_edges(&flat);
    let ids: Vec<u64> = flat.nodes.iter().map(|n| n.id).collect();
    // the theorems' well-formedness hypotheses (edge heads / referencing nodes exist, edge ids unique) hold on
    // every graph the real builder produces: the model evaluates them on the dump and must answer `true`
    rec.line("wf", "true");
    rec.line("depcycle", if oracle::has_cycle(&ids, &es) { "true" } else { "false" });
    match &out {
        POut::Ok(pv) => {
            rec.line("partition", "ok");
            let sgs = pv.sgs.iter().map(|s| join_nums(s)).collect::<Vec<_>>().join("|");
            rec.line("sgs", if sgs.is_empty() { "-" } else { &sgs });
            let mut hs: Vec<u64> = pv.inserted.iter().map(|x| x.1).collect();
            hs.sort();
            rec.line("hoffs", &join_nums(&hs));
            rec.line("delays", &if pv.delays.is_empty() { "-".to_string() } else { pv.delays.join(" ") });
            rec.count("partition-ok");
            rec.count(&format!("subgraphs<={}", ((pv.sgs.len() + 2) / 3) * 3));
            if !pv.inserted.is_empty() {
                rec.count("handoff-inserted");
            }
            if !pv.delays.is_empty() {
                rec.count("delay-marked");
            }
            if pv.delays.iter().any(|d| d.ends_with(":L") || d.ends_with(":LL")) {
                rec.count("delay-remapped-to-loop");
            }
            if pv.sgs.len() >= 2 && flat.nodes.len() >= 4 {
                rec.nontrivial();
            }
        }
        POut::Err(c, _) => {
            rec.line("partition", &format!("err {}", join_nums(c)));
            rec.count("partition-err-cycle");
            rec.count(&format!("cycle-len<={}", ((c.len() + 1) / 2) * 2));
            let pipe: std::collections::BTreeSet<(u64, u64)> = flat.edges.iter().map(|e| (e.src, e.dst)).collect();
            if (0..c.len()).any(|i| !pipe.contains(&(c[i], c[(i + 1) % c.len()]))) {
                rec.count("cycle-uses-non-pipe-edge");
            }
            rec.nontrivial();
        }
        POut::Panic(w) => {
            rec.line("partition", &format!("panic {w}"));
            rec.count(&format!("partition-panic-{w}"));
        }
    }
    if mode == "c42" {
        if let POut::Panic(w) = &out {
            if w != "conflicted-refs" {
                rec.check(false, &format!("c42-panic@{w}"), "partition_graph panicked");
            }
        }
    } else if mode == "c19" {
        oracle::check_c19(rec, &flat, &out);
    } else if let POut::Ok(pv) = &out {
        oracle::check_c18(rec, &flat, pv);
    } else if let POut::Panic(w) = &out {
        // a panic other than the conflicted-reference assert is a failure for C18 as well
        if w != "conflicted-refs" {
            rec.check(false, &format!("c18-panic@{w}"), "partition_graph panicked");
        }
    }
}

fn main() {
    let a = Args::parse();
    hv_common::quiet_panics();
    let seed = Rng::new(a.seed);
    let rule = match a.mode.as_str() {
        "c18" | "c19" => "a program that builds, has >=4 nodes, and is either rejected with a cycle or partitioned into >=2 subgraphs",
        "c20" => "a program with at least one rewritten (removed) unary union/tee or a partitioned graph with >=1 handoff that round-trips through JSON",
        _ => "a program that compiles to code (>=2 subgraphs)",
    };
    let mut rec = Recorder::new(rule);
    let cases: Vec<(u64, String, Vec<String>)> = if let Some(rp) = &a.replay {
        replay_cases(hv_common::read_lines(rp)).into_iter().enumerate().map(|(i, (t, l))| (i as u64 + 1, t, prog_lines_of(&l))).collect()
    } else {
        (0..a.cases)
            .map(|i| {
                if a.mode == "c20" && i % 6 == 5 {
                    return (i + 1, "modules".to_string(), Vec::new());
                }
                let (t, l) = gen_case(&seed, i, &a.tier);
                (i + 1, t, l)
            })
            .collect()
    };
    let mut hashes: Vec<String> = Vec::new();
    for (n, tag, plines) in &cases {
        match a.mode.as_str() {
            "c18" | "c19" => run_partition_case(&mut rec, &a.mode, *n, tag, plines),
            "c20" => {
                if tag == "modules" {
                    rewrite::run_c20_module_case(&mut rec, *n, &seed)
                } else {
                    rewrite::run_c20_case(&mut rec, *n, tag, plines)
                }
            }
            "c42" => rewrite::run_c42_case(&mut rec, *n, tag, plines, &a, &mut hashes),
            m => {
                eprintln!("unknown mode {m}");
                std::process::exit(2)
            }
        }
    }
    rec.finish(&a.out);
    if a.mode == "c42" {
        // one line per case: hashes of generated code and of graph JSON + renderings (compared across processes)
        std::fs::write(a.out.join("hashes.txt"), hashes.join("\n") + "\n").unwrap();
    }
}
