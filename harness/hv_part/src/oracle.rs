//! Property oracles evaluated on the output of the REAL pipeline (independent of the Lean model).

use std::collections::{BTreeMap, BTreeSet};

use dfir_lang::graph::ops::DelayType;
use dfir_lang::graph::{DfirGraph, GraphNode, GraphNodeId};
use hv_common::Recorder;

use crate::dump::{Flat, PView, idx, port_str};

/// The C19 dependency graph, built from the flat graph by the *specification*:
/// non-delayed pipe edges + reference edges (producer handoff -> borrower, borrower -> pipe consumer of
/// the handoff) + access-order edges (earlier group -> later group) + block-contiguity edges: a `loop {}`
/// block runs as one unit, so for every dependency `s -> d` above whose `d` lies in a loop block that does
/// not contain `s`, `s` precedes every node directly inside the outermost such block.  `src -> dst`.
pub fn dep_edges(f: &Flat) -> BTreeSet<(u64, u64)> {
    let mut base: Vec<(u64, u64)> = Vec::new();
    for e in &f.edges {
        if e.delay.is_none() {
            base.push((e.src, e.dst));
        }
    }
    for r in &f.refs {
        if let Some(t) = r.target {
            base.push((t, r.node));
            if f.is_hoff(t) {
                for e in &f.edges {
                    if e.src == t {
                        base.push((r.node, e.dst));
                    }
                }
            }
        }
    }
    base.extend(access_pairs(f));
    // chain of loops around a node, innermost first
    let chain = |n: u64| -> Vec<u64> {
        let mut out = Vec::new();
        let mut l = f.node(n).lp;
        while let Some(x) = l {
            out.push(x);
            l = f.loop_parent(x);
        }
        out
    };
    let mut es: BTreeSet<(u64, u64)> = base.iter().copied().collect();
    for &(s, d) in &base {
        let around_s = chain(s);
        // loops around `d` that are not around `s`; the last one is the outermost
        let block = chain(d).into_iter().take_while(|l| !around_s.contains(l)).last();
        if let Some(b) = block {
            for l in f.loops.iter().filter(|l| l.id == b) {
                for &i in &l.nodes {
                    if f.nodes.iter().any(|n| n.id == i) {
                        es.insert((s, i));
                    }
                }
            }
        }
    }
    es
}

/// (earlier-group member, later-group member) for consecutive access groups of the same handoff
pub fn access_pairs(f: &Flat) -> Vec<(u64, u64)> {
    let mut by_t: BTreeMap<u64, BTreeMap<Option<u32>, Vec<u64>>> = BTreeMap::new();
    for r in &f.refs {
        if let Some(t) = r.target {
            by_t.entry(t).or_default().entry(r.group).or_default().push(r.node);
        }
    }
    let mut out = Vec::new();
    for groups in by_t.values() {
        let gs: Vec<&Vec<u64>> = groups.values().collect();
        for w in gs.windows(2) {
            for &a in w[0] {
                for &b in w[1] {
                    out.push((a, b));
                }
            }
        }
    }
    out
}

/// Kahn: does the digraph over `nodes` have a cycle?
pub fn has_cycle(nodes: &[u64], es: &BTreeSet<(u64, u64)>) -> bool {
    let mut indeg: BTreeMap<u64, usize> = nodes.iter().map(|&n| (n, 0)).collect();
    for &(_, d) in es {
        *indeg.entry(d).or_insert(0) += 1;
    }
    let mut q: Vec<u64> = indeg.iter().filter(|(_, v)| **v == 0).map(|(&k, _)| k).collect();
    let mut seen = 0;
    while let Some(n) = q.pop() {
        seen += 1;
        for &(s, d) in es.range((n, 0)..=(n, u64::MAX)) {
            debug_assert_eq!(s, n);
            let c = indeg.get_mut(&d).unwrap();
            *c -= 1;
            if *c == 0 {
                q.push(d);
            }
        }
    }
    seen != indeg.len()
}

pub fn check_c19(rec: &mut Recorder, f: &Flat, out: &crate::dump::POut) {
    let es = dep_edges(f);
    let ids: Vec<u64> = f.nodes.iter().map(|n| n.id).collect();
    let cyc = has_cycle(&ids, &es);
    rec.count(if cyc { "dep-cyclic" } else { "dep-acyclic" });
    match out {
        crate::dump::POut::Ok(_) => {
            rec.check(!cyc, "c19-accepted-cyclic", &format!("partition_graph accepted a graph whose dependency graph has a cycle; edges={es:?}"));
        }
        crate::dump::POut::Err(c, msg) => {
            rec.check(cyc, "c19-rejected-acyclic", &format!("partition_graph rejected an acyclic graph: {msg}"));
            rec.check(msg.contains("Cyclical dataflow within a tick"), "c19-wrong-diagnostic", msg);
            // the reported cycle is a real cycle of the dependency graph, each node once
            let mut ok = !c.is_empty();
            for i in 0..c.len() {
                let a = c[i];
                let b = c[(i + 1) % c.len()];
                if !es.contains(&(a, b)) {
                    ok = false;
                }
            }
            let distinct: BTreeSet<u64> = c.iter().copied().collect();
            rec.check(ok, "c19-reported-cycle-not-real", &format!("cycle={c:?} edges={es:?}"));
            rec.check(distinct.len() == c.len(), "c19-reported-cycle-repeats-node", &format!("cycle={c:?}"));
        }
        crate::dump::POut::Panic(w) => {
            if w == "conflicted-refs" {
                // a node in two consecutive access groups of one handoff: a self-dependency, rejected by assert
                rec.check(cyc, "c19-panic-conflicted-refs-acyclic", "assert fired but dependency graph is acyclic");
                rec.count("panic-conflicted-refs");
            } else {
                rec.check(false, &format!("c19-panic@{w}"), "partition_graph panicked");
            }
        }
    }
}

fn node_color(g: &DfirGraph, n: GraphNodeId) -> Option<u8> {
    // the documented colouring rule, re-stated: 0 pull, 1 push, 2 comp, 3 hoff
    if matches!(g.node(n), GraphNode::Handoff { .. }) {
        return Some(3);
    }
    if let GraphNode::Operator(op) = g.node(n) {
        let nm = op.name_string();
        if nm == "resolve_futures_blocking" || nm == "resolve_futures_blocking_ordered" {
            return Some(1);
        }
    }
    match (g.node_degree_in(n), g.node_degree_out(n)) {
        (0, 0) | (1, 1) => None,
        (0, 1) => Some(0),
        (1, 0) => Some(1),
        (i, o) if i >= 2 && o <= 1 => Some(0),
        (i, o) if i <= 1 && o >= 2 => Some(1),
        _ => Some(2),
    }
}

pub fn check_c18(rec: &mut Recorder, f: &Flat, pv: &PView) {
    let p = &pv.graph;
    // --- every operator in exactly one subgraph, toposort is a permutation of the subgraphs
    let order: Vec<_> = p.subgraph_toposort().to_vec();
    let pos: BTreeMap<_, usize> = order.iter().enumerate().map(|(i, &s)| (s, i)).collect();
    let all_sgs: BTreeSet<_> = p.subgraph_ids().collect();
    rec.check(pos.len() == order.len() && order.iter().copied().collect::<BTreeSet<_>>() == all_sgs, "c18-toposort-not-permutation", "");
    let mut member_count: BTreeMap<GraphNodeId, usize> = BTreeMap::new();
    for (sg, nodes) in p.subgraphs() {
        rec.check(!nodes.is_empty(), "c18-empty-subgraph", "");
        for &n in nodes {
            *member_count.entry(n).or_default() += 1;
            rec.check(p.node_subgraph(n) == Some(sg), "c18-node-subgraph-mismatch", "");
            rec.check(matches!(p.node(n), GraphNode::Operator(_)), "c18-handoff-in-subgraph", "");
        }
    }
    for (n, node) in p.nodes() {
        if matches!(node, GraphNode::Operator(_)) {
            rec.check(member_count.get(&n) == Some(&1), "c18-operator-not-in-one-subgraph", &format!("{}", idx(n)));
        }
    }
    let sgpos = |n: GraphNodeId| p.node_subgraph(n).and_then(|s| pos.get(&s).copied());
    // --- single loop context
    for (_sg, nodes) in p.subgraphs() {
        let l0 = p.node_loop(nodes[0]);
        rec.check(nodes.iter().all(|&n| p.node_loop(n) == l0), "c18-subgraph-multiple-loops", "");
    }
    // --- pipeline shape: pull* then push*
    for (_sg, nodes) in p.subgraphs() {
        let cols: Vec<Option<u8>> = nodes.iter().map(|&n| node_color(p, n)).collect();
        // statically coloured nodes: Pull* Comp? Push*
        let mut phase = 0; // 0 pull, 1 after comp/push
        let mut comps = 0;
        let mut ok = true;
        for c in cols.iter().flatten() {
            match c {
                0 => {
                    if phase != 0 {
                        ok = false
                    }
                }
                2 => {
                    comps += 1;
                    if phase != 0 {
                        ok = false
                    }
                    phase = 1;
                }
                1 => phase = 1,
                _ => ok = false,
            }
        }
        rec.check(ok && comps <= 1, "c18-colours-not-pull-then-push", &format!("{cols:?}"));
        // codegen's split: first statically non-pull node
        let split = cols.iter().position(|c| c.is_some_and(|c| c != 0)).unwrap_or(nodes.len());
        let in_sg: BTreeMap<GraphNodeId, usize> = nodes.iter().enumerate().map(|(i, &n)| (n, i)).collect();
        for (i, &n) in nodes.iter().enumerate() {
            if i < split {
                rec.check(p.node_degree_out(n) <= 1, "c18-pull-node-fanout", &format!("node {}", idx(n)));
            } else if i > split {
                rec.check(p.node_degree_in(n) <= 1, "c18-push-node-fanin", &format!("node {}", idx(n)));
            }
            // internal edges go forward
            for (_e, s) in p.node_successors(n) {
                if let Some(&j) = in_sg.get(&s) {
                    rec.check(i < j, "c18-internal-edge-backward", &format!("{} -> {}", idx(n), idx(s)));
                }
            }
        }
        // one pipeline: connected through internal edges
        let mut seen: BTreeSet<GraphNodeId> = BTreeSet::new();
        let mut st = vec![nodes[0]];
        while let Some(x) = st.pop() {
            if !seen.insert(x) {
                continue;
            }
            for (_e, y) in p.node_successors(x).chain(p.node_predecessors(x)) {
                if in_sg.contains_key(&y) {
                    st.push(y);
                }
            }
        }
        rec.check(seen.len() == nodes.len(), "c18-subgraph-not-connected", "");
    }
    // --- every edge between operators stays inside one subgraph; handoffs sit between two subgraphs
    for (_e, (s, d)) in p.edges() {
        let so = matches!(p.node(s), GraphNode::Operator(_));
        let dop = matches!(p.node(d), GraphNode::Operator(_));
        if so && dop {
            rec.check(p.node_subgraph(s) == p.node_subgraph(d), "c18-cross-subgraph-edge-without-handoff", &format!("{} -> {}", idx(s), idx(d)));
        }
        rec.check(so || dop, "c18-adjacent-handoffs", "");
    }
    for (h, node) in p.nodes() {
        if !matches!(node, GraphNode::Handoff { .. }) {
            continue;
        }
        rec.check(p.node_degree_in(h) == 1 && p.node_degree_out(h) <= 1, "c18-handoff-degree", &format!("{}", idx(h)));
        if let (Some((_, a)), Some((_, b))) = (p.node_predecessors(h).next(), p.node_successors(h).next()) {
            // a handoff joins two different subgraphs; only a delay-marked (double-buffered back-edge) handoff may
            // lead from a subgraph back into itself
            rec.check(p.node_subgraph(a) != p.node_subgraph(b) || p.handoff_delay_type(h).is_some(), "c18-handoff-inside-subgraph", &format!("{} -> h{} -> {}", idx(a), idx(h), idx(b)));
        }
    }
    // --- exactly one handoff per crossing flat edge: contraction of inserted handoffs gives back the flat wiring
    let mut wiring: Vec<(u64, String, u64, String, usize)> = Vec::new(); // (src, sport, dst, dport, handoffs on it)
    let inserted: BTreeSet<GraphNodeId> = pv.inserted.iter().map(|x| x.0).collect();
    for (e, (s, d)) in p.edges() {
        if inserted.contains(&s) {
            continue;
        }
        let (sp, dp) = p.edge_ports(e);
        if inserted.contains(&d) {
            let (e1, d2) = p.node_successors(d).next().unwrap();
            wiring.push((idx(s), port_str(sp), idx(d2), port_str(p.edge_ports(e1).1), 1));
        } else {
            wiring.push((idx(s), port_str(sp), idx(d), port_str(dp), 0));
        }
    }
    let mut w1: Vec<_> = wiring.iter().map(|w| (w.0, w.1.clone(), w.2, w.3.clone())).collect();
    let mut w0: Vec<_> = f.edges.iter().map(|e| (e.src, e.sport.clone(), e.dst, e.dport.clone())).collect();
    w1.sort();
    w0.sort();
    rec.check(w0 == w1, "c18-wiring-changed-by-partitioning", &format!("flat={w0:?} part={w1:?}"));
    // --- delayed inputs cross a handoff marked with the declared delay
    let nested = |n: u64| f.node(n).lp.and_then(|l| f.loop_parent(l)).is_some();
    let mut expected_marks: BTreeMap<u64, DelayType> = BTreeMap::new(); // handoff node idx -> delay
    for e in &f.edges {
        let Some(dt) = e.delay else { continue };
        let eff = if nested(e.dst) {
            match dt {
                DelayType::Tick => DelayType::Loop,
                DelayType::TickLazy => DelayType::LoopLazy,
                o => o,
            }
        } else {
            dt
        };
        // find the handoff feeding e.dst on this port
        let dkey = f.node(e.dst).key;
        let mut found = false;
        for (pe, pred) in p.node_predecessors(dkey) {
            if port_str(p.edge_ports(pe).1) != e.dport {
                continue;
            }
            if !matches!(p.node(pred), GraphNode::Handoff { .. }) {
                continue;
            }
            let through = if inserted.contains(&pred) { p.node_predecessors(pred).next().map(|x| idx(x.1)) } else { Some(idx(pred)) };
            if through == Some(e.src) {
                found = true;
                expected_marks.insert(idx(pred), eff);
                rec.check(p.handoff_delay_type(pred) == Some(eff), "c18-delay-mark-mismatch", &format!("edge {}->{} declared {:?} marked {:?}", e.src, e.dst, eff, p.handoff_delay_type(pred)));
            }
        }
        rec.check(found, "c18-delayed-input-without-handoff", &format!("edge {}->{}", e.src, e.dst));
    }
    for (h, node) in p.nodes() {
        if matches!(node, GraphNode::Handoff { .. }) && !expected_marks.contains_key(&idx(h)) {
            rec.check(p.handoff_delay_type(h).is_none(), "c18-spurious-delay-mark", &format!("{}", idx(h)));
        }
    }
    // --- barrier / access-order pairs are in different subgraphs
    for e in &f.edges {
        // (a delayed self-edge `d -> d` stays in its subgraph; its delay-marked handoff is checked above)
        if e.delay.is_some() && !f.is_hoff(e.src) && e.src != e.dst {
            rec.check(p.node_subgraph(f.node(e.src).key) != p.node_subgraph(f.node(e.dst).key), "c18-barrier-pair-same-subgraph", "");
        }
    }
    for (a, b) in access_pairs(f) {
        rec.check(p.node_subgraph(f.node(a).key) != p.node_subgraph(f.node(b).key), "c18-access-pair-same-subgraph", "");
    }
    let inside = |mut l: Option<u64>, target: u64| -> bool {
        while let Some(x) = l {
            if x == target {
                return true;
            }
            l = f.loop_parent(x);
        }
        false
    };
    // --- order: producers before consumers
    let producer_of = |n: u64| -> Option<u64> {
        // the operator behind a flat handoff
        if f.is_hoff(n) { f.edges.iter().find(|e| e.dst == n).map(|e| e.src) } else { Some(n) }
    };
    for e in &f.edges {
        if e.delay.is_some() || f.is_hoff(e.dst) {
            continue;
        }
        let Some(s) = producer_of(e.src) else { continue };
        if f.is_hoff(s) {
            continue;
        }
        let (ps, pd) = (sgpos(f.node(s).key), sgpos(f.node(e.dst).key));
        let same = p.node_subgraph(f.node(s).key) == p.node_subgraph(f.node(e.dst).key);
        rec.check(ps.is_some() && pd.is_some() && (ps < pd || (same && !f.is_hoff(e.src))), "c18-consumer-before-producer", &format!("{} -> {} pos {:?} {:?}", s, e.dst, ps, pd));
    }
    for r in &f.refs {
        let Some(t) = r.target else { continue };
        if let Some(prod) = producer_of(t) {
            if !f.is_hoff(prod) {
                // is the borrower inside a loop block that does not contain the referenced handoff?
                // (`make_loops_contiguous` hoists such a block as a whole)
                let bl = f.node(r.node).lp;
                let hoisted = bl.is_some() && !inside(f.node(t).lp, bl.unwrap());
                rec.count(if hoisted { "ref-into-loop-block" } else { "ref-same-level" });
                rec.check(sgpos(f.node(prod).key) < sgpos(f.node(r.node).key), "c18-reference-before-producer", &format!("producer {} borrower {}", prod, r.node));
            }
        }
        if f.is_hoff(t) {
            for e in f.edges.iter().filter(|e| e.src == t) {
                if e.delay.is_none() {
                    // the borrower runs before the pipe consumer of the handoff, in an earlier subgraph: the consumer's
                    // subgraph drains the handoff before any of its operators runs, so the two never share a subgraph
                    // (finding F25, fixed: borrower/consumer are enemy pairs of the partitioner)
                    let (b, c) = (f.node(r.node).key, f.node(e.dst).key);
                    let same = p.node_subgraph(b) == p.node_subgraph(c);
                    rec.check(!same || b == c, "c18-borrower-shares-consumer-subgraph", &format!("borrower {} consumer {}", r.node, e.dst));
                    let within = b == c;
                    let cl = f.node(e.dst).lp;
                    if cl.is_some() && !inside(f.node(r.node).lp, cl.unwrap()) {
                        rec.count("borrower-outside-consumer-loop-block");
                    }
                    rec.check(sgpos(b) < sgpos(c) || within, "c18-consumer-before-borrower", &format!("borrower {} consumer {}", r.node, e.dst));
                }
            }
        }
    }
    for (a, b) in access_pairs(f) {
        let bl = f.node(b).lp;
        if bl.is_some() && !inside(f.node(a).lp, bl.unwrap()) {
            rec.count("access-group-into-loop-block");
        }
        rec.check(sgpos(f.node(a).key) < sgpos(f.node(b).key), "c18-access-group-order", &format!("{a} {b}"));
    }
    // --- loops contiguous (every loop with all its descendants)
    let sg_loop: Vec<Option<u64>> = order.iter().map(|&s| p.node_loop(p.subgraph(s)[0]).map(idx)).collect();
    for l in &f.loops {
        let ps: Vec<usize> = (0..order.len()).filter(|&i| inside(sg_loop[i], l.id)).collect();
        if let (Some(&a), Some(&b)) = (ps.first(), ps.last()) {
            rec.check(b - a + 1 == ps.len(), "c18-loop-not-contiguous", &format!("loop {} positions {:?}", l.id, ps));
        }
    }
}
