#!/usr/bin/env python3
"""
Generates the Hydro program corpus of the hv_hydro harness from *program terms*:

  flows/src/progs.rs   one `pub fn pNNN(in0, in1)` per term, written against the safe hydro_lang API
  progs/src/proglist.rs   `prog!(pNNN);` module instantiations + `table()` (name, mode tags, kind, term, run fn)
  progs/src/buildlist.rs  `generate_all(out_dir)` for progs/build.rs

A term is the prefix notation understood by the Lean driver (`Model/Catalogue.lean`) and by the
reference interpreter in `src/refint.rs`; each operator / closure code maps to one fixed Rust snippet below.
The corpus = hand-written terms (one or more per operator and per interesting combination) + seeded random
compositions.  Deterministic: running it again must reproduce the committed files (checked by `checks/C28.py`).

usage: gen_programs.py [--check]
"""
import os, random, sys

HERE = os.path.dirname(os.path.abspath(__file__))

# ------------------------------------------------------------------ closure catalogue (code -> rust)
MAPF = {   # code: (elem_in, elem_out, rust closure for Stream::map, rust closure for KeyedStream::map (on values) or None)
    "inc": ("I", "I", "|x| x + 1", None),
    "dbl": ("I", "I", "|x| x * 2", None),
    "neg": ("I", "I", "|x| -x", None),
    "kv3": ("I", "P", "|x| (x.rem_euclid(3), x)", None),
    "swap": ("P", "P", "|(a, b)| (b, a)", None),
    "fst": ("P", "I", "|(a, _b)| a", None),
    "snd": ("P", "I", "|(_a, b)| b", None),
    "add2": ("P", "I", "|(a, b)| a + b", None),
    "vinc": ("P", "P", "|(k, v)| (k, v + 1)", "|v| v + 1"),
    "flat": ("J", "P", "|(k, (a, b))| (k, a * 100 + b)", None),
    "idx": ("E", "P", "|(i, x)| (x, i as i64)", None),
    # keyed only: values of `KeyedStream::enumerate()` are (usize, i64)
    "kidx": ("J", "P", None, "|(i, v)| v * 100 + i as i64"),
}
PREDF = {  # code: (elem, closure on &T, closure on &V for keyed or None)
    "even": ("I", "|x| *x % 2 == 0", None),
    "pos": ("I", "|x| *x > 0", None),
    "small": ("I", "|x| *x < 5", None),
    "any": ("I", "|_x| true", None),
    "keven": ("P", "|(k, _v)| *k % 2 == 0", None),
    "vodd": ("P", "|(_k, v)| *v % 2 != 0", "|v| *v % 2 != 0"),
}
FLATF = {
    "dup": ("I", "I", "|x| vec![x, x + 10]"),
    "rep": ("I", "I", "|x| vec![x; x.rem_euclid(3) as usize]"),
}
OPTF = {
    "half": ("I", "I", "|x| if x % 2 == 0 { Some(x / 2) } else { None }"),
}
SCANF = {
    "runsum": ("|| 0i64", "|acc, x| { *acc += x; Some(*acc) }"),
    "stop": ("|| 0i64", "|acc, x| { if *acc + x > 12 { None } else { *acc += x; Some(*acc) } }"),
}
FOLDF = {  # code: (comm, init, body-with-proof, body-without-proof)
    "sum": (True, "|| 0i64", "|acc, x| *acc += x, commutative = manual_proof!(/** addition */)"),
    "cnt": (True, "|| 0i64", "|acc, _x| *acc += 1, commutative = manual_proof!(/** counting */)"),
    "poly": (False, "|| 0i64", "|acc, x| *acc = *acc * 3 + x"),
    "maxf": (True, "|| -100i64", "|acc, x| if x > *acc { *acc = x }, commutative = manual_proof!(/** max */)"),
}
REDF = {
    "rsum": "|acc, x| *acc += x",
    "rmax": "|acc, x| if x > *acc { *acc = x }",
    "rmin": "|acc, x| if x < *acc { *acc = x }",
    "rlast": "|acc, x| *acc = x",
    "rpoly": "|acc, x| *acc = *acc * 3 + x",
    # with a commutativity proof (usable on NoOrder input)
    "rsumc": "|acc, x| *acc += x, commutative = manual_proof!(/** addition */)",
    "rmaxc": "|acc, x| if x > *acc { *acc = x }, commutative = manual_proof!(/** max */)",
}
REDCOMM = ("rsumc", "rmaxc")

STREAM = ("sT", "sK", "sN", "sKN")


class Bad(Exception):
    pass


def parse(tokens):
    """prefix tokens -> nested tuple (op, arg, children...)"""
    def go(i):
        if i >= len(tokens):
            raise Bad("short")
        w = tokens[i]
        op, _, arg = w.partition(":")
        ar = ARITY.get(op)
        if ar is None:
            raise Bad("op " + op)
        kids = []
        j = i + 1
        for _ in range(ar):
            k, j = go(j)
            kids.append(k)
        return (op, arg, kids), j
    t, j = go(0)
    if j != len(tokens):
        raise Bad("trailing")
    return t


ARITY = {"in0": 0, "in1": 0, "const": 0, "map": 1, "filter": 1, "flatmap": 1, "filtermap": 1, "enumerate": 1,
         "scan": 1, "unique": 1, "kscan": 1, "union": 2, "chain": 2, "join": 2, "fold": 1, "reduce": 1, "kfold": 1,
         "foldb": 1, "xsing": 2, "smap": 1, "sfilter": 1, "reduceb": 1, "joinb": 2, "antijoinb": 2, "notinb": 2,
         "kreduce": 1, "klimit": 1, "kenum": 1, "kfirst": 1, "kunion": 2, "joinlb": 2}


def emit(t):
    """-> (rust expr, kind, elem, keyed_repr)   keyed_repr: the Rust value is a KeyedStream (kind sK)"""
    op, arg, kids = t
    if op in ("in0", "in1"):
        return f"{op}.clone()", "sT", "I"
    if op == "const":
        xs = [] if arg == "-" else arg.split(",")
        body = ", ".join(x + "i64" for x in xs)
        return f"p.source_iter(q!(vec![{body}] as Vec<i64>))", "bT", "I"
    if op in ("map", "smap"):
        e, k, el = emit(kids[0])
        ein, eout, cl, kcl = MAPF[arg]
        if el != ein:
            raise Bad("elem")
        if op == "smap":
            if k not in ("sing", "opt", "bsing"):
                raise Bad("kind")
            return f"{e}.map(q!({cl}))", k, eout
        if k in ("sK", "sKN"):
            if kcl is None:
                raise Bad("keyed map")
            return f"{e}.map(q!({kcl}))", k, eout
        if k not in ("sT", "sN", "bT", "bN") or cl is None:
            raise Bad("kind")
        return f"{e}.map(q!({cl}))", k, eout
    if op in ("filter", "sfilter"):
        e, k, el = emit(kids[0])
        ein, cl, kcl = PREDF[arg]
        if el != ein:
            raise Bad("elem")
        if op == "sfilter":
            if k not in ("sing", "opt"):
                raise Bad("kind")
            return f"{e}.filter(q!({cl}))", "opt", el
        if k in ("sK", "sKN"):
            if kcl is None:
                raise Bad("keyed filter")
            return f"{e}.filter(q!({kcl}))", k, el
        if k not in ("sT", "sN", "bT", "bN"):
            raise Bad("kind")
        return f"{e}.filter(q!({cl}))", k, el
    if op == "flatmap":
        e, k, el = emit(kids[0])
        ein, eout, cl = FLATF[arg]
        if el != ein or k not in ("sT", "sN", "bT"):
            raise Bad("flatmap")
        return f"{e}.flat_map_ordered(q!({cl}))", k, eout
    if op == "filtermap":
        e, k, el = emit(kids[0])
        ein, eout, cl = OPTF[arg]
        if el != ein or k not in ("sT", "sN", "bT"):
            raise Bad("filtermap")
        return f"{e}.filter_map(q!({cl}))", k, eout
    if op == "enumerate":
        e, k, el = emit(kids[0])
        if k != "sT" or el != "I":
            raise Bad("enumerate")
        return f"{e}.enumerate()", "sT", "E"
    if op == "scan":
        e, k, el = emit(kids[0])
        if k != "sT" or el != "I":
            raise Bad("scan")
        i, f = SCANF[arg]
        return f"{e}.scan(q!({i}), q!({f}))", "sT", "I"
    if op == "unique":
        e, k, el = emit(kids[0])
        if k not in ("sT", "sN"):
            raise Bad("unique")
        return f"{e}.unique()", k, el
    if op == "kscan":
        e, k, el = emit(kids[0])
        if el != "P" or k not in ("sT", "sK"):
            raise Bad("kscan")
        i, f = SCANF[arg]
        src = e if k == "sK" else f"{e}.into_keyed()"
        return f"{src}.scan(q!({i}), q!({f}))", "sK", "P"
    if op in ("union", "join"):
        ea, ka, la = emit(kids[0])
        eb, kb, lb = emit(kids[1])
        if ka not in STREAM or kb not in STREAM:
            raise Bad("kinds")
        if ka in ("sK", "sKN"):
            ea = f"{ea}.entries()"
        if kb in ("sK", "sKN"):
            eb = f"{eb}.entries()"
        if op == "union":
            if la != lb:
                raise Bad("elem")
            return f"{ea}.merge_unordered({eb})", "sN", la
        if la != "P" or lb != "P":
            raise Bad("join elem")
        return f"{ea}.join({eb})", "sN", "J"
    if op == "chain":
        ea, ka, la = emit(kids[0])
        eb, kb, lb = emit(kids[1])
        if ka != "bT" or kb not in ("sT", "sN", "bT") or la != lb:
            raise Bad("chain")
        return f"{ea}.chain({eb})", kb, la
    if op == "fold":
        e, k, el = emit(kids[0])
        comm, i, f = FOLDF[arg]
        if el != "I" or not (k == "sT" or (k == "sN" and comm)):
            raise Bad("fold")
        return f"{e}.fold(q!({i}), q!({f}))", "sing", "I"
    if op == "reduce":
        e, k, el = emit(kids[0])
        if el != "I" or k != "sT":
            raise Bad("reduce")
        return f"{e}.reduce(q!({REDF[arg]}))", "opt", "I"
    if op == "kfold":
        e, k, el = emit(kids[0])
        comm, i, f = FOLDF[arg]
        if el != "P" or not (k in ("sT", "sK") or (k == "sKN" and comm)):
            raise Bad("kfold")
        src = e if k in ("sK", "sKN") else f"{e}.into_keyed()"
        return f"{src}.fold(q!({i}), q!({f}))", "ksing", "P"
    if op == "foldb":
        e, k, el = emit(kids[0])
        comm, i, f = FOLDF[arg]
        if el != "I" or not (k == "bT" or (k == "bN" and comm)):
            raise Bad("foldb")
        return f"{e}.fold(q!({i}), q!({f}))", "bsing", "I"
    if op == "xsing":
        ea, ka, la = emit(kids[0])
        eb, kb, lb = emit(kids[1])
        if ka not in ("sT", "sN") or kb != "bsing" or la != "I" or lb != "I":
            raise Bad("xsing")
        return f"{ea}.cross_singleton({eb})", ka, "P"
    if op == "reduceb":
        e, k, el = emit(kids[0])
        if el != "I" or k != "bT":
            raise Bad("reduceb")
        return f"{e}.reduce(q!({REDF[arg]}))", "bsing", "I"
    if op in ("joinb", "antijoinb", "notinb"):
        ea, ka, la = emit(kids[0])
        eb, kb, lb = emit(kids[1])
        if ka not in ("sT", "sN") or kb != "bT":
            raise Bad(op)
        if op == "joinb":
            if la != "P" or lb != "P":
                raise Bad("joinb elem")
            return f"{ea}.join({eb})", ka, "J"
        if op == "antijoinb":
            if la != "P" or lb != "I":
                raise Bad("antijoinb elem")
            return f"{ea}.anti_join({eb})", ka, "P"
        if la != lb:
            raise Bad("notinb elem")
        return f"{ea}.filter_not_in({eb})", ka, la
    if op in ("kreduce", "klimit", "kenum", "kfirst"):
        e, k, el = emit(kids[0])
        if el != "P" or k not in ("sT", "sK", "sKN"):
            raise Bad(op)
        src = e if k in ("sK", "sKN") else f"{e}.into_keyed()"
        if op == "kreduce":
            # KeyedStream::reduce -> HydroNode::ReduceKeyed -> reduce_keyed::<'static>
            if k == "sKN" and arg not in REDCOMM:
                raise Bad("kreduce needs a commutativity proof")
            return f"{src}.reduce(q!({REDF[arg]}))", "ksing", "P"
        if k == "sKN":
            raise Bad(op + " needs ordered values")
        if op == "klimit":
            # KeyedStream::limit = generator (Yield / Return at the n-th / Break afterwards)
            return f"{src}.limit(q!({int(arg)}usize))", "sK", "P"
        if op == "kenum":
            # KeyedStream::enumerate = scan with a per-key counter
            return f"{src}.enumerate()", "sK", "J"
        # KeyedStream::first = fold_early_stop (generator: Return on the first value) + map(unwrap);
        # a keyed singleton with bounded values, observed through entries()
        return f"{src}.first().entries()", "sN", "P"
    if op == "kunion":
        # KeyedStream::merge_unordered: values of one key from both sides interleave -> NoOrder values
        ea, ka, la = emit(kids[0])
        eb, kb, lb = emit(kids[1])
        if la != "P" or lb != "P" or ka not in ("sT", "sK", "sKN") or kb not in ("sT", "sK", "sKN"):
            raise Bad("kunion")
        sa = ea if ka in ("sK", "sKN") else f"{ea}.into_keyed()"
        sb = eb if kb in ("sK", "sKN") else f"{eb}.into_keyed()"
        return f"{sa}.merge_unordered({sb})", "sKN", "P"
    if op == "joinlb":
        # Stream::join with a top-level BOUNDED left side and an UNBOUNDED right side: HydroNode::Join
        # (join_multiset<'static,'static> -> multiset_delta), result typed with the LEFT side's boundedness
        ea, ka, la = emit(kids[0])
        eb, kb, lb = emit(kids[1])
        if ka != "bT" or kb not in ("sT", "sN") or la != "P" or lb != "P":
            raise Bad("joinlb")
        return f"{ea}.join({eb})", "bN", "J"
    raise Bad("op " + op)


OBS = "nondet!(/** observer: the harness looks at the collection once per tick */)"


def finish(expr, kind):
    if kind == "sT" or kind == "bT":
        return f"{expr}.embedded_output(\"out\");"
    if kind in ("sN", "bN"):
        return f"{expr}.assume_ordering::<TotalOrder>({OBS}).embedded_output(\"out\");"
    if kind in ("sK", "sKN"):
        return f"{expr}.entries().assume_ordering::<TotalOrder>({OBS}).embedded_output(\"out\");"
    if kind in ("sing", "opt"):
        return f"{expr}.snapshot(&tick, {OBS}).all_ticks().embedded_output(\"out\");"
    if kind == "ksing":
        return (f"{expr}.snapshot(&tick, {OBS}).entries().all_ticks()"
                f".assume_ordering::<TotalOrder>({OBS}).embedded_output(\"out\");")
    if kind == "bsing":
        return f"{expr}.into_stream().embedded_output(\"out\");"
    raise Bad("finish " + kind)


# ------------------------------------------------------------------ corpus
HAND_C28 = """
map:inc in0
filter:even in0
flatmap:dup in0
flatmap:rep in0
filtermap:half in0
enumerate in0
map:idx enumerate filter:pos in0
scan:runsum in0
scan:stop in0
scan:runsum scan:stop in0
unique in0
unique map:kv3 in0
kscan:runsum map:kv3 in0
kscan:stop map:kv3 in0
map:vinc kscan:runsum map:kv3 in0
filter:vodd kscan:runsum map:kv3 in0
kscan:runsum kscan:runsum map:kv3 in0
union in0 in1
union map:inc in0 in0
unique union in0 in1
chain const:3,1,4 in0
chain const:3,1,4 union in0 in1
chain const:1,2 const:5
enumerate chain const:7,7 in0
join map:kv3 in0 map:kv3 in1
map:flat join map:kv3 in0 map:kv3 in1
join map:kv3 in0 map:kv3 in0
join kscan:runsum map:kv3 in0 map:kv3 in1
fold:sum in0
fold:poly in0
fold:cnt in0
fold:maxf in0
fold:sum union in0 in1
fold:maxf union in0 map:dbl in1
fold:sum map:add2 map:flat join map:kv3 in0 map:kv3 in1
fold:cnt unique union in0 in1
reduce:rsum in0
reduce:rmax in0
reduce:rmin in0
reduce:rlast in0
reduce:rpoly filter:even in0
kfold:sum map:kv3 in0
kfold:poly map:kv3 in0
kfold:poly kscan:runsum map:kv3 in0
kfold:cnt map:swap map:kv3 in0
foldb:sum const:3,1,4
foldb:poly map:inc const:3,1,4
xsing in0 foldb:sum const:3,1,4
xsing union in0 in1 foldb:poly const:2,5
map:add2 xsing in0 smap:inc foldb:sum const:1
smap:dbl fold:sum in0
sfilter:even fold:sum in0
smap:inc reduce:rmax in0
sfilter:pos reduce:rlast in0
smap:inc sfilter:even fold:cnt in0
""".strip().splitlines()


def rand_term(rng, depth, want):
    """random well-typed term tokens of a wanted (kind-class, elem)"""
    kindc, elem = want   # kindc in: 'T' (sT), 'S' (any stream: sT/sN), 'K' (sK), 'V' (sing/opt), 'KS' (ksing)
    if kindc == "T" and elem == "I":
        opts = ["leaf"] * (3 if depth <= 0 else 1)
        if depth > 0:
            opts += ["map", "map", "filter", "flatmap", "filtermap", "scan", "unique", "pmap", "chain"]
        c = rng.choice(opts)
        if c == "leaf":
            return [rng.choice(["in0", "in0", "in1"])]
        if c == "map":
            return ["map:" + rng.choice(["inc", "dbl", "neg"])] + rand_term(rng, depth - 1, ("T", "I"))
        if c == "filter":
            return ["filter:" + rng.choice(["even", "pos", "small"])] + rand_term(rng, depth - 1, ("T", "I"))
        if c == "flatmap":
            return ["flatmap:" + rng.choice(["dup", "rep"])] + rand_term(rng, depth - 1, ("T", "I"))
        if c == "filtermap":
            return ["filtermap:half"] + rand_term(rng, depth - 1, ("T", "I"))
        if c == "scan":
            return ["scan:" + rng.choice(["runsum", "stop"])] + rand_term(rng, depth - 1, ("T", "I"))
        if c == "unique":
            return ["unique"] + rand_term(rng, depth - 1, ("T", "I"))
        if c == "pmap":
            return ["map:" + rng.choice(["fst", "snd", "add2"])] + rand_term(rng, depth - 1, ("T", "P"))
        if c == "chain":
            return ["chain", "const:" + ",".join(str(rng.randint(0, 6)) for _ in range(rng.randint(1, 3)))] + \
                rand_term(rng, depth - 1, ("T", "I"))
    if kindc == "T" and elem == "P":
        opts = ["kv3", "kv3"]
        if depth > 0:
            opts += ["enum", "swap", "vinc", "keven", "xsing", "unique"]
        c = rng.choice(opts)
        if c == "kv3":
            return ["map:kv3"] + rand_term(rng, depth - 1, ("T", "I"))
        if c == "enum":
            return ["map:idx", "enumerate"] + rand_term(rng, depth - 1, ("T", "I"))
        if c == "swap":
            return ["map:swap"] + rand_term(rng, depth - 1, ("T", "P"))
        if c == "vinc":
            return ["map:vinc"] + rand_term(rng, depth - 1, ("T", "P"))
        if c == "keven":
            return ["filter:" + rng.choice(["keven", "vodd"])] + rand_term(rng, depth - 1, ("T", "P"))
        if c == "unique":
            return ["unique"] + rand_term(rng, depth - 1, ("T", "P"))
        if c == "xsing":
            return ["xsing"] + rand_term(rng, depth - 1, ("T", "I")) + \
                ["foldb:" + rng.choice(["sum", "poly"]), "const:" + ",".join(str(rng.randint(0, 4)) for _ in range(rng.randint(1, 3)))]
    if kindc == "K":
        c = rng.choice(["kscan", "kscan", "vinc", "vodd", "klimit", "kenumidx"] if depth > 0 else ["kscan", "klimit"])
        if c == "klimit":
            sub = rand_term(rng, depth - 1, ("K", "P")) if (depth > 0 and rng.random() < 0.3) else rand_term(rng, depth - 1, ("T", "P"))
            return ["klimit:" + str(rng.randint(0, 3))] + sub
        if c == "kenumidx":
            sub = rand_term(rng, depth - 1, ("K", "P")) if rng.random() < 0.3 else rand_term(rng, depth - 1, ("T", "P"))
            return ["map:kidx", "kenum"] + sub
        if c == "kscan":
            sub = rand_term(rng, depth - 1, ("K", "P")) if (depth > 0 and rng.random() < 0.3) else rand_term(rng, depth - 1, ("T", "P"))
            return ["kscan:" + rng.choice(["runsum", "stop"])] + sub
        if c == "vinc":
            return ["map:vinc"] + rand_term(rng, depth - 1, ("K", "P"))
        return ["filter:vodd"] + rand_term(rng, depth - 1, ("K", "P"))
    if kindc == "S":   # any stream, possibly unordered
        if depth <= 0 or rng.random() < 0.25:
            return rand_term(rng, depth, ("T", elem))
        opts = ["union", "union", "map", "filter", "unique"] + (["join"] if elem == "P" else ["jflat", "flatmap"])
        c = rng.choice(opts)
        if c == "union":
            return ["union"] + rand_term(rng, depth - 1, ("S", elem)) + rand_term(rng, depth - 1, ("S", elem))
        if c == "map":
            f = rng.choice(["inc", "dbl"]) if elem == "I" else rng.choice(["swap", "vinc"])
            return ["map:" + f] + rand_term(rng, depth - 1, ("S", elem))
        if c == "filter":
            f = rng.choice(["even", "small"]) if elem == "I" else rng.choice(["keven", "vodd"])
            return ["filter:" + f] + rand_term(rng, depth - 1, ("S", elem))
        if c == "unique":
            return ["unique"] + rand_term(rng, depth - 1, ("S", elem))
        if c == "flatmap":
            return ["flatmap:" + rng.choice(["dup", "rep"])] + rand_term(rng, depth - 1, ("S", "I"))
        if c == "join":
            return ["map:flat", "join"] + rand_term(rng, depth - 1, ("S", "P")) + rand_term(rng, depth - 1, ("S", "P"))
        if c == "jflat":
            return ["map:" + rng.choice(["add2", "snd"]), "map:flat", "join"] + \
                rand_term(rng, depth - 1, ("S", "P")) + rand_term(rng, depth - 1, ("S", "P"))
    raise Bad("rand " + str(want))


def rand_program(rng):
    root = rng.choice(["T", "T", "S", "S", "S", "K", "K", "fold", "foldN", "reduce", "kfold", "kfoldK", "sval",
                       "kreduce", "kreduceK", "kfirst"])
    d = rng.randint(1, 3)
    if root == "T":
        return rand_term(rng, d, ("T", rng.choice(["I", "P"])))
    if root == "S":
        return rand_term(rng, d, ("S", rng.choice(["I", "P"])))
    if root == "K":
        return rand_term(rng, d, ("K", "P"))
    if root == "fold":
        return ["fold:" + rng.choice(["sum", "poly", "cnt", "maxf"])] + rand_term(rng, d, ("T", "I"))
    if root == "foldN":
        return ["fold:" + rng.choice(["sum", "cnt", "maxf"])] + rand_term(rng, d, ("S", "I"))
    if root == "reduce":
        return ["reduce:" + rng.choice(list(REDF))] + rand_term(rng, d, ("T", "I"))
    if root == "kfold":
        return ["kfold:" + rng.choice(["sum", "poly", "cnt"])] + rand_term(rng, d, ("T", "P"))
    if root == "kfoldK":
        return ["kfold:" + rng.choice(["sum", "poly"])] + rand_term(rng, d, ("K", "P"))
    if root == "kreduce":
        return ["kreduce:" + rng.choice(["rsum", "rpoly", "rlast", "rmin"])] + rand_term(rng, d, ("T", "P"))
    if root == "kreduceK":
        return ["kreduce:" + rng.choice(["rsum", "rpoly", "rmax"])] + rand_term(rng, d, ("K", "P"))
    if root == "kfirst":
        sub = rand_term(rng, d, ("K", "P")) if rng.random() < 0.5 else rand_term(rng, d, ("T", "P"))
        return ["kfirst"] + sub
    if root == "sval":
        inner = ["fold:" + rng.choice(["sum", "poly"])] + rand_term(rng, d - 1, ("T", "I"))
        return [rng.choice(["smap:inc", "smap:dbl", "sfilter:even", "sfilter:pos"])] + inner
    raise Bad(root)


# ------------------------------------------------------------------ tick-level programs (C30)
TARITY = {"b0": 0, "b1": 0, "cyc": 0, "sing": 0, "ofirst": 0, "toopt": 1, "or": 2, "unwrapor": 2, "map": 1, "filter": 1, "flatmap": 1, "filtermap": 1, "enumerate": 1, "unique": 1,
          "sort": 1, "scan": 1, "limit": 1, "fold": 1, "reduce": 1, "count": 1, "max": 1, "min": 1, "first": 1, "last": 1,
          "tostream": 1, "kfold": 1, "chain": 2, "xsing": 2, "join": 2, "antijoin": 2, "notin": 2, "defer": 1, "across": 1}
BATCH = "nondet!(/** the tick's batch */)"
# kind of the value the `cyc` token denotes: `tT` (stream cycle, `tcyc`), `topt` (Optional cycle: `tcyco` with an
# initial value = `Tick::cycle_with_initial`, `tcycp` plain `Tick::cycle`), `tsing` (Singleton cycle with initial, `tcycs`)
CYC_KIND = ["tT"]


def tparse(tokens, i=0):
    if i >= len(tokens):
        raise Bad("short")
    op, _, arg = tokens[i].partition(":")
    ar = TARITY.get(op)
    if ar is None:
        raise Bad("tick op " + op)
    kids = []
    j = i + 1
    for _ in range(ar):
        k, j = tparse(tokens, j)
        kids.append(k)
    return (op, arg, kids), j


def temit(t):
    """-> (rust expr, kind in tT/tN/tsing/topt, elem)"""
    op, arg, kids = t
    if op in ("b0", "b1"):
        return f"in{op[1]}.clone().batch(&tick, {BATCH})", "tT", "I"
    if op == "cyc":
        if CYC_KIND[0] is None:
            raise Bad("cyc outside a cycle (or inside its initial value)")
        return "cyc.clone()", CYC_KIND[0], "I"
    if op == "sing":
        # `tick.singleton(q!(v))`: SingletonSource { first_tick_only: false } -> source_iter([v]) -> persist::<'static>()
        return f"tick.singleton(q!({int(arg)}i64))", "tsing", "I"
    if op == "ofirst":
        # `tick.optional_first_tick(q!(v))`: SingletonSource { first_tick_only: true } -> source_iter([v])
        return f"tick.optional_first_tick(q!({int(arg)}i64))", "topt", "I"
    if op == "toopt":
        # Singleton -> Optional (HydroNode::Cast: no DFIR operator)
        e, k, el = temit(kids[0])
        if k != "tsing":
            raise Bad("toopt")
        return f"Optional::<i64, _, Bounded>::from({e})", "topt", el
    if op in ("or", "unwrapor"):
        # Optional::or / Optional::unwrap_or: HydroNode::ChainFirst -> chain_first_n(1)
        ea, ka, la = temit(kids[0])
        eb, kb, lb = temit(kids[1])
        if ka != "topt" or la != lb:
            raise Bad(op)
        if op == "or":
            if kb != "topt":
                raise Bad("or")
            return f"{ea}.or({eb})", "topt", la
        if kb != "tsing":
            raise Bad("unwrapor")
        return f"{ea}.unwrap_or({eb})", "tsing", la
    if op == "map":
        e, k, el = temit(kids[0])
        ein, eout, cl, _ = MAPF[arg]
        if el != ein:
            raise Bad("elem")
        return f"{e}.map(q!({cl}))", k, eout
    if op == "filter":
        e, k, el = temit(kids[0])
        ein, cl, _ = PREDF[arg]
        if el != ein:
            raise Bad("elem")
        return f"{e}.filter(q!({cl}))", ("topt" if k == "tsing" else k), el
    if op == "flatmap":
        e, k, el = temit(kids[0])
        ein, eout, cl = FLATF[arg]
        if el != ein or k != "tT":
            raise Bad("flatmap")
        return f"{e}.flat_map_ordered(q!({cl}))", k, eout
    if op == "filtermap":
        e, k, el = temit(kids[0])
        ein, eout, cl = OPTF[arg]
        if el != ein or k != "tT":
            raise Bad("filtermap")
        return f"{e}.filter_map(q!({cl}))", k, eout
    if op in ("enumerate", "unique", "sort", "scan", "limit", "fold", "reduce", "count", "max", "min", "first", "last",
              "kfold", "defer", "across"):
        e, k, el = temit(kids[0])
        if op == "defer":
            if k not in ("tT", "topt"):
                raise Bad("defer")
            return f"{e}.defer_tick()", k, el
        if k != "tT":
            raise Bad(op + " needs a stream")
        if op == "enumerate":
            if el != "I":
                raise Bad("enumerate")
            return f"{e}.enumerate()", "tT", "E"
        if op == "unique":
            return f"{e}.unique()", "tT", el
        if op == "sort":
            return f"{e}.sort()", "tT", el
        if op == "scan":
            if el != "I":
                raise Bad("scan")
            i, f = SCANF[arg]
            return f"{e}.scan(q!({i}), q!({f}))", "tT", "I"
        if op == "limit":
            return f"{e}.limit(q!({int(arg)}usize))", "tT", el
        if op == "fold":
            comm, i, f = FOLDF[arg]
            if el != "I":
                raise Bad("fold")
            return f"{e}.fold(q!({i}), q!({f}))", "tsing", "I"
        if op == "reduce":
            if el != "I":
                raise Bad("reduce")
            return f"{e}.reduce(q!({REDF[arg]}))", "topt", "I"
        if op == "count":
            return f"{e}.count().map(q!(|c| c as i64))", "tsing", "I"
        if op in ("max", "min", "first", "last"):
            return f"{e}.{op}()", "topt", el
        if op == "kfold":
            comm, i, f = FOLDF[arg]
            if el != "P":
                raise Bad("kfold")
            return f"{e}.into_keyed().fold(q!({i}), q!({f})).entries()", "tN", "P"
        if op == "across":
            comm, i, f = FOLDF[arg]
            if el != "I":
                raise Bad("across")
            return f"{e}.across_ticks(|s| s.fold(q!({i}), q!({f})))", "tsing", "I"
    if op == "tostream":
        e, k, el = temit(kids[0])
        if k not in ("tsing", "topt"):
            raise Bad("tostream")
        return f"{e}.into_stream()", "tT", el
    if op in ("chain", "join", "antijoin", "notin", "xsing"):
        ea, ka, la = temit(kids[0])
        eb, kb, lb = temit(kids[1])
        if ka != "tT":
            raise Bad(op)
        if op == "xsing":
            if kb not in ("tsing", "topt") or la != "I" or lb != "I":
                raise Bad("xsing")
            return f"{ea}.cross_singleton({eb})", "tT", "P"
        if kb != "tT":
            raise Bad(op)
        if op == "chain":
            if la != lb:
                raise Bad("chain")
            return f"{ea}.chain({eb})", "tT", la
        if op == "join":
            if la != "P" or lb != "P":
                raise Bad("join")
            return f"{ea}.join({eb})", "tT", "J"
        if op == "antijoin":
            if la != "P" or lb != "I":
                raise Bad("antijoin")
            return f"{ea}.anti_join({eb})", "tT", "P"
        if op == "notin":
            if la != lb:
                raise Bad("notin")
            return f"{ea}.filter_not_in({eb})", "tT", la
    raise Bad("tick op " + op)


OPT_T = "Optional<i64, Tick<P<'a>>, Bounded>"


def temit_program(tokens):
    """-> (body lines, kind)"""
    lines = []
    head = tokens[0]
    init = nxt = None
    if head == "tick":
        CYC_KIND[0] = None
        out, j = tparse(tokens, 1)
    elif head == "tcyc":
        CYC_KIND[0] = "tT"
        nxt, j = tparse(tokens, 1)
        out, j = tparse(tokens, j)
        lines.append("let (cyc_complete, cyc) = tick.cycle::<Stream<i64, Tick<P<'a>>, Bounded, TotalOrder, ExactlyOnce>, _>();")
    elif head == "tcycp":
        # plain tick cycle over an Optional (null in the first tick)
        CYC_KIND[0] = "topt"
        nxt, j = tparse(tokens, 1)
        out, j = tparse(tokens, j)
        lines.append(f"let (cyc_complete, cyc) = tick.cycle::<{OPT_T}, _>();")
    elif head in ("tcyco", "tcycs"):
        # `Tick::cycle_with_initial(initial)`: the initial value is a term of its own (it cannot mention the cycle)
        init, j = tparse(tokens, 1)
        nxt, j = tparse(tokens, j)
        out, j = tparse(tokens, j)
        CYC_KIND[0] = None
        ei, ki, eli = temit(init)
        CYC_KIND[0] = "topt" if head == "tcyco" else "tsing"
        if ki != CYC_KIND[0] or eli != "I":
            raise Bad("initial value type")
        lines.append(f"let cyc_initial = {ei};")
        lines.append("let (cyc_complete, cyc) = tick.cycle_with_initial(cyc_initial);")
    else:
        raise Bad("not a tick program")
    if j != len(tokens):
        raise Bad("trailing")
    e, k, el = temit(out)
    if nxt is not None:
        en, kn, eln = temit(nxt)
        if kn != CYC_KIND[0] or eln != "I":
            raise Bad("cycle type")
        lines.append(f"cyc_complete.complete_next_tick({en});")
    if k == "tN":
        lines.append(f"{e}.all_ticks().assume_ordering::<TotalOrder>({OBS}).embedded_output(\"out\");")
    else:
        lines.append(f"{e}.all_ticks().embedded_output(\"out\");")
    return lines, ("tN" if k == "tN" else "tT")


HAND_C30 = """
tick map:inc b0
tick filter:even b0
tick flatmap:dup b0
tick fold:sum b0
tick fold:poly b0
tick reduce:rmax b0
tick reduce:rpoly b0
tick count b0
tick max b0
tick min b0
tick first b0
tick last b0
tick limit:2 b0
tick limit:0 b0
tick limit:3 flatmap:dup b0
tick sort b0
tick sort map:kv3 b0
tick enumerate b0
tick map:idx enumerate filter:pos b0
tick unique b0
tick scan:runsum b0
tick scan:stop b0
tick xsing b0 fold:sum b1
tick xsing b0 max b1
tick xsing b0 count b0
tick map:add2 xsing b0 filter:even fold:sum b1
tick join map:kv3 b0 map:kv3 b1
tick map:flat join map:kv3 b0 map:kv3 b1
tick join map:kv3 b0 map:kv3 b0
tick antijoin map:kv3 b0 map:fst map:kv3 b1
tick notin b0 b1
tick chain b0 b1
tick chain map:inc b0 b0
tick kfold:sum map:kv3 b0
tick kfold:poly map:kv3 b0
tick defer b0
tick defer defer b0
tick chain defer b0 b0
tick notin b0 defer b0
tick fold:sum chain defer b0 b1
tick enumerate chain defer b0 b0
tick count defer unique b0
tick across:sum b0
tick across:cnt b0
tick across:poly b0
tick across:sum filter:even b0
tick xsing b0 across:sum b1
tick tostream across:maxf b0
tcyc chain cyc b0 cyc
tcyc map:inc chain cyc b0 cyc
tcyc b0 fold:sum chain cyc b0
tcyc limit:3 chain b0 cyc sort chain cyc b1
tcyc unique chain cyc b0 notin b0 cyc
tcyc tostream fold:sum chain cyc b0 cyc
""".strip().splitlines()

# Optional / Singleton values that live across ticks: `Tick::cycle_with_initial` over an Optional (`tcyco INIT NEXT OUT`)
# whose body sometimes sends NULL to the next tick while the initial value is still non-null, the plain Optional
# cycle (`tcycp NEXT OUT`), the Singleton cycle with initial (`tcycs INIT NEXT OUT`), `Optional::defer_tick`,
# `tick.singleton` / `optional_first_tick`, `or` / `unwrap_or`
HAND_C30O = """
tick unwrapor ofirst:5 sing:123
tick or max b0 toopt sing:0
tick xsing b0 ofirst:9
tick defer max b0
tick unwrapor defer first b0 sing:-1
tick or defer max b0 first b1
tcyco filter:any sing:100 first filter:pos b0 unwrapor cyc sing:-1
tcyco filter:any sing:100 first filter:pos b0 cyc
tcyco toopt sing:7 filter:even map:inc cyc unwrapor cyc sing:-1
tcyco toopt sing:1 filter:small map:dbl cyc cyc
tcyco filter:any sing:100 max b0 tostream cyc
tcyco ofirst:5 filter:small map:inc cyc cyc
tcyco ofirst:5 first filter:pos b0 unwrapor cyc sing:-1
tcyco max b1 first b0 unwrapor cyc sing:-1
tcyco filter:any sing:3 or first filter:even b0 filter:small map:dbl cyc xsing b0 cyc
tcyco toopt count b0 filter:pos map:add2 first xsing b0 cyc unwrapor cyc sing:-7
tcyco toopt sing:2 last filter:even chain tostream cyc b0 fold:sum chain tostream cyc b1
tcycp first filter:pos b0 unwrapor cyc sing:-1
tcycp or max b0 map:inc cyc cyc
tcycp filter:even map:inc or cyc first b0 cyc
tcycp last b0 or cyc toopt sing:-5
tcycs sing:100 unwrapor first filter:pos b0 cyc cyc
tcycs sing:0 map:inc cyc cyc
tcycs count b0 fold:sum chain tostream cyc b0 cyc
tcycs sing:1 unwrapor filter:small map:dbl cyc sing:1 xsing b0 cyc
""".strip().splitlines()

HAND_C28B = """
reduceb:rmax const:3,1,4
reduceb:rpoly map:inc const:3,1,4
xsing in0 reduceb:rmax const:2,5
xsing in0 reduceb:rsum const:-
joinb map:kv3 in0 map:kv3 const:3,1,4,7
map:flat joinb map:kv3 in0 map:kv3 const:1,4
enumerate map:add2 map:flat joinb map:kv3 in0 map:kv3 const:1,4
joinb map:kv3 union in0 in1 map:kv3 const:0,3
antijoinb map:kv3 in0 const:0,2
antijoinb map:kv3 union in0 in1 const:1
notinb in0 const:1,2,3
notinb union in0 in1 const:0
fold:poly notinb in0 const:1,2,3
kfold:sum map:flat joinb map:kv3 in0 map:kv3 const:1,4
scan:runsum map:snd antijoinb map:kv3 in0 const:1
""".strip().splitlines()

HAND_C29 = """
kfold:poly map:kv3 map:inc in0
kscan:stop map:kv3 filter:pos in0
kfold:poly kscan:runsum map:kv3 map:dbl in0
kscan:runsum map:kv3 map:neg filter:small in0
kfold:maxf map:kv3 in0
enumerate scan:runsum in0
scan:stop map:dbl in0
map:idx enumerate flatmap:dup in0
""".strip().splitlines()


HAND_C29B = """
kreduce:rsum map:kv3 in0
kreduce:rpoly map:kv3 in0
kreduce:rlast map:kv3 map:inc in0
kreduce:rmax kscan:runsum map:kv3 in0
kreduce:rpoly klimit:2 map:kv3 in0
klimit:2 map:kv3 in0
klimit:1 map:kv3 in0
klimit:0 map:kv3 in0
klimit:3 kscan:runsum map:kv3 in0
kscan:runsum klimit:2 map:kv3 in0
kscan:stop klimit:3 map:kv3 filter:pos in0
kenum map:kv3 in0
map:kidx kenum map:kv3 in0
kenum klimit:2 map:kv3 filter:pos in0
kfold:poly map:kidx kenum map:kv3 in0
kfirst map:kv3 in0
kfirst kscan:runsum map:kv3 in0
kfirst filter:vodd map:kv3 in0
fold:cnt map:snd kfirst map:kv3 in0
klimit:2 map:kv3 chain const:4,1 in0
""".strip().splitlines()

# keyed streams whose values are NoOrder (merge_unordered of keyed streams)
HAND_C28N = """
kunion map:kv3 in0 map:kv3 in1
kfold:sum kunion map:kv3 in0 map:kv3 in1
kfold:maxf kunion map:kv3 in0 kscan:runsum map:kv3 in1
kfold:cnt map:vinc kunion map:kv3 in0 map:kv3 in1
kreduce:rsumc kunion map:kv3 in0 map:kv3 in1
kreduce:rmaxc filter:vodd kunion map:kv3 in0 map:kv3 in1
kfold:sum kunion kunion map:kv3 in0 map:kv3 in1 map:kv3 map:dbl in0
map:flat join kunion map:kv3 in0 map:kv3 in1 map:kv3 in0
kfold:sum kunion klimit:2 map:kv3 in0 map:kv3 in1
""".strip().splitlines()

# Stream::join of a top-level bounded stream with an unbounded one (typed Bounded by the API)
HAND_F282 = """
joinlb map:kv3 const:0,1,2 map:kv3 in0
foldb:cnt map:add2 map:flat joinlb map:kv3 const:0,1,2 map:kv3 in0
foldb:sum map:add2 map:flat joinlb map:kv3 const:0,1,5 map:kv3 in0
""".strip().splitlines()

KEYED_OPS = ("kscan", "kfold", "kreduce", "klimit", "kenum", "kfirst")


def interleave_ok(tokens):
    """per-key results must not change under key-respecting shuffles of in0: a keyed operator whose input is
    `map:kv3` over element-wise residue-class-preserving stages of in0 only"""
    if not any(t.split(":")[0] in KEYED_OPS for t in tokens):
        return False
    if any(t.split(":")[0] in ("kunion", "joinlb") for t in tokens):
        return False
    if "in1" in tokens or tokens.count("in0") != 1:
        return False
    seen_kv3 = False
    for t in tokens:
        op, _, arg = t.partition(":")
        if not seen_kv3:
            if op in KEYED_OPS or (op == "map" and arg in ("vinc", "kidx")) or (op == "filter" and arg == "vodd"):
                continue
            if op == "map" and arg == "kv3":
                seen_kv3 = True
                continue
            return False
        else:
            if op == "in0" or (op == "map" and arg in ("inc", "dbl", "neg")) or (op == "filter" and arg in ("even", "pos", "small")):
                continue
            return False
    return seen_kv3


def tags_for(toks, base):
    tags = [base]
    kind = emit(parse(toks))[1]
    ops = [t.split(":")[0] for t in toks]
    if "joinlb" in ops:
        tags.append("f282")
    if kind == "sKN" or "kunion" in ops:
        tags.append("c28n")
    elif kind in ("sT", "sK") or any(o in KEYED_OPS for o in ops):
        tags.append("c29")
    if interleave_ok(toks):
        tags.append("c29x")
    return " ".join(dict.fromkeys(tags))


def build_corpus():
    progs = []   # (tags, kind, term)
    seen = set()
    for line in HAND_C28:
        toks = line.split()
        e, k, el = emit(parse(toks))
        progs.append((tags_for(toks, "c28"), k, " ".join(toks)))
        seen.add(" ".join(toks))
    rng = random.Random(20260921)
    n = 0
    while n < 30:
        try:
            toks = rand_program(rng)
            if len(toks) > 14:
                continue
            e, k, el = emit(parse(toks))
        except Bad:
            continue
        s = " ".join(toks)
        if s in seen:
            continue
        seen.add(s)
        progs.append((tags_for(toks, "c28") + " gen", k, s))
        n += 1
    for line in HAND_C29:
        toks = line.split()
        s = " ".join(toks)
        if s in seen:
            continue
        seen.add(s)
        e, k, el = emit(parse(toks))
        progs.append((tags_for(toks, "c28"), k, s))
    for line in HAND_C30:
        toks = line.split()
        lines, k = temit_program(toks)
        progs.append(("c30", k, " ".join(toks)))
    for line in HAND_C28B + HAND_C29B + HAND_C28N + HAND_F282:
        toks = line.split()
        s = " ".join(toks)
        if s in seen:
            continue
        seen.add(s)
        e, k, el = emit(parse(toks))
        progs.append((tags_for(toks, "c28"), k, s))
    # appended last so that the existing programs keep their numbers
    for line in HAND_C30O:
        toks = line.split()
        lines, k = temit_program(toks)
        progs.append(("c30", k, " ".join(toks)))
    return progs


def render(progs):
    out = ["// GENERATED by gen_programs.py — do not edit.",
           "#![allow(unused_variables, clippy::all)]",
           "use hydro_lang::prelude::*;",
           "use hydro_lang::live_collections::stream::{ExactlyOnce, TotalOrder};",
           "",
           "type P<'a> = Process<'a, ()>;",
           ""]
    lst = ["// GENERATED by gen_programs.py — do not edit."]
    tab = []
    bld = ["// GENERATED by gen_programs.py — do not edit.", "fn generate_all(out_dir: &str) {"]
    for i, (tags, kind, term) in enumerate(progs):
        name = f"p{i:03d}"
        out.append(f"/// `{term}` : {kind}")
        out.append(f"pub fn {name}<'a>(in0: Stream<i64, P<'a>>, in1: Stream<i64, P<'a>>) {{")
        out.append("    let p = in0.location().clone();")
        out.append("    let tick = p.tick();")
        if term.split()[0] in ("tick", "tcyc", "tcyco", "tcycp", "tcycs"):
            lines, k = temit_program(term.split())
            assert k == kind
            out += ["    " + l for l in lines]
        else:
            expr, k, el = emit(parse(term.split()))
            assert k == kind
            out.append("    " + finish(expr, kind))
        out.append("}")
        out.append("")
        lst.append(f'prog!({name});')
        tab.append(f'        Entry {{ name: "{name}", tags: "{tags}", kind: "{kind}", term: "{term}", run: {name}::run }},')
        bld.append(f"    gen_prog!(out_dir, {name});")
    lst.append("")
    lst.append("pub fn table() -> Vec<Entry> {")
    lst.append("    vec![")
    lst += tab
    lst.append("    ]")
    lst.append("}")
    bld.append("}")
    return "\n".join(out) + "\n", "\n".join(lst) + "\n", "\n".join(bld) + "\n"


def main():
    progs = build_corpus()
    rs, lst, bld = render(progs)
    targets = [(os.path.join(HERE, "flows", "src", "progs.rs"), rs), (os.path.join(HERE, "progs", "src", "proglist.rs"), lst),
               (os.path.join(HERE, "progs", "src", "buildlist.rs"), bld)]
    if "--check" in sys.argv:
        bad = [p for p, c in targets if not os.path.exists(p) or open(p).read() != c]
        if bad:
            print("STALE: " + ", ".join(bad))
            sys.exit(1)
        print(f"ok: {len(progs)} programs")
        return
    for p, c in targets:
        if not os.path.exists(p) or open(p).read() != c:
            open(p, "w").write(c)
    print(f"wrote {len(progs)} programs")


if __name__ == "__main__":
    main()
