//! hv_hydro — harness for C28 / C29 / C30.
//!
//! Every program of the corpus (`progs/src/proglist.rs`, generated from terms by `gen_programs.py`) is
//! compiled by `progs/build.rs` through the production code generator (`FlowBuilder … generate_embedded`)
//! and `include!`d in the `hv_hydro_progs` lib crate (so editing this file does not recompile them).  A case = (program, inputs, one partition of the inputs into ticks); the compiled DFIR is run in
//! process, tick by tick (`Dfir::run_tick_sync`), and its per-tick and final outputs are recorded
//!   * as op lines for the Lean model driver (`prog <term>` / `tick a,b|c` / `final`),
//!   * against the property oracle: the final output must equal the reference computed on the whole inputs
//!     by `refint` (plain Rust iterators), and all partitions of the same inputs must agree.
use std::collections::VecDeque;

use hv_common::{Args, Recorder, Rng, read_lines};
use hv_hydro_progs::{Entry, Ticks, table};

mod refint;

/// program tags that are compiled but not (yet) part of the generated case stream
const DISABLED_TAGS: &[&str] = &[];

/// oracle-signature suffix: the root operator, plus the operator the finding is about when present
fn sig_site(term: &str) -> String {
    let toks: Vec<&str> = term.split(' ').collect();
    let is_tick = refint::is_tick_head(toks[0]);
    if matches!(toks[0], "tcyco" | "tcycp" | "tcycs") {
        // Optional / Singleton tick cycles: the site is the kind of cycle
        return toks[0].to_string();
    }
    let root = toks[if is_tick { 1 } else { 0 }].split(':').next().unwrap().to_string();
    if toks.iter().any(|t| *t == "joinlb") { format!("{root}+joinlb") } else { root }
}

fn show_ints(v: &[i64]) -> String {
    if v.is_empty() { "-".into() } else { v.iter().map(|x| x.to_string()).collect::<Vec<_>>().join(",") }
}
fn parse_ints(s: &str) -> Option<Vec<i64>> {
    if s == "-" { Some(vec![]) } else { s.split(',').map(|p| p.parse().ok()).collect() }
}

fn final_of(kind: &str, outs: &[Vec<String>]) -> Vec<String> {
    match kind {
        "sing" | "opt" | "ksing" => outs.last().cloned().unwrap_or_default(),
        _ => outs.iter().flatten().cloned().collect(),
    }
}

/// split `xs` into `t` consecutive (possibly empty) parts at random cut points
fn weak_split(rng: &mut Rng, xs: &[i64], t: usize) -> Vec<Vec<i64>> {
    let mut cuts: Vec<usize> = (0..t.saturating_sub(1)).map(|_| rng.below(xs.len() as u64 + 1) as usize).collect();
    cuts.sort();
    let mut out = vec![];
    let mut prev = 0;
    for c in cuts {
        out.push(xs[prev..c].to_vec());
        prev = c;
    }
    out.push(xs[prev..].to_vec());
    out
}

/// all compositions of `xs` into consecutive non-empty parts (2^(n-1) of them; `[[]]` for the empty list)
fn compositions(xs: &[i64]) -> Vec<Vec<Vec<i64>>> {
    if xs.is_empty() {
        return vec![vec![vec![]]];
    }
    let n = xs.len();
    let mut res = vec![];
    for mask in 0..(1u32 << (n - 1)) {
        let mut parts = vec![];
        let mut cur = vec![xs[0]];
        for i in 1..n {
            if mask & (1 << (i - 1)) != 0 {
                parts.push(std::mem::take(&mut cur));
            }
            cur.push(xs[i]);
        }
        parts.push(cur);
        res.push(parts);
    }
    res
}

struct Runner<'a> {
    rec: &'a mut Recorder,
    mode: String,
}

impl Runner<'_> {
    /// run one case; returns the canonical final output
    fn case(&mut self, n: u64, e: &Entry, ticks: &Ticks, whole: &[Vec<i64>; 2], tag: &str) -> String {
        self.rec.case(n, &format!("prog={} {}", e.name, tag));
        self.rec.line(&format!("prog {}", e.term), &format!("ok {}", e.kind));
        let outs = (e.run)(ticks, false).outs;
        let mut shown = vec![];
        for (i, (a, b)) in ticks.iter().enumerate() {
            let o = refint::show_batch(&refint::canon(e.kind, outs[i].clone()));
            self.rec.line(&format!("tick {}|{}", show_ints(a), show_ints(b)), &o);
            shown.push(o);
        }
        let fin = refint::show_batch(&refint::canon(e.kind, final_of(e.kind, &outs)));
        self.rec.line("final", &fin);
        let toks: Vec<&str> = e.term.split(' ').collect();
        let is_tick = refint::is_tick_head(toks[0]);
        let root = sig_site(e.term);
        if is_tick {
            // property oracle (C30): every tick's output = the list function of that tick's batch(es)
            // (previous tick for defer/cycle), computed by plain Rust iterators
            let tp = refint::parse_tick_prog(&toks).expect("tick term");
            for i in 0..ticks.len() {
                let want = refint::eval_tick(&tp, &tp.out, &ticks[..=i]).iter().map(|v| v.show()).collect::<Vec<_>>();
                let want = refint::show_batch(&refint::canon(e.kind, want));
                self.rec.check(
                    shown[i] == want,
                    &format!("{}-tick-vs-reference@{}", self.mode, root),
                    &format!("prog={} term=`{}` ticks={:?} tick#{} got={} want={}", e.name, e.term, ticks, i, shown[i], want),
                );
            }
            // tick state does not leak: a collection that does not look back gives, in tick i of a long
            // run, exactly what a fresh instance gives when it sees only that tick (real code vs real code)
            if tp.next.is_none() && refint::tick_stateless(&tp.out) && ticks.len() >= 2 {
                for i in 0..ticks.len() {
                    let alone = (e.run)(&vec![ticks[i].clone()], false).outs;
                    let alone = refint::show_batch(&refint::canon(e.kind, alone[0].clone()));
                    self.rec.check(
                        shown[i] == alone,
                        &format!("{}-state-leak@{}", self.mode, root),
                        &format!("prog={} term=`{}` ticks={:?} tick#{} in-run={} alone={}", e.name, e.term, ticks, i, shown[i], alone),
                    );
                }
            }
            // lazy scheduling of defer_tick_lazy (DeferTick / tick cycles): when the runtime's own scheduler
            // (`run_available_sync`) is used instead of explicit ticks, data waiting in a lazily deferred
            // handoff must not start a tick by itself — exactly one tick per feeding step — and it is
            // delivered in the next tick that runs, so the per-step outputs are those of explicit ticks
            if !ticks.is_empty() {
                let av = (e.run)(ticks, true);
                let one_each = av.tick_after.iter().enumerate().all(|(i, t)| *t == i as u64 + 1);
                self.rec.check(
                    one_each,
                    &format!("{}-deferred-data-scheduled-a-tick@{}", self.mode, root),
                    &format!("prog={} term=`{}` ticks={:?} tick counter after each run_available={:?}", e.name, e.term, ticks, av.tick_after),
                );
                let av_shown: Vec<String> =
                    av.outs.iter().map(|o| refint::show_batch(&refint::canon(e.kind, o.clone()))).collect();
                self.rec.check(
                    av_shown == shown,
                    &format!("{}-run-available-vs-explicit-ticks@{}", self.mode, root),
                    &format!("prog={} term=`{}` ticks={:?} run_available={:?} run_tick={:?}", e.name, e.term, ticks, av_shown, shown),
                );
                if e.term.contains("defer") || e.term.starts_with("tcyc") {
                    self.rec.count("sched:run_available-with-pending-deferred");
                }
            }
            // input distribution of the cycles with an initial value: a tick (not the last one) that sends NULL to
            // the next tick while the initial collection of the next tick is non-null (the state must stay null)
            if let (Some(init), Some(next)) = (&tp.init, &tp.next) {
                self.rec.count(&format!("cyc:{}", toks[0]));
                let mut null_sent = false;
                for k in 0..ticks.len().saturating_sub(1) {
                    if refint::eval_tick(&tp, next, &ticks[..=k]).is_empty() {
                        null_sent = true;
                        if !refint::eval_tick(&tp, init, &ticks[..=k + 1]).is_empty() {
                            self.rec.count("cyc:null-sent-while-initial-non-null");
                            break;
                        }
                    }
                }
                if null_sent {
                    self.rec.count("cyc:null-sent-to-next-tick");
                }
            }
        } else {
            // property oracle (C28/C29): final output = meaning on the whole inputs (plain Rust iterators)
            let t = refint::parse(&toks).expect("term");
            let reference = refint::eval(&t, whole).iter().map(|v| v.show()).collect::<Vec<_>>();
            let reference = refint::show_batch(&refint::canon(e.kind, reference));
            if !ticks.is_empty() {
                self.rec.check(
                    fin == reference,
                    &format!("{}-final-vs-reference@{}", self.mode, root),
                    &format!("prog={} term=`{}` ticks={:?} got={} want={}", e.name, e.term, ticks, fin, reference),
                );
            }
        }
        // input-distribution histogram: the partition shapes / input features the anchored branches need
        if ticks.iter().any(|(a, b)| a.is_empty() && b.is_empty()) {
            self.rec.count("part:has-empty-tick");
        }
        if ticks.len() >= 2 && ticks[0].0.is_empty() && ticks[0].1.is_empty() {
            self.rec.count("part:first-tick-empty");
        }
        if ticks.len() >= 2 && ticks.last().is_some_and(|(a, b)| a.is_empty() && b.is_empty()) {
            self.rec.count("part:last-tick-empty");
        }
        {
            // a key (residue mod 3) of in0 whose items are spread over several ticks
            let mut seen_in: [Option<usize>; 3] = [None; 3];
            let mut split = false;
            for (i, (a, _)) in ticks.iter().enumerate() {
                for x in a {
                    let c = x.rem_euclid(3) as usize;
                    if seen_in[c].is_some_and(|j| j != i) {
                        split = true;
                    }
                    seen_in[c] = Some(i);
                }
            }
            if split {
                self.rec.count("part:key-split-across-ticks");
            }
            let mut all: Vec<i64> = whole[0].clone();
            all.sort();
            if all.windows(2).any(|w| w[0] == w[1]) {
                self.rec.count("in0:has-duplicates");
            }
            if ticks.iter().filter(|(a, _)| !a.is_empty()).count() >= 2 && ticks.iter().filter(|(_, b)| !b.is_empty()).count() >= 1 {
                self.rec.count("part:both-ports-over-several-ticks");
            }
        }
        for op in ["kreduce", "klimit", "kenum", "kfirst", "kunion", "joinlb", "kscan", "kfold", "join", "joinb", "xsing", "defer", "cyc", "across", "or", "unwrapor", "sing", "ofirst"] {
            if toks.iter().any(|t| t.split(':').next() == Some(op)) {
                self.rec.count(&format!("op:{op}"));
            }
        }
        self.rec.count(&format!("root:{}", root));
        self.rec.count(&format!("kind:{}", e.kind));
        self.rec.count(&format!("ticks:{}", ticks.len().min(7)));
        if ticks.len() >= 2 && fin != "-" {
            self.rec.nontrivial();
        }
        fin
    }
}

/// a random interleaving of the residue classes (mod 3) of `xs` that keeps each class's own order
fn key_respecting_shuffle(rng: &mut Rng, xs: &[i64]) -> Vec<i64> {
    let mut classes: Vec<VecDeque<i64>> = vec![VecDeque::new(); 3];
    for x in xs {
        classes[x.rem_euclid(3) as usize].push_back(*x);
    }
    let mut out = vec![];
    loop {
        let live: Vec<usize> = (0..3).filter(|c| !classes[*c].is_empty()).collect();
        if live.is_empty() {
            break;
        }
        let c = *rng.pick(&live);
        out.push(classes[c].pop_front().unwrap());
    }
    out
}

fn gen_input(rng: &mut Rng, max0: u64, max1: u64) -> [Vec<i64>; 2] {
    let n0 = rng.below(max0 + 1);
    let n1 = rng.below(max1 + 1);
    let lo = -3i64;
    let span = if rng.chance(1, 2) { 6 } else { 13 };
    let a = (0..n0).map(|_| lo + rng.below(span) as i64).collect();
    let b = (0..n1).map(|_| lo + rng.below(span) as i64).collect();
    [a, b]
}

fn zip_ticks(a: Vec<Vec<i64>>, b: Vec<Vec<i64>>) -> Ticks {
    a.into_iter().zip(b).collect()
}

fn main() {
    let args = Args::parse();
    let mode = args.mode.clone();
    let tab = table();
    let mut rec = Recorder::new("a case is non-trivial when it has >= 2 ticks and a non-empty final output");
    let progs: Vec<&Entry> = tab
        .iter()
        .filter(|e| e.tags.split(' ').any(|t| t == mode))
        .filter(|e| args.replay.is_some() || !e.tags.split(' ').any(|t| DISABLED_TAGS.contains(&t)))
        .collect();
    if progs.is_empty() {
        eprintln!("no programs for mode {mode}");
        std::process::exit(2);
    }
    let mut run = Runner { rec: &mut rec, mode: mode.clone() };

    if let Some(rp) = &args.replay {
        // replay: `#case`, `prog <term>`, `tick a|b`…, `final`
        let lines = read_lines(rp);
        let mut i = 0;
        let mut case_no = 0u64;
        while i < lines.len() {
            let mut j = i + 1;
            while j < lines.len() && !lines[j].starts_with("#case") {
                j += 1;
            }
            let body: Vec<&String> = lines[i..j].iter().filter(|l| !l.starts_with("#case")).collect();
            case_no += 1;
            let term = body.iter().find_map(|l| l.strip_prefix("prog "));
            let entry = term.and_then(|t| tab.iter().find(|e| e.term == t));
            let mut ticks: Ticks = vec![];
            let mut ok = entry.is_some();
            for l in &body {
                if let Some(t) = l.strip_prefix("tick ") {
                    let mut it = t.split('|');
                    match (it.next().and_then(parse_ints), it.next().and_then(parse_ints)) {
                        (Some(a), Some(b)) => ticks.push((a, b)),
                        _ => ok = false,
                    }
                } else if !(l.starts_with("prog ") || l.as_str() == "final") {
                    ok = false;
                }
            }
            if let (true, Some(e)) = (ok, entry) {
                let whole = [
                    ticks.iter().flat_map(|t| t.0.clone()).collect::<Vec<_>>(),
                    ticks.iter().flat_map(|t| t.1.clone()).collect::<Vec<_>>(),
                ];
                run.case(case_no, e, &ticks, &whole, "replay");
            } else {
                run.rec.case(case_no, "replay-malformed");
                for l in &body {
                    run.rec.line(l, "bad-op");
                }
            }
            i = j;
        }
        rec.finish(&args.out);
        return;
    }

    let thorough = args.tier == "thorough";
    let base = Rng::new(args.seed);
    let mut case_no = 0u64;
    let mut group = 0u64;
    while case_no < args.cases {
        let e = progs[(group as usize) % progs.len()];
        let mut rng = base.fork(group);
        group += 1;
        // small scope mostly, a larger input now and then
        let big = rng.chance(1, 6);
        let whole = if big { gen_input(&mut rng, 14, 10) } else { gen_input(&mut rng, 6, 4) };
        let mut parts: Vec<(Ticks, String)> = vec![];
        // the unpartitioned reference run: everything in one tick
        parts.push((vec![(whole[0].clone(), whole[1].clone())], "part=one".into()));
        if !big {
            let comps = compositions(&whole[0]);
            let chosen: Vec<Vec<Vec<i64>>> = if thorough {
                comps
            } else {
                let k = 4.min(comps.len());
                (0..k).map(|_| comps[rng.below(comps.len() as u64) as usize].clone()).collect()
            };
            for c in chosen {
                let t = c.len();
                let b = weak_split(&mut rng, &whole[1], t);
                parts.push((zip_ticks(c, b), "part=comp".into()));
            }
        }
        // values that live across ticks (defer_tick, tick cycles with / without an initial value): longer runs
        // (3..=7 ticks), so that a value sent in tick k is looked at in tick k+1 AND its absence in tick k+2
        if mode == "c30" && (e.term.starts_with("tcyc") || e.term.contains("defer") || e.term.contains("ofirst")) {
            for _ in 0..(if thorough { 4 } else { 2 }) {
                let t = 3 + rng.below(5) as usize;
                let a = weak_split(&mut rng, &whole[0], t);
                let b = weak_split(&mut rng, &whole[1], t);
                parts.push((zip_ticks(a, b), "part=long".into()));
            }
        }
        // random weak compositions with empty ticks in between
        let extra = if thorough { 6 } else { 3 };
        for _ in 0..extra {
            let t = 1 + rng.below(if big { 8 } else { 5 }) as usize;
            let a = weak_split(&mut rng, &whole[0], t);
            let b = weak_split(&mut rng, &whole[1], t);
            parts.push((zip_ticks(a, b), "part=weak".into()));
        }
        // C29: other interleavings of different keys (each key's own order kept) must give the same per-key results
        let mut shuffled: Vec<(Ticks, [Vec<i64>; 2])> = vec![];
        if mode == "c29" && e.tags.split(' ').any(|t| t == "c29x") {
            for _ in 0..(if thorough { 4 } else { 2 }) {
                let w2 = [key_respecting_shuffle(&mut rng, &whole[0]), whole[1].clone()];
                let t = 1 + rng.below(4) as usize;
                let a = weak_split(&mut rng, &w2[0], t);
                let b = weak_split(&mut rng, &w2[1], t);
                shuffled.push((zip_ticks(a, b), w2));
            }
        }
        let mut first: Option<String> = None;
        for (ticks, tag) in parts {
            case_no += 1;
            let fin = run.case(case_no, e, &ticks, &whole, &tag);
            match &first {
                None => first = Some(fin),
                Some(f0) => {
                    let root = sig_site(e.term);
                    if mode != "c30" {
                        run.rec.check(
                            *f0 == fin,
                            &format!("{}-partition-dependent@{}", mode, root),
                            &format!("prog={} term=`{}` ticks={:?} got={} one-tick-run={}", e.name, e.term, ticks, fin, f0),
                        );
                    }
                }
            }
        }
        for (ticks, w2) in shuffled {
            case_no += 1;
            let fin = run.case(case_no, e, &ticks, &w2, "part=interleave");
            let root = sig_site(e.term);
            run.rec.check(
                first.as_deref() == Some(fin.as_str()),
                &format!("{}-cross-key-interleaving@{}", mode, root),
                &format!("prog={} term=`{}` in0={:?} shuffled={:?} got={} original={:?}", e.name, e.term, whole[0], w2[0], fin, first),
            );
        }
    }
    // a small malformed stream: the model driver must reject what the harness rejects
    case_no += 1;
    run.rec.case(case_no, "malformed");
    run.rec.line("prog enumerate union in0 in1", "bad-op");
    run.rec.line("tick 1|2", "bad-op");
    run.rec.line("prog frobnicate in0", "bad-op");
    run.rec.line("final", "bad-op");
    rec.finish(&args.out);
}
