//! Reference interpreter of program terms over the WHOLE (unpartitioned) inputs, written with plain Rust
//! iterators / std collections — the independent oracle of the property checks (it knows nothing about
//! ticks, DFIR or the Lean model).

use std::collections::{BTreeMap, HashSet};

#[derive(Clone, Debug, PartialEq, Eq, Hash, PartialOrd, Ord)]
pub enum V {
    I(i64),
    P(Box<V>, Box<V>),
}
impl V {
    pub fn p(a: V, b: V) -> V {
        V::P(Box::new(a), Box::new(b))
    }
    pub fn show(&self) -> String {
        match self {
            V::I(i) => format!("{i}"),
            V::P(a, b) => format!("({}, {})", a.show(), b.show()),
        }
    }
    fn int(&self) -> i64 {
        match self {
            V::I(i) => *i,
            _ => panic!("int expected"),
        }
    }
    fn pair(&self) -> (&V, &V) {
        match self {
            V::P(a, b) => (a, b),
            _ => panic!("pair expected"),
        }
    }
}

#[derive(Clone, Debug)]
pub struct T {
    pub op: String,
    pub arg: String,
    pub kids: Vec<T>,
}

pub fn arity(op: &str) -> Option<usize> {
    Some(match op {
        "in0" | "in1" | "const" => 0,
        "union" | "chain" | "join" | "xsing" | "antijoin" | "notin" | "joinb" | "antijoinb" | "notinb" => 2,
        "kunion" | "joinlb" => 2,
        "reduceb" | "kreduce" | "klimit" | "kenum" | "kfirst" => 1,
        "b0" | "b1" | "cyc" | "sing" | "ofirst" => 0,
        "toopt" => 1,
        "or" | "unwrapor" => 2,
        "sort" | "limit" | "count" | "max" | "min" | "first" | "last" | "tostream" | "defer" | "across" => 1,
        "map" | "filter" | "flatmap" | "filtermap" | "enumerate" | "scan" | "unique" | "kscan" | "fold" | "reduce"
        | "kfold" | "foldb" | "smap" | "sfilter" => 1,
        _ => return None,
    })
}

pub fn parse(tokens: &[&str]) -> Option<T> {
    fn go(tokens: &[&str], i: usize) -> Option<(T, usize)> {
        let w = tokens.get(i)?;
        let (op, arg) = match w.split_once(':') {
            Some((a, b)) => (a, b),
            None => (*w, ""),
        };
        let n = arity(op)?;
        let mut kids = vec![];
        let mut j = i + 1;
        for _ in 0..n {
            let (k, j2) = go(tokens, j)?;
            kids.push(k);
            j = j2;
        }
        Some((T { op: op.into(), arg: arg.into(), kids }, j))
    }
    let (t, j) = go(tokens, 0)?;
    if j == tokens.len() { Some(t) } else { None }
}

fn mapf(code: &str, v: &V) -> V {
    match code {
        "inc" => V::I(v.int() + 1),
        "dbl" => V::I(v.int() * 2),
        "neg" => V::I(-v.int()),
        "kv3" => V::p(V::I(v.int().rem_euclid(3)), v.clone()),
        "swap" => {
            let (a, b) = v.pair();
            V::p(b.clone(), a.clone())
        }
        "fst" => v.pair().0.clone(),
        "snd" => v.pair().1.clone(),
        "add2" => V::I(v.pair().0.int() + v.pair().1.int()),
        "vinc" => V::p(v.pair().0.clone(), V::I(v.pair().1.int() + 1)),
        "flat" => {
            let (k, ab) = v.pair();
            V::p(k.clone(), V::I(ab.pair().0.int() * 100 + ab.pair().1.int()))
        }
        "idx" => {
            let (i, x) = v.pair();
            V::p(x.clone(), i.clone())
        }
        "kidx" => {
            let (k, iv) = v.pair();
            V::p(k.clone(), V::I(iv.pair().1.int() * 100 + iv.pair().0.int()))
        }
        _ => panic!("map code {code}"),
    }
}
fn predf(code: &str, v: &V) -> bool {
    match code {
        "even" => v.int() % 2 == 0,
        "pos" => v.int() > 0,
        "small" => v.int() < 5,
        "any" => true,
        "keven" => v.pair().0.int() % 2 == 0,
        "vodd" => v.pair().1.int() % 2 != 0,
        _ => panic!("pred code {code}"),
    }
}
fn flatf(code: &str, v: &V) -> Vec<V> {
    match code {
        "dup" => vec![v.clone(), V::I(v.int() + 10)],
        "rep" => std::iter::repeat_n(v.clone(), v.int().rem_euclid(3) as usize).collect(),
        _ => panic!("flat code {code}"),
    }
}
fn optf(code: &str, v: &V) -> Option<V> {
    match code {
        "half" => (v.int() % 2 == 0).then(|| V::I(v.int() / 2)),
        _ => panic!("opt code {code}"),
    }
}
/// scan closure: returns the emitted value, `None` = stop
fn scanf(code: &str, acc: &mut i64, x: i64) -> Option<i64> {
    match code {
        "runsum" => {
            *acc += x;
            Some(*acc)
        }
        "stop" => {
            if *acc + x > 12 {
                None
            } else {
                *acc += x;
                Some(*acc)
            }
        }
        _ => panic!("scan code {code}"),
    }
}
fn fold_init(code: &str) -> i64 {
    if code == "maxf" { -100 } else { 0 }
}
fn foldf(code: &str, acc: i64, x: i64) -> i64 {
    match code {
        "sum" => acc + x,
        "cnt" => acc + 1,
        "poly" => acc * 3 + x,
        "maxf" => acc.max(x),
        _ => panic!("fold code {code}"),
    }
}
fn redf(code: &str, acc: i64, x: i64) -> i64 {
    match code {
        "rsum" | "rsumc" => acc + x,
        "rmax" | "rmaxc" => acc.max(x),
        "rmin" => acc.min(x),
        "rlast" => x,
        "rpoly" => acc * 3 + x,
        _ => panic!("reduce code {code}"),
    }
}

/// meaning of a term on whole inputs; collections are `Vec<V>` (a singleton is a 1-element vec, an
/// optional 0 or 1, a keyed singleton its entries in key order)
pub fn eval(t: &T, ins: &[Vec<i64>; 2]) -> Vec<V> {
    let kid = |i: usize| eval(&t.kids[i], ins);
    match t.op.as_str() {
        "in0" => ins[0].iter().map(|x| V::I(*x)).collect(),
        "in1" => ins[1].iter().map(|x| V::I(*x)).collect(),
        "const" => {
            if t.arg == "-" {
                vec![]
            } else {
                t.arg.split(',').map(|s| V::I(s.parse().unwrap())).collect()
            }
        }
        "map" | "smap" => kid(0).iter().map(|v| mapf(&t.arg, v)).collect(),
        "filter" | "sfilter" => kid(0).into_iter().filter(|v| predf(&t.arg, v)).collect(),
        "flatmap" => kid(0).iter().flat_map(|v| flatf(&t.arg, v)).collect(),
        "filtermap" => kid(0).iter().filter_map(|v| optf(&t.arg, v)).collect(),
        "enumerate" => kid(0).into_iter().enumerate().map(|(i, v)| V::p(V::I(i as i64), v)).collect(),
        "scan" => {
            let mut acc = 0i64;
            kid(0).iter().map_while(|v| scanf(&t.arg, &mut acc, v.int())).map(V::I).collect()
        }
        "unique" => {
            let mut seen = HashSet::new();
            kid(0).into_iter().filter(|v| seen.insert(v.clone())).collect()
        }
        "kscan" => {
            // per key: an independent scan over that key's values, results kept in arrival order
            let mut st: BTreeMap<V, Option<i64>> = BTreeMap::new();
            let mut out = vec![];
            for v in kid(0) {
                let (k, x) = v.pair();
                let e = st.entry(k.clone()).or_insert(Some(0));
                if let Some(acc) = e {
                    match scanf(&t.arg, acc, x.int()) {
                        Some(u) => out.push(V::p(k.clone(), V::I(u))),
                        None => *e = None,
                    }
                }
            }
            out
        }
        "union" | "chain" | "kunion" => kid(0).into_iter().chain(kid(1)).collect(),
        "kreduce" => {
            // per key: reduce of that key's values in arrival order
            let mut groups: BTreeMap<V, Vec<i64>> = BTreeMap::new();
            for v in kid(0) {
                groups.entry(v.pair().0.clone()).or_default().push(v.pair().1.int());
            }
            groups
                .into_iter()
                .map(|(k, vs)| V::p(k, V::I(vs.into_iter().reduce(|a, x| redf(&t.arg, a, x)).unwrap())))
                .collect()
        }
        "klimit" => {
            // per key: the first n values, everything kept in arrival order
            let n: usize = t.arg.parse().unwrap();
            let mut cnt: BTreeMap<V, usize> = BTreeMap::new();
            kid(0)
                .into_iter()
                .filter(|v| {
                    let c = cnt.entry(v.pair().0.clone()).or_insert(0);
                    *c += 1;
                    *c <= n
                })
                .collect()
        }
        "kenum" => {
            // per key: index within the key's own subsequence
            let mut cnt: BTreeMap<V, i64> = BTreeMap::new();
            kid(0)
                .into_iter()
                .map(|v| {
                    let c = cnt.entry(v.pair().0.clone()).or_insert(0);
                    let i = *c;
                    *c += 1;
                    V::p(v.pair().0.clone(), V::p(V::I(i), v.pair().1.clone()))
                })
                .collect()
        }
        "kfirst" => {
            // per key: the first value
            let mut seen: HashSet<V> = HashSet::new();
            kid(0).into_iter().filter(|v| seen.insert(v.pair().0.clone())).collect()
        }
        "join" | "joinb" | "joinlb" => {
            let (l, r) = (kid(0), kid(1));
            let mut out = vec![];
            for x in &l {
                for y in &r {
                    if x.pair().0 == y.pair().0 {
                        out.push(V::p(x.pair().0.clone(), V::p(x.pair().1.clone(), y.pair().1.clone())));
                    }
                }
            }
            out
        }
        "fold" | "foldb" => vec![V::I(kid(0).iter().fold(fold_init(&t.arg), |a, v| foldf(&t.arg, a, v.int())))],
        "reduce" | "reduceb" => {
            kid(0).iter().map(|v| v.int()).reduce(|a, x| redf(&t.arg, a, x)).map(V::I).into_iter().collect()
        }
        "kfold" => {
            let mut m: BTreeMap<V, i64> = BTreeMap::new();
            for v in kid(0) {
                let (k, x) = v.pair();
                let e = m.entry(k.clone()).or_insert(fold_init(&t.arg));
                *e = foldf(&t.arg, *e, x.int());
            }
            m.into_iter().map(|(k, a)| V::p(k, V::I(a))).collect()
        }
        "xsing" => match kid(1).first() {
            Some(s) => kid(0).into_iter().map(|v| V::p(v, s.clone())).collect(),
            None => vec![],
        },
        "antijoinb" => {
            let neg: HashSet<V> = kid(1).into_iter().collect();
            kid(0).into_iter().filter(|v| !neg.contains(v.pair().0)).collect()
        }
        "notinb" => {
            let neg: HashSet<V> = kid(1).into_iter().collect();
            kid(0).into_iter().filter(|v| !neg.contains(v)).collect()
        }
        other => panic!("op {other}"),
    }
}

/// A tick-level program: its head (`tick` no cycle, `tcyc` stream cycle, `tcycp` plain Optional cycle, `tcyco` /
/// `tcycs` Optional / Singleton cycle created with `cycle_with_initial`), the initial value (if any), what goes to
/// `complete_next_tick` (if any) and the observed collection.
pub struct TickProg {
    pub head: String,
    pub init: Option<T>,
    pub next: Option<T>,
    pub out: T,
}

/// split `tokens` into exactly `n` consecutive complete terms
fn parse_seq(tokens: &[&str], n: usize) -> Option<Vec<T>> {
    if n == 0 {
        return if tokens.is_empty() { Some(vec![]) } else { None };
    }
    for cut in 1..=tokens.len() {
        if let Some(first) = parse(&tokens[..cut]) {
            if let Some(mut rest) = parse_seq(&tokens[cut..], n - 1) {
                rest.insert(0, first);
                return Some(rest);
            }
        }
    }
    None
}

pub fn is_tick_head(w: &str) -> bool {
    matches!(w, "tick" | "tcyc" | "tcycp" | "tcyco" | "tcycs")
}

pub fn parse_tick_prog(tokens: &[&str]) -> Option<TickProg> {
    let head = tokens.first()?.to_string();
    let n = match head.as_str() {
        "tick" => 1,
        "tcyc" | "tcycp" => 2,
        "tcyco" | "tcycs" => 3,
        _ => return None,
    };
    let mut ts = parse_seq(&tokens[1..], n)?;
    let out = ts.pop()?;
    let next = ts.pop();
    let init = ts.pop();
    Some(TickProg { head, init, next, out })
}

/// content of the tick-scoped collection `t` in the LAST tick of `hist` — plain iterators over the tick's
/// batch; `defer`/`cyc` look at the previous tick, `across` at all ticks so far
pub fn eval_tick(p: &TickProg, t: &T, hist: &[(Vec<i64>, Vec<i64>)]) -> Vec<V> {
    let kid = |i: usize| eval_tick(p, &t.kids[i], hist);
    let now = hist.last();
    match t.op.as_str() {
        "b0" => now.map(|n| n.0.iter().map(|x| V::I(*x)).collect()).unwrap_or_default(),
        "b1" => now.map(|n| n.1.iter().map(|x| V::I(*x)).collect()).unwrap_or_default(),
        // the value read from a tick cycle: EXACTLY what the previous tick passed to `complete_next_tick`
        // (possibly nothing / null); in the first tick nothing, or the initial value of `cycle_with_initial` —
        // which is looked at in the first tick ONLY
        "cyc" => match (&p.next, hist.len()) {
            (Some(n), l) if l >= 2 => {
                let sent = eval_tick(p, n, &hist[..l - 1]);
                match p.head.as_str() {
                    "tcyc" => sent,
                    _ => sent.into_iter().next().into_iter().collect(), // an Optional / Singleton: at most one value
                }
            }
            (Some(_), 1) => match &p.init {
                Some(init) => eval_tick(p, init, hist).into_iter().next().into_iter().collect(),
                None => vec![],
            },
            _ => vec![],
        },
        "sing" => vec![V::I(t.arg.parse().unwrap())], // tick.singleton(v): v in every tick
        "ofirst" => {
            // tick.optional_first_tick(v): v in the first tick, null afterwards
            if hist.len() == 1 { vec![V::I(t.arg.parse().unwrap())] } else { vec![] }
        }
        "toopt" => kid(0),
        "or" | "unwrapor" => {
            let a: Option<V> = kid(0).into_iter().next();
            let b: Option<V> = kid(1).into_iter().next();
            a.or(b).into_iter().collect()
        }
        "defer" => {
            if hist.len() >= 2 {
                eval_tick(p, &t.kids[0], &hist[..hist.len() - 1])
            } else {
                vec![]
            }
        }
        "across" => {
            let mut acc = fold_init(&t.arg);
            for n in 1..=hist.len() {
                for v in eval_tick(p, &t.kids[0], &hist[..n]) {
                    acc = foldf(&t.arg, acc, v.int());
                }
            }
            vec![V::I(acc)]
        }
        "map" => kid(0).iter().map(|v| mapf(&t.arg, v)).collect(),
        "filter" => kid(0).into_iter().filter(|v| predf(&t.arg, v)).collect(),
        "flatmap" => kid(0).iter().flat_map(|v| flatf(&t.arg, v)).collect(),
        "filtermap" => kid(0).iter().filter_map(|v| optf(&t.arg, v)).collect(),
        "enumerate" => kid(0).into_iter().enumerate().map(|(i, v)| V::p(V::I(i as i64), v)).collect(),
        "unique" => {
            let mut seen = HashSet::new();
            kid(0).into_iter().filter(|v| seen.insert(v.clone())).collect()
        }
        "sort" => {
            let mut v = kid(0);
            v.sort();
            v
        }
        "scan" => {
            let mut acc = 0i64;
            kid(0).iter().map_while(|v| scanf(&t.arg, &mut acc, v.int())).map(V::I).collect()
        }
        "limit" => kid(0).into_iter().take(t.arg.parse().unwrap()).collect(),
        "fold" => vec![V::I(kid(0).iter().fold(fold_init(&t.arg), |a, v| foldf(&t.arg, a, v.int())))],
        "reduce" => kid(0).iter().map(|v| v.int()).reduce(|a, x| redf(&t.arg, a, x)).map(V::I).into_iter().collect(),
        "count" => vec![V::I(kid(0).len() as i64)],
        "max" => kid(0).into_iter().max().into_iter().collect(),
        "min" => kid(0).into_iter().min().into_iter().collect(),
        "first" => kid(0).into_iter().next().into_iter().collect(),
        "last" => kid(0).into_iter().last().into_iter().collect(),
        "tostream" => kid(0),
        "kfold" => {
            let mut m: BTreeMap<V, i64> = BTreeMap::new();
            for v in kid(0) {
                let (k, x) = v.pair();
                let e = m.entry(k.clone()).or_insert(fold_init(&t.arg));
                *e = foldf(&t.arg, *e, x.int());
            }
            m.into_iter().map(|(k, a)| V::p(k, V::I(a))).collect()
        }
        "chain" => kid(0).into_iter().chain(kid(1)).collect(),
        "xsing" => match kid(1).first() {
            Some(s) => kid(0).into_iter().map(|v| V::p(v, s.clone())).collect(),
            None => vec![],
        },
        "join" => {
            let (l, r) = (kid(0), kid(1));
            l.iter()
                .flat_map(|x| {
                    r.iter()
                        .filter(|y| x.pair().0 == y.pair().0)
                        .map(|y| V::p(x.pair().0.clone(), V::p(x.pair().1.clone(), y.pair().1.clone())))
                        .collect::<Vec<_>>()
                })
                .collect()
        }
        "antijoin" => {
            let neg: HashSet<V> = kid(1).into_iter().collect();
            kid(0).into_iter().filter(|v| !neg.contains(v.pair().0)).collect()
        }
        "notin" => {
            let neg: HashSet<V> = kid(1).into_iter().collect();
            kid(0).into_iter().filter(|v| !neg.contains(v)).collect()
        }
        other => panic!("tick op {other}"),
    }
}

/// does the tick term look at earlier ticks?
pub fn tick_stateless(t: &T) -> bool {
    !matches!(t.op.as_str(), "cyc" | "defer" | "across" | "ofirst") && t.kids.iter().all(tick_stateless)
}

/// canonical printed form of a batch by kind (the same rule as the Lean driver's `canon`)
pub fn canon(kind: &str, items: Vec<String>) -> Vec<String> {
    let mut v = items;
    match kind {
        "sN" | "ksing" | "tN" | "sKN" | "bN" => v.sort(),
        "sK" => v.sort_by(|a, b| key_of(a).cmp(key_of(b))), // stable
        _ => {}
    }
    v
}
fn key_of(s: &str) -> &str {
    s.get(1..).unwrap_or("").split(',').next().unwrap_or("")
}
pub fn show_batch(items: &[String]) -> String {
    if items.is_empty() { "-".into() } else { items.join(";") }
}
