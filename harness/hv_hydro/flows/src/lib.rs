#[cfg(stageleft_runtime)]
hydro_lang::setup!();

pub mod progs;
