//! Compiles every program of `hv_hydro_flows::progs` THROUGH THE PRODUCTION CODE GENERATOR
//! (`FlowBuilder … generate_embedded`, the `hydro_test_embedded` pattern) into OUT_DIR/pNNN.rs.
use hydro_lang::location::Location;

macro_rules! gen_prog {
    ($out_dir:expr, $name:ident) => {{
        let mut flow = hydro_lang::compile::builder::FlowBuilder::new();
        let process = flow.process::<()>();
        hv_hydro_flows::progs::$name(process.embedded_input("in0"), process.embedded_input("in1"));
        let code = flow
            .with_process(&process, stringify!($name))
            .generate_embedded("hv_hydro_flows");
        std::fs::write(
            format!("{}/{}.rs", $out_dir, stringify!($name)),
            prettyplease::unparse(&code),
        )
        .unwrap();
    }};
}

include!("src/buildlist.rs");

fn main() {
    println!("cargo::rerun-if-changed=build.rs");
    println!("cargo::rerun-if-changed=../flows/src/progs.rs");
    println!("cargo::rerun-if-changed=src/buildlist.rs");
    let out_dir = std::env::var("OUT_DIR").unwrap();
    generate_all(&out_dir);
}
