//! hv_hydro_progs — the corpus programs of the hv_hydro harness (C28 / C29 / C30).
//!
//! Every program of `proglist.rs` (generated from terms by `gen_programs.py`) is compiled by `build.rs`
//! through the production code generator (`FlowBuilder … generate_embedded`) and `include!`d here,
//! together with the tick-by-tick runner the harness drives it with.
use std::cell::RefCell;
use std::collections::VecDeque;
use std::pin::Pin;
use std::rc::Rc;
use std::task::{Context, Poll};

/// an input port the harness feeds between ticks: pending when empty, never ends, never wakes
#[derive(Clone, Default)]
pub struct Feed(pub Rc<RefCell<VecDeque<i64>>>);
impl futures::Stream for Feed {
    type Item = i64;
    fn poll_next(self: Pin<&mut Self>, _cx: &mut Context<'_>) -> Poll<Option<i64>> {
        match self.0.borrow_mut().pop_front() {
            Some(x) => Poll::Ready(Some(x)),
            None => Poll::Pending,
        }
    }
}

pub type Ticks = Vec<(Vec<i64>, Vec<i64>)>;

/// what one run produced: one output batch (Debug-printed items) per feeding step, and the DFIR tick
/// counter (`Dfir::current_tick`) read after each step
pub struct RunOut {
    pub outs: Vec<Vec<String>>,
    pub tick_after: Vec<u64>,
}

macro_rules! prog {
    ($name:ident) => {
        #[allow(unused_imports, unused_qualifications, missing_docs, non_snake_case, unused, clippy::all)]
        pub mod $name {
            include!(concat!(env!("OUT_DIR"), "/", stringify!($name), ".rs"));
            /// run the compiled program step by step.  Per step the batches are made available on the
            /// input ports and then either exactly one tick is run (`run_tick_sync`, `avail == false`)
            /// or the runtime's own scheduler decides how many ticks to run (`run_available_sync`).
            pub fn run(ticks: &super::Ticks, avail: bool) -> super::RunOut {
                let f0 = super::Feed::default();
                let f1 = super::Feed::default();
                let collected = std::cell::RefCell::new(Vec::<String>::new());
                let mut outs = $name::EmbeddedOutputs {
                    out: |v| collected.borrow_mut().push(format!("{:?}", v)),
                };
                let mut res = Vec::new();
                let mut tick_after = Vec::new();
                {
                    let mut flow = $name(f0.clone(), f1.clone(), &mut outs);
                    for (a, b) in ticks {
                        f0.0.borrow_mut().extend(a.iter().copied());
                        f1.0.borrow_mut().extend(b.iter().copied());
                        if avail {
                            flow.run_available_sync();
                        } else {
                            flow.run_tick_sync();
                        }
                        tick_after.push(flow.current_tick().0);
                        res.push(std::mem::take(&mut *collected.borrow_mut()));
                    }
                }
                super::RunOut { outs: res, tick_after }
            }
        }
    };
}

pub struct Entry {
    pub name: &'static str,
    pub tags: &'static str,
    pub kind: &'static str,
    pub term: &'static str,
    pub run: fn(&Ticks, bool) -> RunOut,
}

include!("proglist.rs");
