#!/usr/bin/env python3
"""
(T) translator for C28–C30: string-level extraction of *which DFIR operator and which persistence lifetime*
`emit_core` (hydro_lang/src/compile/ir/mod.rs) chooses per `HydroNode` variant, plus the two lifetime
functions of the production builder, into `lean/HvHydro/HvHydro/Gen/Lowering.lean`.

For every match arm `HydroNode::X … =>` inside `impl HydroNode { fn emit_core }` the translator keeps, in
source order, the decision-relevant fragments:
  * every `parse_quote! { … }` statement block (identifier splices `#foo_ident` renamed positionally,
    whitespace normalised),
  * every `parse_quote!(op)` operator choice,
  * every condition / lifetime selection line mentioning `is_top_level()`, `is_bounded()`,
    `cross_tick_state_lifetime`, `tick_state_lifetime`.
The result is one string per arm.  `Props/C28.lean` proves `Gen.lowering = expectedLowering` (the table the
model was transcribed from), so any change of the lowering breaks that theorem.
"""
import os
import re

REPO_FILE = "hydro_lang/src/compile/ir/mod.rs"

# the variants the model covers (others are outside the modelled fragment)
VARIANTS = ["Cast", "UnboundSingleton", "ObserveNonDet", "Batch", "YieldConcat", "Source", "SingletonSource",
            "CycleSource", "Tee", "Chain", "ChainFirst", "CrossSingleton", "CrossProduct", "Difference", "JoinHalf",
            "Map", "FlatMap", "Filter", "FilterMap", "Sort", "DeferTick", "Enumerate", "Unique", "Fold", "Reduce"]


class ParseError(Exception):
    pass


def find_matching(src, i, open_c, close_c):
    """index just after the bracket matching src[i] (src[i] == open_c); skips string/char literals and comments"""
    assert src[i] == open_c
    depth = 0
    n = len(src)
    while i < n:
        c = src[i]
        if src.startswith("//", i):
            while i < n and src[i] != "\n":
                i += 1
            continue
        if c == '"':
            i += 1
            while i < n and src[i] != '"':
                i += 2 if src[i] == "\\" else 1
            i += 1
            continue
        if c == open_c:
            depth += 1
        elif c == close_c:
            depth -= 1
            if depth == 0:
                return i + 1
        i += 1
    raise ParseError("unbalanced " + open_c)


def norm(s):
    s = re.sub(r"//[^\n]*", "", s)
    s = re.sub(r"\s+", " ", s).strip()
    return s


def rename_splices(block):
    names = {}

    def sub(m):
        nm = m.group(1)
        if nm in ("lifetime", "left_lifetime", "right_lifetime", "pos_lifetime", "neg_lifetime", "build_lifetime",
                  "probe_lifetime", "operator", "agg_operator", "op_ident"):
            return "#" + nm
        if nm not in names:
            names[nm] = f"#v{len(names)}"
        return names[nm]
    return re.sub(r"#([A-Za-z_][A-Za-z_0-9]*)", sub, block)


def arm_fragments(body):
    """decision-relevant fragments of one match arm, in source order"""
    frags = []
    i = 0
    n = len(body)
    pat = re.compile(r"parse_quote!\s*([({])")
    cond = re.compile(r"is_top_level\(\)|is_bounded\(\)|cross_tick_state_lifetime|tick_state_lifetime|first_tick_only")
    # collect (position, text)
    items = []
    for m in pat.finditer(body):
        o = m.end() - 1
        close = ")" if body[o] == "(" else "}"
        e = find_matching(body, o, body[o], close)
        inner = body[o + 1:e - 1]
        if body[o] == "(":
            items.append((m.start(), "op(" + norm(inner) + ")"))
        else:
            items.append((m.start(), "dfir{" + rename_splices(norm(inner)) + "}"))
    spans = [(p, p + 1) for p, _ in items]
    for lm in re.finditer(r"[^\n]*\n", body):
        line = lm.group(0)
        if cond.search(line) and "parse_quote" not in line:
            t = norm(line)
            if t.startswith("//"):
                continue
            items.append((lm.start(), "sel[" + t + "]"))
    for cm in re.finditer(r"graph_builders\s*\.\s*(\w+)\s*\(", body):
        if cm.group(1) not in ("add_dfir_at", "cross_tick_state_lifetime", "tick_state_lifetime"):
            items.append((cm.start(), "call[" + cm.group(1) + "]"))
    items.sort(key=lambda x: x[0])
    return [t for _, t in items]


def extract(repo):
    src = open(os.path.join(repo, REPO_FILE)).read()
    # 1. the lifetime functions of the builder trait (defaults) and whether ProdDfirBuilder overrides them
    lifetimes = {}
    for fn in ("tick_state_lifetime", "cross_tick_state_lifetime"):
        ms = list(re.finditer(r"fn\s+" + fn + r"\s*\([^)]*\)\s*->\s*TokenStream\s*\{", src))
        if len(ms) != 1:
            raise ParseError(f"{fn}: expected exactly one definition (the trait default), found {len(ms)}")
        o = ms[0].end() - 1
        e = find_matching(src, o, "{", "}")
        lifetimes[fn] = norm(src[o + 1:e - 1])
    # 2. the ProdDfirBuilder::batch / yield_from_tick bodies (persist for bounded singletons)
    prod = re.search(r"impl DfirBuilder for ProdDfirBuilder\s*\{", src)
    if not prod:
        raise ParseError("impl DfirBuilder for ProdDfirBuilder not found")
    pe = find_matching(src, prod.end() - 1, "{", "}")
    prod_src = src[prod.end():pe]
    prod_tab = {}
    for fn in ("singleton_intermediates", "batch", "yield_from_tick", "observe_nondet", "merge_ordered"):
        m = re.search(r"fn\s+" + fn + r"\s*\(", prod_src)
        if not m:
            raise ParseError("ProdDfirBuilder::" + fn)
        o = prod_src.index("{", find_matching(prod_src, m.end() - 1, "(", ")"))
        e = find_matching(prod_src, o, "{", "}")
        body = prod_src[o:e]
        fr = arm_fragments(body)
        if fn == "singleton_intermediates":
            fr = [norm(body)]
        prod_tab[fn] = " ; ".join(fr)
    # 3. the arms of HydroNode::emit_core
    m = re.search(r"impl HydroNode \{", src)
    if not m:
        raise ParseError("impl HydroNode")
    hs = src[m.end():]
    m2 = re.search(r"pub fn emit_core\s*\(", hs)
    if not m2:
        raise ParseError("HydroNode::emit_core")
    o = hs.index("{", find_matching(hs, m2.end() - 1, "(", ")"))
    e = find_matching(hs, o, "{", "}")
    core = hs[o:e]
    arms = {}
    for v in VARIANTS:
        ms = list(re.finditer(r"\n\s*HydroNode::" + v + r"\b[^\n]*", core))
        # the arm head is the first occurrence at arm indentation followed (possibly after `| HydroNode::…`) by `=> {`
        found = None
        for mm in ms:
            k = mm.start()
            arrow = core.find("=>", k)
            brace = core.find("{", arrow)
            head = core[k:arrow]
            if head.count("\n") > 12:
                continue
            if core[arrow + 2:brace].strip() != "":
                continue
            found = (k, brace)
            break
        if not found:
            raise ParseError("arm HydroNode::" + v)
        k, brace = found
        end = find_matching(core, brace, "{", "}")
        frs = arm_fragments(core[brace:end])
        if not frs and v not in ("Cast", "CycleSource"):
            raise ParseError("no fragments in arm " + v)
        arms[v] = " ; ".join(frs)
    return lifetimes, prod_tab, arms


# hydro_lang LIBRARY code the tick-cycle part of the model (Model/Tick.lean: optCycleWithInitial, singCycleWithInitial,
# filterIf, isSome, intoSingleton, `cyc`) is transcribed from: (table key, file, regex the search starts at, fn name)
LIBRARY = [
    ("Optional::create_source_with_initial<TickCycle>", "hydro_lang/src/live_collections/optional.rs",
     r"CycleCollectionWithInitial<'a, TickCycle> for Optional", "create_source_with_initial"),
    ("Singleton::create_source_with_initial<TickCycle>", "hydro_lang/src/live_collections/singleton.rs",
     r"CycleCollectionWithInitial<'a, TickCycle> for Singleton", "create_source_with_initial"),
    ("Optional::filter_if", "hydro_lang/src/live_collections/optional.rs", r"", "filter_if"),
    ("Optional::is_some", "hydro_lang/src/live_collections/optional.rs", r"", "is_some"),
    ("Optional::into_singleton", "hydro_lang/src/live_collections/optional.rs", r"", "into_singleton"),
    ("Optional::or", "hydro_lang/src/live_collections/optional.rs", r"", "or"),
    ("Optional::unwrap_or", "hydro_lang/src/live_collections/optional.rs", r"", "unwrap_or"),
    ("Optional::zip", "hydro_lang/src/live_collections/optional.rs", r"", "zip"),
    ("Optional::zip_inside_tick", "hydro_lang/src/live_collections/optional.rs", r"", "zip_inside_tick"),
    ("Optional::or_inside_tick", "hydro_lang/src/live_collections/optional.rs", r"", "or_inside_tick"),
    ("Tick::cycle", "hydro_lang/src/location/tick.rs", r"", "cycle"),
    ("Tick::cycle_with_initial", "hydro_lang/src/location/tick.rs", r"", "cycle_with_initial"),
    ("Tick::optional_first_tick", "hydro_lang/src/location/tick.rs", r"", "optional_first_tick"),
]


def extract_library(repo):
    """normalised bodies of the library functions above"""
    out = {}
    for key, rel, start_re, fn in LIBRARY:
        src = open(os.path.join(repo, rel)).read()
        # drop the test module
        cut = src.find("#[cfg(test)]\nmod tests")
        if cut >= 0:
            src = src[:cut]
        base = 0
        if start_re:
            ms = list(re.finditer(start_re, src))
            if len(ms) != 1:
                raise ParseError(f"{key}: expected exactly one `{start_re}` in {rel}, found {len(ms)}")
            base = ms[0].end()
        ms = list(re.finditer(r"\bfn\s+" + fn + r"\b\s*(<|\()", src[base:]))
        if not ms or (not start_re and len(ms) != 1):
            raise ParseError(f"{key}: expected exactly one `fn {fn}` in {rel}, found {len(ms)}")
        k = base + ms[0].start()
        # the body: first `{` after the signature's parameter list and where clause
        par = src.index("(", k)
        sig_end = find_matching(src, par, "(", ")")
        o = sig_end
        depth = 0
        while True:       # skip generics / where clauses up to the body brace (angle brackets may contain braces only in bodies)
            c = src[o]
            if c == "{" and depth == 0:
                break
            if c == "(":
                o = find_matching(src, o, "(", ")")
                continue
            o += 1
        e = find_matching(src, o, "{", "}")
        body = re.sub(r"///[^\n]*", "", src[o + 1:e - 1])
        out[key] = norm(body)
    return out


def lean_str(s):
    return '"' + s.replace("\\", "\\\\").replace('"', '\\"') + '"'


def render(lifetimes, prod_tab, arms, library):
    out = ["/-",
           "GENERATED by harness/hv_hydro/translate_lowering.py from hydro_lang/src/compile/ir/mod.rs — do not edit.",
           "Which DFIR statements / operators / persistence lifetimes `emit_core` emits per `HydroNode` variant.",
           "-/",
           "namespace HvHydro.Gen",
           "",
           f"def tickStateLifetime : String := {lean_str(lifetimes['tick_state_lifetime'])}",
           f"def crossTickStateLifetime : String := {lean_str(lifetimes['cross_tick_state_lifetime'])}",
           "",
           "def prodBuilder : List (String × String) := ["]
    out += ["  (" + lean_str(k) + ", " + lean_str(v) + ")," for k, v in prod_tab.items()]
    out[-1] = out[-1].rstrip(",")
    out += ["]", "", "def lowering : List (String × String) := ["]
    out += ["  (" + lean_str(k) + ", " + lean_str(arms[k]) + ")," for k in VARIANTS]
    out[-1] = out[-1].rstrip(",")
    out += ["]", "", "/-- library code of hydro_lang (not emit_core) the tick-cycle model is transcribed from -/",
            "def library : List (String × String) := ["]
    out += ["  (" + lean_str(k) + ", " + lean_str(library[k]) + ")," for k, _, _, _ in LIBRARY]
    out[-1] = out[-1].rstrip(",")
    out += ["]", "", "end HvHydro.Gen", ""]
    return "\n".join(out)


def translate(repo, verif):
    """-> list of (name, ok, detail); writes Gen/Lowering.lean only when the content changes"""
    target = os.path.join(verif, "lean", "HvHydro", "HvHydro", "Gen", "Lowering.lean")
    try:
        lifetimes, prod_tab, arms = extract(repo)
        library = extract_library(repo)
    except (ParseError, OSError, ValueError, IndexError) as ex:
        return [("emit_core lowering table (compile/ir/mod.rs)", False, f"cannot parse: {ex}")]
    text = render(lifetimes, prod_tab, arms, library)
    os.makedirs(os.path.dirname(target), exist_ok=True)
    if not os.path.exists(target) or open(target).read() != text:
        with open(target, "w") as f:
            f.write(text)
    return [("emit_core lowering table (compile/ir/mod.rs)", True,
             f"{len(arms)} HydroNode arms, {len(prod_tab)} ProdDfirBuilder methods, 2 lifetime functions, "
             f"{len(library)} library functions (tick cycles) extracted")]


if __name__ == "__main__":
    import sys
    r = translate(sys.argv[1] if len(sys.argv) > 1 else "/repo", sys.argv[2] if len(sys.argv) > 2 else "/verif")
    print(r)
