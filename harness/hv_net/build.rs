//! Compiles the flows of `hv_net_flows` with the production Hydro code generator
//! (`generate_embedded`), one Rust source file per flow, included by `src/gen.rs`.
use hydro_lang::compile::builder::FlowBuilder;

fn write(out_dir: &str, name: &str, code: syn::File) {
    std::fs::write(format!("{out_dir}/{name}.rs"), prettyplease::unparse(&code)).unwrap();
}

macro_rules! c35 {
    ($out:expr, $t:ident, $lt:ident) => {{
        use hv_net_flows::payload::$t;
        {
            let mut flow = FlowBuilder::new();
            let a = flow.process();
            let b = flow.process();
            hv_net_flows::c35::o2o::<$t>(&a, &b);
            write($out, concat!("o2o_", stringify!($lt)), flow.with_process(&a, "snd").with_process(&b, "rcv").generate_embedded("hv_net_flows"));
        }
        {
            let mut flow = FlowBuilder::new();
            let a = flow.cluster();
            let b = flow.cluster();
            hv_net_flows::c35::m2m::<$t>(&a, &b);
            write($out, concat!("m2m_", stringify!($lt)), flow.with_cluster(&a, "snd").with_cluster(&b, "rcv").generate_embedded("hv_net_flows"));
        }
        {
            let mut flow = FlowBuilder::new();
            let a = flow.process();
            let b = flow.cluster();
            hv_net_flows::c35::o2m::<$t>(&a, &b);
            write($out, concat!("o2m_", stringify!($lt)), flow.with_process(&a, "snd").with_cluster(&b, "rcv").generate_embedded("hv_net_flows"));
        }
        {
            let mut flow = FlowBuilder::new();
            let a = flow.cluster();
            let b = flow.process();
            hv_net_flows::c35::m2o::<$t>(&a, &b);
            write($out, concat!("m2o_", stringify!($lt)), flow.with_cluster(&a, "snd").with_process(&b, "rcv").generate_embedded("hv_net_flows"));
        }
    }};
}

const QUORUMS: &[(usize, usize)] = &[(1, 1), (2, 2), (3, 3), (1, 2), (1, 3), (2, 3), (2, 4), (3, 5)];

fn c39(out: &str) {
    for &(min, max) in QUORUMS {
        {
            let mut flow = FlowBuilder::new();
            let p = flow.process();
            hv_net_flows::c39::quorum(&p, min, max);
            write(out, &format!("q_{min}_{max}"), flow.with_process(&p, "run").generate_embedded("hv_net_flows"));
        }
        {
            let mut flow = FlowBuilder::new();
            let p = flow.process();
            hv_net_flows::c39::quorum_with_response(&p, min, max);
            write(out, &format!("w_{min}_{max}"), flow.with_process(&p, "run").generate_embedded("hv_net_flows"));
        }
    }
    let mut flow = FlowBuilder::new();
    let p = flow.process();
    hv_net_flows::c39::join(&p);
    write(out, "join", flow.with_process(&p, "run").generate_embedded("hv_net_flows"));
}

fn main() {
    println!("cargo::rerun-if-changed=build.rs");
    let out_dir = std::env::var("OUT_DIR").unwrap();
    let out = out_dir.as_str();
    c39(out);
    c35!(out, T0, t0);
    c35!(out, T1, t1);
    c35!(out, T2, t2);
    c35!(out, T3, t3);
    c35!(out, T4, t4);
    c35!(out, T5, t5);
    c35!(out, T6, t6);
    c35!(out, T7, t7);
    c35!(out, T8, t8);
    c35!(out, T9, t9);
    c35!(out, T10, t10);
    c35!(out, T11, t11);
}
