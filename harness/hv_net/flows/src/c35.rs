//! The four addressed-send shapes of Hydro networking, generic in the payload type.
use hydro_lang::location::MemberId;
use hydro_lang::prelude::*;
use serde::Serialize;
use serde::de::DeserializeOwned;

use crate::payload::{C1, C2, P1, P2};

/// process -> process: plain serialize closure, plain deserialize closure
pub fn o2o<'a, T: Serialize + DeserializeOwned>(src: &Process<'a, P1>, dst: &Process<'a, P2>) {
    src.embedded_input::<T>("input")
        .send(dst, TCP.fail_stop().bincode().name("ch"))
        .embedded_output("output");
}

/// process -> cluster member: demux serialize closure, plain deserialize closure
pub fn o2m<'a, T: Serialize + DeserializeOwned>(src: &Process<'a, P1>, dst: &Cluster<'a, C2>) {
    src.embedded_input::<(MemberId<C2>, T)>("input")
        .demux(dst, TCP.fail_stop().bincode().name("ch"))
        .embedded_output("output");
}

/// cluster member -> process: plain serialize closure, tagged deserialize closure
pub fn m2o<'a, T: Serialize + DeserializeOwned>(src: &Cluster<'a, C1>, dst: &Process<'a, P2>) {
    src.embedded_input::<T>("input")
        .send(dst, TCP.fail_stop().bincode().name("ch"))
        .entries()
        .assume_ordering(nondet!(/** the harness feeds one sender at a time */))
        .embedded_output("output");
}

/// cluster member -> cluster member: demux serialize closure, tagged deserialize closure
pub fn m2m<'a, T: Serialize + DeserializeOwned>(src: &Cluster<'a, C1>, dst: &Cluster<'a, C2>) {
    src.embedded_input::<(MemberId<C2>, T)>("input")
        .demux(dst, TCP.fail_stop().bincode().name("ch"))
        .entries()
        .assume_ordering(nondet!(/** the harness feeds one sender at a time */))
        .embedded_output("output");
}
