//! Hydro flows compiled by the production code generator for the /verif harness `hv_net`
//! (C35: networking closures, C39: quorum helpers, C41: generated compositions).
#[cfg(stageleft_runtime)]
hydro_lang::setup!();

pub mod c35;
pub mod c39;
pub mod c41;
pub mod payload;
