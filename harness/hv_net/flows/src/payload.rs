//! Payload types sent through the generated (de)serialisation closures (C35).
use hydro_lang::location::MemberId;
use serde::{Deserialize, Serialize};

/// cluster / process tags
pub struct P1 {}
pub struct P2 {}
pub struct C1 {}
pub struct C2 {}

pub type T0 = (u8, u16, u32, u64, i8, i16, i32, i64);
pub type T1 = (bool, char, String);
pub type T2 = Option<Vec<(u32, String)>>;
pub type T3 = Result<Vec<Option<i64>>, String>;

#[derive(Serialize, Deserialize, Clone, Debug, PartialEq)]
pub struct S4 {
    pub a: u16,
    pub b: Vec<Option<bool>>,
    pub c: (i8, char),
}
pub type T4 = S4;

#[derive(Serialize, Deserialize, Clone, Debug, PartialEq)]
pub enum E5 {
    Unit,
    New(u64),
    Tup(i32, String),
    Rec { x: Vec<u8>, y: Option<Box<S4>> },
}
pub type T5 = E5;

pub type T6 = Vec<Vec<String>>;

#[derive(Serialize, Deserialize, Clone, Debug, PartialEq)]
pub struct N7(pub Vec<(i16, Option<char>)>);
pub type T7 = N7;

pub type T8 = (MemberId<C2>, Vec<MemberId<C1>>);

#[derive(Serialize, Deserialize, Clone, Debug, PartialEq)]
pub struct U9;
pub type T9 = ((), U9, usize, isize, u128, i128);

pub type T10 = Vec<E5>;
pub type T11 = u32;
