//! C41: randomly composed Hydro programs over the public API, driven by a choice tape.
//!
//! `build(flow, tape)` interprets the tape as a sequence of operator applications on a pool of
//! live collections (top-level streams on two processes, tick streams / singletons / optionals),
//! with tees (`clone`), tick cycles, top-level and tick-level forward references, binary top-level
//! merges and network round trips.
//! Every value carries the set of forward references it depends on *within the same tick and
//! location* ("taint"); a forward reference is completed with a value that does not depend on
//! it unless the tape asks for an undelayed cycle (`allow_bad`).
use std::collections::BTreeSet;

use hydro_lang::compile::builder::FlowBuilder;
use hydro_lang::forward_handle::{ForwardHandle, TickCycleHandle};
use hydro_lang::live_collections::stream::{ExactlyOnce, TotalOrder};
use hydro_lang::location::Tick;
use hydro_lang::prelude::*;

use crate::payload::{P1, P2};

type Top<'a> = Stream<i64, Process<'a, P1>, Unbounded, TotalOrder, ExactlyOnce>;
type Top2<'a> = Stream<i64, Process<'a, P2>, Unbounded, TotalOrder, ExactlyOnce>;
type Tk<'a> = Stream<i64, Tick<Process<'a, P1>>, Bounded, TotalOrder, ExactlyOnce>;
type Sg<'a> = Singleton<i64, Tick<Process<'a, P1>>, Bounded>;
type Op<'a> = Optional<i64, Tick<Process<'a, P1>>, Bounded>;

enum V<'a> {
    Top(Top<'a>),
    Top2(Top2<'a>),
    Tk(Tk<'a>),
    Sg(Sg<'a>),
    Op(Op<'a>),
}
type Taint = BTreeSet<usize>;

/// what the interpreter did (for the evidence histogram)
#[derive(Default, Clone, Debug)]
pub struct Built {
    pub ops: Vec<&'static str>,
    /// some forward reference was completed with a value depending on it without delay
    pub undelayed_cycle: bool,
    pub tick_cycles: usize,
    pub forward_refs: usize,
    /// forward references created on the tick location (`tick.forward_ref`)
    pub tick_forward_refs: usize,
    pub networks: usize,
    pub tees: usize,
}

struct Tape<'t> {
    t: &'t [u8],
    i: usize,
}
impl Tape<'_> {
    fn next(&mut self) -> usize {
        let v = self.t.get(self.i).copied().unwrap_or(0);
        self.i += 1;
        v as usize
    }
    fn done(&self) -> bool {
        self.i >= self.t.len()
    }
}

fn pick<'a>(pool: &mut Vec<(V<'a>, Taint)>, want: fn(&V<'a>) -> bool, r: usize) -> Option<(V<'a>, Taint)> {
    let idx: Vec<usize> = pool.iter().enumerate().filter(|(_, (v, _))| want(v)).map(|(i, _)| i).collect();
    if idx.is_empty() {
        return None;
    }
    Some(pool.remove(idx[r % idx.len()]))
}
fn is_top(v: &V) -> bool {
    matches!(v, V::Top(_))
}
fn is_top2(v: &V) -> bool {
    matches!(v, V::Top2(_))
}
fn is_tk(v: &V) -> bool {
    matches!(v, V::Tk(_))
}
fn is_sg(v: &V) -> bool {
    matches!(v, V::Sg(_))
}
fn is_op(v: &V) -> bool {
    matches!(v, V::Op(_))
}

/// Builds a flow on `p1` / `p2` from the tape. `allow_bad`: forward references may be completed
/// with values that depend on them in the same tick (an undelayed cycle).
pub fn build<'a>(p1: &Process<'a, P1>, p2: &Process<'a, P2>, tape: &[u8], allow_bad: bool) -> Built {
    let mut b = Built::default();
    let mut tp = Tape { t: tape, i: 0 };
    let tick = p1.tick();
    let mut pool: Vec<(V<'a>, Taint)> = vec![];
    let mut chan = 0usize;

    // sources
    pool.push((V::Top(p1.embedded_input::<i64>("in1")), Taint::new()));
    if tp.next() % 2 == 0 {
        pool.push((V::Top(p1.source_iter(q!(vec![1i64, 2, 3])).all_ticks_hack()), Taint::new()));
    }
    pool.push((V::Sg(tick.singleton(q!(5i64))), Taint::new()));

    // cycles
    let n_tc = tp.next() % 3;
    let mut tick_cycles: Vec<TickCycleHandle<'a, Tk<'a>>> = vec![];
    for _ in 0..n_tc {
        let (h, s) = tick.cycle::<Tk<'a>, _>();
        tick_cycles.push(h);
        pool.push((V::Tk(s), Taint::new()));
    }
    let fr_byte = tp.next();
    let n_fr = fr_byte % 3;
    let mut fwd: Vec<(usize, ForwardHandle<'a, Top<'a>>)> = vec![];
    for k in 0..n_fr {
        let (h, s) = p1.forward_ref::<Top<'a>>();
        fwd.push((k, h));
        pool.push((V::Top(s), [k].into_iter().collect()));
    }
    // forward references on the tick location: a dependency on them is synchronous (same tick)
    let n_tfr = (fr_byte / 3) % 2;
    let mut tick_fwd: Vec<(usize, ForwardHandle<'a, Tk<'a>>)> = vec![];
    for j in 0..n_tfr {
        let k = 100 + j;
        let (h, s) = tick.forward_ref::<Tk<'a>>();
        tick_fwd.push((k, h));
        pool.push((V::Tk(s), [k].into_iter().collect()));
    }
    b.tick_cycles = n_tc;
    b.forward_refs = n_fr;
    b.tick_forward_refs = n_tfr;

    while !tp.done() {
        let op = tp.next() % 27;
        let r = tp.next();
        match op {
            0 => {
                if let Some((V::Top(s), t)) = pick(&mut pool, is_top, r) {
                    b.ops.push("top.map");
                    pool.push((V::Top(s.map(q!(|x| x + 1))), t));
                }
            }
            1 => {
                if let Some((V::Top(s), t)) = pick(&mut pool, is_top, r) {
                    b.ops.push("top.filter");
                    pool.push((V::Top(s.filter(q!(|x| *x % 3 != 0))), t));
                }
            }
            2 => {
                if let Some((V::Top(s), t)) = pick(&mut pool, is_top, r) {
                    b.ops.push("top.clone");
                    b.tees += 1;
                    pool.push((V::Top(s.clone()), t.clone()));
                    pool.push((V::Top(s), t));
                }
            }
            3 | 4 => {
                if let Some((V::Top(s), t)) = pick(&mut pool, is_top, r) {
                    b.ops.push("top.batch");
                    pool.push((V::Tk(s.batch(&tick, nondet!(/** generated */))), t));
                }
            }
            5 => {
                if let Some((V::Top(s), _)) = pick(&mut pool, is_top, r) {
                    b.ops.push("top.send");
                    b.networks += 1;
                    chan += 1;
                    pool.push((V::Top2(s.send(p2, TCP.fail_stop().bincode().name(format!("ch{chan}")))), Taint::new()));
                }
            }
            6 => {
                if let Some((V::Top2(s), _)) = pick(&mut pool, is_top2, r) {
                    b.ops.push("top2.send");
                    b.networks += 1;
                    chan += 1;
                    pool.push((V::Top(s.send(p1, TCP.fail_stop().bincode().name(format!("ch{chan}")))), Taint::new()));
                }
            }
            7 => {
                if let Some((V::Top2(s), t)) = pick(&mut pool, is_top2, r) {
                    b.ops.push("top2.map");
                    pool.push((V::Top2(s.map(q!(|x| x * 2))), t));
                }
            }
            8 => {
                if let Some((V::Tk(s), t)) = pick(&mut pool, is_tk, r) {
                    b.ops.push("tick.map");
                    pool.push((V::Tk(s.map(q!(|x| x - 1))), t));
                }
            }
            9 => {
                if let Some((V::Tk(s), t)) = pick(&mut pool, is_tk, r) {
                    b.ops.push("tick.clone");
                    b.tees += 1;
                    pool.push((V::Tk(s.clone()), t.clone()));
                    pool.push((V::Tk(s), t));
                }
            }
            10 => {
                if let Some((V::Tk(s), t)) = pick(&mut pool, is_tk, r) {
                    b.ops.push("tick.all_ticks");
                    pool.push((V::Top(s.all_ticks()), t));
                }
            }
            11 => {
                if let Some((V::Tk(s), t)) = pick(&mut pool, is_tk, r) {
                    b.ops.push("tick.fold");
                    let sg: Sg<'a> = s.fold(q!(|| 0i64), q!(|acc, x| *acc += x));
                    pool.push((V::Sg(sg), t));
                }
            }
            12 => {
                if let Some((V::Tk(s), t)) = pick(&mut pool, is_tk, r) {
                    b.ops.push("tick.max");
                    pool.push((V::Op(s.max()), t));
                }
            }
            13 => {
                if let Some((V::Tk(s), _)) = pick(&mut pool, is_tk, r) {
                    b.ops.push("tick.defer_tick");
                    pool.push((V::Tk(s.defer_tick()), Taint::new()));
                }
            }
            14 => {
                if let Some((V::Tk(s1), t1)) = pick(&mut pool, is_tk, r) {
                    if let Some((V::Tk(s2), t2)) = pick(&mut pool, is_tk, tp.next()) {
                        b.ops.push("tick.chain");
                        pool.push((V::Tk(s1.chain(s2)), t1.union(&t2).copied().collect()));
                    } else {
                        pool.push((V::Tk(s1), t1));
                    }
                }
            }
            15 => {
                if let Some((V::Tk(s1), t1)) = pick(&mut pool, is_tk, r) {
                    if let Some((V::Sg(s2), t2)) = pick(&mut pool, is_sg, tp.next()) {
                        b.ops.push("tick.cross_singleton");
                        pool.push((V::Tk(s1.cross_singleton(s2).map(q!(|(a, b)| a + b))), t1.union(&t2).copied().collect()));
                    } else {
                        pool.push((V::Tk(s1), t1));
                    }
                }
            }
            16 => {
                if let Some((V::Tk(s), t)) = pick(&mut pool, is_tk, r) {
                    b.ops.push("tick.sort_unique");
                    pool.push((V::Tk(s.unique().sort()), t));
                }
            }
            17 => {
                if let Some((V::Tk(s), t)) = pick(&mut pool, is_tk, r) {
                    b.ops.push("tick.enumerate");
                    pool.push((V::Tk(s.enumerate().map(q!(|(i, x)| x + i as i64))), t));
                }
            }
            18 => {
                if let Some((V::Sg(s), t)) = pick(&mut pool, is_sg, r) {
                    b.ops.push("singleton.into_stream");
                    pool.push((V::Tk(s.into_stream()), t));
                }
            }
            19 => {
                if let Some((V::Sg(s), t)) = pick(&mut pool, is_sg, r) {
                    b.ops.push("singleton.clone_map");
                    b.tees += 1;
                    pool.push((V::Sg(s.clone().map(q!(|x| x * 3))), t.clone()));
                    pool.push((V::Sg(s), t));
                }
            }
            20 => {
                if let Some((V::Op(o), t1)) = pick(&mut pool, is_op, r) {
                    if let Some((V::Sg(s), t2)) = pick(&mut pool, is_sg, tp.next()) {
                        b.ops.push("optional.unwrap_or");
                        pool.push((V::Sg(o.unwrap_or(s)), t1.union(&t2).copied().collect()));
                    } else {
                        b.ops.push("optional.into_stream");
                        pool.push((V::Tk(o.into_stream()), t1));
                    }
                }
            }
            21 => {
                if let Some((V::Op(o), _)) = pick(&mut pool, is_op, r) {
                    b.ops.push("optional.defer_tick");
                    pool.push((V::Op(o.defer_tick()), Taint::new()));
                }
            }
            22 => {
                if let Some((V::Tk(s), t)) = pick(&mut pool, is_tk, r) {
                    b.ops.push("tick.first");
                    pool.push((V::Op(s.first()), t));
                }
            }
            24 => {
                if let Some((V::Top(s1), t1)) = pick(&mut pool, is_top, r) {
                    if let Some((V::Top(s2), t2)) = pick(&mut pool, is_top, tp.next()) {
                        b.ops.push("top.merge_ordered");
                        pool.push((V::Top(s1.merge_ordered(s2, nondet!(/** generated */))), t1.union(&t2).copied().collect()));
                    } else {
                        pool.push((V::Top(s1), t1));
                    }
                }
            }
            25 => {
                if let Some((V::Tk(s1), t1)) = pick(&mut pool, is_tk, r) {
                    if let Some((V::Tk(s2), t2)) = pick(&mut pool, is_tk, tp.next()) {
                        b.ops.push("tick.filter_not_in");
                        pool.push((V::Tk(s1.filter_not_in(s2)), t1.union(&t2).copied().collect()));
                    } else {
                        pool.push((V::Tk(s1), t1));
                    }
                }
            }
            _ => {
                if let Some((V::Sg(s), t)) = pick(&mut pool, is_sg, r) {
                    b.ops.push("singleton.all_ticks");
                    pool.push((V::Top(s.all_ticks()), t));
                }
            }
        }
    }

    // close the tick cycles (always delayed: the source side carries the DeferTick)
    for h in tick_cycles {
        let v = match pick(&mut pool, is_tk, tp.next()) {
            Some((V::Tk(s), t)) => {
                // keep the value alive for other consumers too
                b.tees += 1;
                pool.push((V::Tk(s.clone()), t));
                s
            }
            _ => tick.singleton(q!(7i64)).into_stream(),
        };
        h.complete_next_tick(v);
    }
    // complete the forward references
    for (k, h) in fwd {
        let cands: Vec<usize> = pool
            .iter()
            .enumerate()
            .filter(|(_, (v, t))| is_top(v) && (allow_bad || !t.contains(&k)))
            .map(|(i, _)| i)
            .collect();
        let v: Top<'a> = if cands.is_empty() {
            p1.source_iter(q!(vec![9i64])).all_ticks_hack()
        } else {
            let (v, t) = pool.remove(cands[tp.next() % cands.len()]);
            if t.contains(&k) {
                b.undelayed_cycle = true;
            }
            // anything tainted by what we complete with is now also tainted by `k`'s taint set
            let V::Top(s) = v else { unreachable!() };
            for (_, t2) in pool.iter_mut() {
                if t2.contains(&k) {
                    t2.extend(t.iter().copied());
                }
            }
            s
        };
        h.complete(v);
    }
    // complete the tick-level forward references
    for (k, h) in tick_fwd {
        let cands: Vec<usize> = pool
            .iter()
            .enumerate()
            .filter(|(_, (v, t))| is_tk(v) && (allow_bad || !t.contains(&k)))
            .map(|(i, _)| i)
            .collect();
        let v: Tk<'a> = if cands.is_empty() {
            tick.singleton(q!(11i64)).into_stream()
        } else {
            let (v, t) = pool.remove(cands[tp.next() % cands.len()]);
            if t.contains(&k) {
                b.undelayed_cycle = true;
            }
            let V::Tk(s) = v else { unreachable!() };
            for (_, t2) in pool.iter_mut() {
                if t2.contains(&k) {
                    t2.extend(t.iter().copied());
                }
            }
            // keep the value alive for other consumers too
            b.tees += 1;
            pool.push((V::Tk(s.clone()), t));
            s
        };
        h.complete(v);
    }
    // sinks
    let mut outs = 0;
    for (v, _) in pool {
        match v {
            V::Top(s) => {
                if outs == 0 {
                    outs += 1;
                    s.embedded_output("out");
                } else {
                    s.for_each(q!(|_| {}));
                }
            }
            V::Top2(s) => s.for_each(q!(|_| {})),
            V::Tk(s) => s.all_ticks().for_each(q!(|_| {})),
            V::Sg(s) => s.all_ticks().for_each(q!(|_| {})),
            V::Op(o) => o.into_stream().all_ticks().for_each(q!(|_| {})),
        }
    }
    b
}

/// a bounded top-level `source_iter` seen as an unbounded stream
trait AllTicksHack<'a> {
    fn all_ticks_hack(self) -> Top<'a>;
}
impl<'a> AllTicksHack<'a> for Stream<i64, Process<'a, P1>, Bounded, TotalOrder, ExactlyOnce> {
    fn all_ticks_hack(self) -> Top<'a> {
        self.into()
    }
}

/// one flow on two fresh processes; returns the builder pieces needed to compile it
pub fn make<'a>(tape: &[u8], allow_bad: bool) -> (FlowBuilder<'a>, Process<'a, P1>, Process<'a, P2>, Built) {
    let mut flow = FlowBuilder::new();
    let p1 = flow.process::<P1>();
    let p2 = flow.process::<P2>();
    let built = build(&p1, &p2, tape, allow_bad);
    (flow, p1, p2, built)
}
