//! `hydro_std` quorum / request-response helpers wired to embedded inputs and outputs (C39).
use hydro_lang::live_collections::stream::NoOrder;
use hydro_lang::prelude::*;

use crate::payload::P1;

/// `collect_quorum` with compile-time `min` / `max`
pub fn quorum<'a>(p: &Process<'a, P1>, min: usize, max: usize) {
    let responses = p.embedded_input::<(u32, Result<(), u32>)>("input");
    let (keys, errs) = hydro_std::quorum::collect_quorum(responses, min, max);
    keys.assume_ordering(nondet!(/** outputs are sorted per tick by the harness */))
        .embedded_output("quorum");
    errs.embedded_output("errors");
}

/// `collect_quorum_with_response` with compile-time `min` / `max`
pub fn quorum_with_response<'a>(p: &Process<'a, P1>, min: usize, max: usize) {
    let responses = p.embedded_input::<(u32, Result<u32, u32>)>("input");
    let (vals, errs) = hydro_std::quorum::collect_quorum_with_response(responses, min, max);
    vals.embedded_output("quorum");
    errs.embedded_output("errors");
}

/// `join_responses`, metadata entering through an atomic batch as in the crate's own tests
pub fn join<'a>(p: &Process<'a, P1>) {
    let responses = p.embedded_input::<(u32, u32)>("responses").weaken_ordering::<NoOrder>();
    let meta_processing = p.embedded_input::<(u32, u32)>("meta").atomic();
    let metadata = meta_processing
        .batch_atomic(&p.tick(), nondet!(/** the harness chooses the batches */))
        .weaken_ordering();
    hydro_std::request_response::join_responses(responses, metadata)
        .assume_ordering(nondet!(/** outputs are sorted per tick by the harness */))
        .embedded_output("joined");
}
