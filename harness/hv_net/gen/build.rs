//! Compiles the flows of `hv_net_flows` with the production Hydro code generator
//! (`generate_embedded`), one Rust source file per flow, included by `src/gen.rs`.
use hydro_lang::compile::builder::FlowBuilder;

fn write(out_dir: &str, name: &str, code: syn::File) {
    std::fs::write(format!("{out_dir}/{name}.rs"), prettyplease::unparse(&code)).unwrap();
}

macro_rules! c35 {
    ($out:expr, $t:ident, $lt:ident) => {{
        use hv_net_flows::payload::$t;
        {
            let mut flow = FlowBuilder::new();
            let a = flow.process();
            let b = flow.process();
            hv_net_flows::c35::o2o::<$t>(&a, &b);
            write($out, concat!("o2o_", stringify!($lt)), flow.with_process(&a, "snd").with_process(&b, "rcv").generate_embedded("hv_net_flows"));
        }
        {
            let mut flow = FlowBuilder::new();
            let a = flow.cluster();
            let b = flow.cluster();
            hv_net_flows::c35::m2m::<$t>(&a, &b);
            write($out, concat!("m2m_", stringify!($lt)), flow.with_cluster(&a, "snd").with_cluster(&b, "rcv").generate_embedded("hv_net_flows"));
        }
        {
            let mut flow = FlowBuilder::new();
            let a = flow.process();
            let b = flow.cluster();
            hv_net_flows::c35::o2m::<$t>(&a, &b);
            write($out, concat!("o2m_", stringify!($lt)), flow.with_process(&a, "snd").with_cluster(&b, "rcv").generate_embedded("hv_net_flows"));
        }
        {
            let mut flow = FlowBuilder::new();
            let a = flow.cluster();
            let b = flow.process();
            hv_net_flows::c35::m2o::<$t>(&a, &b);
            write($out, concat!("m2o_", stringify!($lt)), flow.with_cluster(&a, "snd").with_process(&b, "rcv").generate_embedded("hv_net_flows"));
        }
    }};
}

const QUORUMS: &[(usize, usize)] = &[(1, 1), (2, 2), (3, 3), (1, 2), (1, 3), (2, 3), (2, 4), (3, 5)];

fn c39(out: &str) {
    for &(min, max) in QUORUMS {
        {
            let mut flow = FlowBuilder::new();
            let p = flow.process();
            hv_net_flows::c39::quorum(&p, min, max);
            write(out, &format!("q_{min}_{max}"), flow.with_process(&p, "run").generate_embedded("hv_net_flows"));
        }
        {
            let mut flow = FlowBuilder::new();
            let p = flow.process();
            hv_net_flows::c39::quorum_with_response(&p, min, max);
            write(out, &format!("w_{min}_{max}"), flow.with_process(&p, "run").generate_embedded("hv_net_flows"));
        }
    }
    let mut flow = FlowBuilder::new();
    let p = flow.process();
    hv_net_flows::c39::join(&p);
    write(out, "join", flow.with_process(&p, "run").generate_embedded("hv_net_flows"));
}

/// SplitMix64, as in hv_common
fn next(s: &mut u64) -> u64 {
    *s = s.wrapping_add(0x9E37_79B9_7F4A_7C15);
    let mut z = *s;
    z = (z ^ (z >> 30)).wrapping_mul(0xBF58_476D_1CE4_E5B9);
    z = (z ^ (z >> 27)).wrapping_mul(0x94D0_49BB_1331_11EB);
    z ^ (z >> 31)
}

/// C41: a fixed sample of generated programs goes through the production builder here and
/// through rustc when the harness crate is compiled ("the generated Rust compiles").
fn c41(out: &str) {
    const N: usize = 24;
    let mut all = String::new();
    let mut failures = String::new();
    let mut st = 0x4134_1u64;
    for i in 0..N {
        let len = 6 + (next(&mut st) % 50) as usize;
        let tape: Vec<u8> = (0..len).map(|_| (next(&mut st) % 256) as u8).collect();
        let hex: String = tape.iter().map(|b| format!("{b:02x}")).collect();
        // a program the production builder cannot compile must not break the harness build: it is
        // reported (with its tape) by `hv_net c41` as a failing input
        let res = std::panic::catch_unwind(|| {
            let (flow, p1, p2, _built) = hv_net_flows::c41::make(&tape, false);
            flow.with_process(&p1, "p1").with_process(&p2, "p2").generate_embedded("hv_net_flows")
        });
        match res {
            Ok(code) => {
                write(out, &format!("c41_{i}"), code);
                all.push_str(&format!("pub mod f{i} {{\n    include!(concat!(env!(\"OUT_DIR\"), \"/c41_{i}.rs\"));\n}}\n"));
            }
            Err(e) => {
                let msg = e.downcast_ref::<String>().cloned().or_else(|| e.downcast_ref::<&str>().map(|s| s.to_string())).unwrap_or_default();
                failures.push_str(&format!("({hex:?}, {:?}), ", msg.chars().take(300).collect::<String>()));
            }
        }
    }
    all.push_str(&format!("pub const BUILD_FAILURES: &[(&str, &str)] = &[{failures}];\n"));
    all.push_str(&format!("pub const SAMPLE: usize = {N};\n"));
    std::fs::write(format!("{out}/c41_all.rs"), all).unwrap();
}

fn main() {
    println!("cargo::rerun-if-changed=build.rs");
    let out_dir = std::env::var("OUT_DIR").unwrap();
    let out = out_dir.as_str();
    c39(out);
    c41(out);
    c35!(out, T0, t0);
    c35!(out, T1, t1);
    c35!(out, T2, t2);
    c35!(out, T3, t3);
    c35!(out, T4, t4);
    c35!(out, T5, t5);
    c35!(out, T6, t6);
    c35!(out, T7, t7);
    c35!(out, T8, t8);
    c35!(out, T9, t9);
    c35!(out, T10, t10);
    c35!(out, T11, t11);
}
