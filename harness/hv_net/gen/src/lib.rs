//! The flows of `hv_net_flows` as emitted by the production Hydro code generator (build.rs).
#[allow(unused_imports, unused_qualifications, missing_docs, non_snake_case, unused, clippy::all)]
pub mod gen_c35 {
    pub mod o2o_t0 {
        include!(concat!(env!("OUT_DIR"), "/o2o_t0.rs"));
    }
    pub mod m2m_t0 {
        include!(concat!(env!("OUT_DIR"), "/m2m_t0.rs"));
    }
    pub mod o2m_t0 {
        include!(concat!(env!("OUT_DIR"), "/o2m_t0.rs"));
    }
    pub mod m2o_t0 {
        include!(concat!(env!("OUT_DIR"), "/m2o_t0.rs"));
    }
    pub mod o2o_t1 {
        include!(concat!(env!("OUT_DIR"), "/o2o_t1.rs"));
    }
    pub mod m2m_t1 {
        include!(concat!(env!("OUT_DIR"), "/m2m_t1.rs"));
    }
    pub mod o2m_t1 {
        include!(concat!(env!("OUT_DIR"), "/o2m_t1.rs"));
    }
    pub mod m2o_t1 {
        include!(concat!(env!("OUT_DIR"), "/m2o_t1.rs"));
    }
    pub mod o2o_t2 {
        include!(concat!(env!("OUT_DIR"), "/o2o_t2.rs"));
    }
    pub mod m2m_t2 {
        include!(concat!(env!("OUT_DIR"), "/m2m_t2.rs"));
    }
    pub mod o2m_t2 {
        include!(concat!(env!("OUT_DIR"), "/o2m_t2.rs"));
    }
    pub mod m2o_t2 {
        include!(concat!(env!("OUT_DIR"), "/m2o_t2.rs"));
    }
    pub mod o2o_t3 {
        include!(concat!(env!("OUT_DIR"), "/o2o_t3.rs"));
    }
    pub mod m2m_t3 {
        include!(concat!(env!("OUT_DIR"), "/m2m_t3.rs"));
    }
    pub mod o2m_t3 {
        include!(concat!(env!("OUT_DIR"), "/o2m_t3.rs"));
    }
    pub mod m2o_t3 {
        include!(concat!(env!("OUT_DIR"), "/m2o_t3.rs"));
    }
    pub mod o2o_t4 {
        include!(concat!(env!("OUT_DIR"), "/o2o_t4.rs"));
    }
    pub mod m2m_t4 {
        include!(concat!(env!("OUT_DIR"), "/m2m_t4.rs"));
    }
    pub mod o2m_t4 {
        include!(concat!(env!("OUT_DIR"), "/o2m_t4.rs"));
    }
    pub mod m2o_t4 {
        include!(concat!(env!("OUT_DIR"), "/m2o_t4.rs"));
    }
    pub mod o2o_t5 {
        include!(concat!(env!("OUT_DIR"), "/o2o_t5.rs"));
    }
    pub mod m2m_t5 {
        include!(concat!(env!("OUT_DIR"), "/m2m_t5.rs"));
    }
    pub mod o2m_t5 {
        include!(concat!(env!("OUT_DIR"), "/o2m_t5.rs"));
    }
    pub mod m2o_t5 {
        include!(concat!(env!("OUT_DIR"), "/m2o_t5.rs"));
    }
    pub mod o2o_t6 {
        include!(concat!(env!("OUT_DIR"), "/o2o_t6.rs"));
    }
    pub mod m2m_t6 {
        include!(concat!(env!("OUT_DIR"), "/m2m_t6.rs"));
    }
    pub mod o2m_t6 {
        include!(concat!(env!("OUT_DIR"), "/o2m_t6.rs"));
    }
    pub mod m2o_t6 {
        include!(concat!(env!("OUT_DIR"), "/m2o_t6.rs"));
    }
    pub mod o2o_t7 {
        include!(concat!(env!("OUT_DIR"), "/o2o_t7.rs"));
    }
    pub mod m2m_t7 {
        include!(concat!(env!("OUT_DIR"), "/m2m_t7.rs"));
    }
    pub mod o2m_t7 {
        include!(concat!(env!("OUT_DIR"), "/o2m_t7.rs"));
    }
    pub mod m2o_t7 {
        include!(concat!(env!("OUT_DIR"), "/m2o_t7.rs"));
    }
    pub mod o2o_t8 {
        include!(concat!(env!("OUT_DIR"), "/o2o_t8.rs"));
    }
    pub mod m2m_t8 {
        include!(concat!(env!("OUT_DIR"), "/m2m_t8.rs"));
    }
    pub mod o2m_t8 {
        include!(concat!(env!("OUT_DIR"), "/o2m_t8.rs"));
    }
    pub mod m2o_t8 {
        include!(concat!(env!("OUT_DIR"), "/m2o_t8.rs"));
    }
    pub mod o2o_t9 {
        include!(concat!(env!("OUT_DIR"), "/o2o_t9.rs"));
    }
    pub mod m2m_t9 {
        include!(concat!(env!("OUT_DIR"), "/m2m_t9.rs"));
    }
    pub mod o2m_t9 {
        include!(concat!(env!("OUT_DIR"), "/o2m_t9.rs"));
    }
    pub mod m2o_t9 {
        include!(concat!(env!("OUT_DIR"), "/m2o_t9.rs"));
    }
    pub mod o2o_t10 {
        include!(concat!(env!("OUT_DIR"), "/o2o_t10.rs"));
    }
    pub mod m2m_t10 {
        include!(concat!(env!("OUT_DIR"), "/m2m_t10.rs"));
    }
    pub mod o2m_t10 {
        include!(concat!(env!("OUT_DIR"), "/o2m_t10.rs"));
    }
    pub mod m2o_t10 {
        include!(concat!(env!("OUT_DIR"), "/m2o_t10.rs"));
    }
    pub mod o2o_t11 {
        include!(concat!(env!("OUT_DIR"), "/o2o_t11.rs"));
    }
    pub mod m2m_t11 {
        include!(concat!(env!("OUT_DIR"), "/m2m_t11.rs"));
    }
    pub mod o2m_t11 {
        include!(concat!(env!("OUT_DIR"), "/o2m_t11.rs"));
    }
    pub mod m2o_t11 {
        include!(concat!(env!("OUT_DIR"), "/m2o_t11.rs"));
    }
}

#[allow(unused_imports, unused_qualifications, missing_docs, non_snake_case, unused, clippy::all)]
pub mod gen_c39 {
    pub mod q_1_1 {
        include!(concat!(env!("OUT_DIR"), "/q_1_1.rs"));
    }
    pub mod q_2_2 {
        include!(concat!(env!("OUT_DIR"), "/q_2_2.rs"));
    }
    pub mod q_3_3 {
        include!(concat!(env!("OUT_DIR"), "/q_3_3.rs"));
    }
    pub mod q_1_2 {
        include!(concat!(env!("OUT_DIR"), "/q_1_2.rs"));
    }
    pub mod q_1_3 {
        include!(concat!(env!("OUT_DIR"), "/q_1_3.rs"));
    }
    pub mod q_2_3 {
        include!(concat!(env!("OUT_DIR"), "/q_2_3.rs"));
    }
    pub mod q_2_4 {
        include!(concat!(env!("OUT_DIR"), "/q_2_4.rs"));
    }
    pub mod q_3_5 {
        include!(concat!(env!("OUT_DIR"), "/q_3_5.rs"));
    }
    pub mod w_1_1 {
        include!(concat!(env!("OUT_DIR"), "/w_1_1.rs"));
    }
    pub mod w_2_2 {
        include!(concat!(env!("OUT_DIR"), "/w_2_2.rs"));
    }
    pub mod w_3_3 {
        include!(concat!(env!("OUT_DIR"), "/w_3_3.rs"));
    }
    pub mod w_1_2 {
        include!(concat!(env!("OUT_DIR"), "/w_1_2.rs"));
    }
    pub mod w_1_3 {
        include!(concat!(env!("OUT_DIR"), "/w_1_3.rs"));
    }
    pub mod w_2_3 {
        include!(concat!(env!("OUT_DIR"), "/w_2_3.rs"));
    }
    pub mod w_2_4 {
        include!(concat!(env!("OUT_DIR"), "/w_2_4.rs"));
    }
    pub mod w_3_5 {
        include!(concat!(env!("OUT_DIR"), "/w_3_5.rs"));
    }
    pub mod join {
        include!(concat!(env!("OUT_DIR"), "/join.rs"));
    }
}

/// C41: a fixed sample of generated programs, compiled by rustc as part of this crate
#[allow(unused_imports, unused_qualifications, missing_docs, non_snake_case, unused, clippy::all)]
pub mod gen_c41 {
    include!(concat!(env!("OUT_DIR"), "/c41_all.rs"));
}

