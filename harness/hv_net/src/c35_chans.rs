chan!(Ch0, T0, "t0", o2o_t0, m2m_t0, o2m_t0, m2o_t0);
chan!(Ch1, T1, "t1", o2o_t1, m2m_t1, o2m_t1, m2o_t1);
chan!(Ch2, T2, "t2", o2o_t2, m2m_t2, o2m_t2, m2o_t2);
chan!(Ch3, T3, "t3", o2o_t3, m2m_t3, o2m_t3, m2o_t3);
chan!(Ch4, T4, "t4", o2o_t4, m2m_t4, o2m_t4, m2o_t4);
chan!(Ch5, T5, "t5", o2o_t5, m2m_t5, o2m_t5, m2o_t5);
chan!(Ch6, T6, "t6", o2o_t6, m2m_t6, o2m_t6, m2o_t6);
chan!(Ch7, T7, "t7", o2o_t7, m2m_t7, o2m_t7, m2o_t7);
chan!(Ch8, T8, "t8", o2o_t8, m2m_t8, o2m_t8, m2o_t8);
chan!(Ch9, T9, "t9", o2o_t9, m2m_t9, o2m_t9, m2o_t9);
chan!(Ch10, T10, "t10", o2o_t10, m2m_t10, o2m_t10, m2o_t10);
chan!(Ch11, T11, "t11", o2o_t11, m2m_t11, o2m_t11, m2o_t11);
pub fn chans() -> Vec<&'static dyn Chan> {
    vec![&Ch0, &Ch1, &Ch2, &Ch3, &Ch4, &Ch5, &Ch6, &Ch7, &Ch8, &Ch9, &Ch10, &Ch11]
}
