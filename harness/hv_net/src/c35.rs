//! C35 harness: drives the send / receive closures that the production Hydro code generator
//! emitted (build.rs -> `generate_embedded`) for the payload types of `hv_net_flows::payload`,
//! wires cluster sends through the real `sinktools::demux_map`, and writes the transcript for
//! the Lean driver plus the property oracle.
use std::cell::RefCell;
use std::collections::HashMap;
use std::panic::AssertUnwindSafe;
use std::pin::Pin;
use std::rc::Rc;
use std::task::{Context, Poll};

use dfir_rs::bytes::{Bytes, BytesMut};
use futures::Sink;
use futures::stream;
use hv_common::{Args, Recorder, Rng, catch};
use hv_net_flows::payload::*;
use hydro_lang::location::MemberId;
use hydro_lang::location::member_id::TaglessMemberId;

use crate::val::*;

pub fn run_tick(flow: &mut dfir_rs::scheduled::context::Dfir<impl dfir_rs::scheduled::context::TickClosure>) {
    let rt = tokio::runtime::Builder::new_current_thread().build().unwrap();
    rt.block_on(tokio::task::LocalSet::new().run_until(flow.run_tick()));
}

/// One payload type with its four generated flows.
pub trait Chan {
    fn name(&self) -> &'static str;
    fn ty(&self) -> Ty;
    /// `None`: the value is not of this type (bad-op)
    fn enc(&self, v: &Val) -> Option<Result<Vec<u8>, String>>;
    fn dec(&self, b: &[u8]) -> Result<Val, String>;
    fn reference_bytes(&self, v: &Val) -> Option<Vec<u8>>;
    fn m2m(&self, members: u32, sender: u32, items: &[(u32, Val)]) -> Option<Result<Vec<Vec<(u32, Val)>>, String>>;
    fn o2m(&self, members: u32, items: &[(u32, Val)]) -> Option<Result<Vec<Vec<Val>>, String>>;
    fn m2o(&self, sender: u32, vals: &[Val]) -> Option<Result<Vec<(u32, Val)>, String>>;
}

type Bufs = Vec<Rc<RefCell<Vec<Bytes>>>>;

/// the transport of a cluster-addressed channel: one sink per member behind `sinktools::demux_map`
fn demux_transport(members: u32) -> (Bufs, impl FnMut((TaglessMemberId, Bytes))) {
    let bufs: Bufs = (0..members).map(|_| Rc::new(RefCell::new(Vec::new()))).collect();
    let mut sinks = HashMap::new();
    for m in 0..members {
        let b = bufs[m as usize].clone();
        sinks.insert(TaglessMemberId::from_raw_id(m), sinktools::for_each(move |x: Bytes| b.borrow_mut().push(x)));
    }
    let mut demux = sinktools::demux_map(sinks);
    let waker = futures::task::noop_waker();
    let f = move |item: (TaglessMemberId, Bytes)| {
        let mut cx = Context::from_waker(&waker);
        match Pin::new(&mut demux).poll_ready(&mut cx) {
            Poll::Ready(Ok(())) => {}
            _ => panic!("demux not ready"),
        }
        Pin::new(&mut demux).start_send(item).unwrap();
        let _ = Pin::new(&mut demux).poll_flush(&mut cx);
    };
    (bufs, f)
}

macro_rules! chan {
    ($name:ident, $t:ty, $lbl:expr, $o2o:ident, $m2m:ident, $o2m:ident, $m2o:ident) => {
        pub struct $name;
        impl Chan for $name {
            fn name(&self) -> &'static str {
                $lbl
            }
            fn ty(&self) -> Ty {
                <$t as Payload>::ty()
            }
            fn reference_bytes(&self, v: &Val) -> Option<Vec<u8>> {
                let x = <$t as Payload>::from_val(v)?;
                Some(bincode::serialize(&x).unwrap())
            }
            fn enc(&self, v: &Val) -> Option<Result<Vec<u8>, String>> {
                let x = <$t as Payload>::from_val(v)?;
                Some(catch(AssertUnwindSafe(move || {
                    let mut out: Vec<Bytes> = vec![];
                    {
                        let mut net_out = hv_net_gen::gen_c35::$o2o::snd::EmbeddedNetworkOut { ch: |b: Bytes| out.push(b) };
                        let mut flow = hv_net_gen::gen_c35::$o2o::snd(stream::iter(vec![x]), &mut net_out);
                        run_tick(&mut flow);
                    }
                    assert_eq!(out.len(), 1, "one message per item");
                    out[0].to_vec()
                })))
            }
            fn dec(&self, b: &[u8]) -> Result<Val, String> {
                let b = b.to_vec();
                catch(AssertUnwindSafe(move || {
                    let mut got: Vec<$t> = vec![];
                    {
                        let net_in = hv_net_gen::gen_c35::$o2o::rcv::EmbeddedNetworkIn {
                            ch: stream::iter(vec![Ok::<_, std::io::Error>(BytesMut::from(&b[..]))]),
                        };
                        let mut outputs = hv_net_gen::gen_c35::$o2o::rcv::EmbeddedOutputs { output: |x: $t| got.push(x) };
                        let mut flow = hv_net_gen::gen_c35::$o2o::rcv(&mut outputs, net_in);
                        run_tick(&mut flow);
                    }
                    assert_eq!(got.len(), 1, "one value per message");
                    got[0].to_val()
                }))
            }
            fn m2m(&self, members: u32, sender: u32, items: &[(u32, Val)]) -> Option<Result<Vec<Vec<(u32, Val)>>, String>> {
                let xs: Vec<(MemberId<C2>, $t)> = items
                    .iter()
                    .map(|(d, v)| Some((MemberId::from_raw_id(*d), <$t as Payload>::from_val(v)?)))
                    .collect::<Option<_>>()?;
                Some(catch(AssertUnwindSafe(move || {
                    let sid = TaglessMemberId::from_raw_id(sender);
                    let (bufs, f) = demux_transport(members);
                    {
                        let mut net_out = hv_net_gen::gen_c35::$m2m::snd::EmbeddedNetworkOut { ch: f };
                        let mut flow = hv_net_gen::gen_c35::$m2m::snd(&sid, stream::iter(xs), &mut net_out);
                        run_tick(&mut flow);
                    }
                    let mut res = vec![];
                    for m in 0..members {
                        let me = TaglessMemberId::from_raw_id(m);
                        let msgs: Vec<_> = bufs[m as usize]
                            .borrow()
                            .iter()
                            .map(|b| Ok::<_, std::io::Error>((sid.clone(), BytesMut::from(b.as_ref()))))
                            .collect();
                        let mut got: Vec<(MemberId<C1>, $t)> = vec![];
                        {
                            let net_in = hv_net_gen::gen_c35::$m2m::rcv::EmbeddedNetworkIn { ch: stream::iter(msgs) };
                            let mut outputs = hv_net_gen::gen_c35::$m2m::rcv::EmbeddedOutputs { output: |x| got.push(x) };
                            let mut flow = hv_net_gen::gen_c35::$m2m::rcv(&me, &mut outputs, net_in);
                            run_tick(&mut flow);
                        }
                        res.push(got.into_iter().map(|(s, x)| (s.get_raw_id(), x.to_val())).collect());
                    }
                    res
                })))
            }
            fn o2m(&self, members: u32, items: &[(u32, Val)]) -> Option<Result<Vec<Vec<Val>>, String>> {
                let xs: Vec<(MemberId<C2>, $t)> = items
                    .iter()
                    .map(|(d, v)| Some((MemberId::from_raw_id(*d), <$t as Payload>::from_val(v)?)))
                    .collect::<Option<_>>()?;
                Some(catch(AssertUnwindSafe(move || {
                    let (bufs, f) = demux_transport(members);
                    {
                        let mut net_out = hv_net_gen::gen_c35::$o2m::snd::EmbeddedNetworkOut { ch: f };
                        let mut flow = hv_net_gen::gen_c35::$o2m::snd(stream::iter(xs), &mut net_out);
                        run_tick(&mut flow);
                    }
                    let mut res = vec![];
                    for m in 0..members {
                        let me = TaglessMemberId::from_raw_id(m);
                        let msgs: Vec<_> = bufs[m as usize]
                            .borrow()
                            .iter()
                            .map(|b| Ok::<_, std::io::Error>(BytesMut::from(b.as_ref())))
                            .collect();
                        let mut got: Vec<$t> = vec![];
                        {
                            let net_in = hv_net_gen::gen_c35::$o2m::rcv::EmbeddedNetworkIn { ch: stream::iter(msgs) };
                            let mut outputs = hv_net_gen::gen_c35::$o2m::rcv::EmbeddedOutputs { output: |x| got.push(x) };
                            let mut flow = hv_net_gen::gen_c35::$o2m::rcv(&me, &mut outputs, net_in);
                            run_tick(&mut flow);
                        }
                        res.push(got.into_iter().map(|x| x.to_val()).collect());
                    }
                    res
                })))
            }
            fn m2o(&self, sender: u32, vals: &[Val]) -> Option<Result<Vec<(u32, Val)>, String>> {
                let xs: Vec<$t> = vals.iter().map(<$t as Payload>::from_val).collect::<Option<_>>()?;
                Some(catch(AssertUnwindSafe(move || {
                    let sid = TaglessMemberId::from_raw_id(sender);
                    let mut wire: Vec<Bytes> = vec![];
                    {
                        let mut net_out = hv_net_gen::gen_c35::$m2o::snd::EmbeddedNetworkOut { ch: |b: Bytes| wire.push(b) };
                        let mut flow = hv_net_gen::gen_c35::$m2o::snd(&sid, stream::iter(xs), &mut net_out);
                        run_tick(&mut flow);
                    }
                    let msgs: Vec<_> = wire
                        .iter()
                        .map(|b| Ok::<_, std::io::Error>((sid.clone(), BytesMut::from(b.as_ref()))))
                        .collect();
                    let mut got: Vec<(MemberId<C1>, $t)> = vec![];
                    {
                        let net_in = hv_net_gen::gen_c35::$m2o::rcv::EmbeddedNetworkIn { ch: stream::iter(msgs) };
                        let mut outputs = hv_net_gen::gen_c35::$m2o::rcv::EmbeddedOutputs { output: |x| got.push(x) };
                        let mut flow = hv_net_gen::gen_c35::$m2o::rcv(&mut outputs, net_in);
                        run_tick(&mut flow);
                    }
                    got.into_iter().map(|(s, x)| (s.get_raw_id(), x.to_val())).collect()
                })))
            }
        }
    };
}

include!("c35_chans.rs");

fn chan_by_name(n: &str) -> Option<&'static dyn Chan> {
    chans().into_iter().find(|c| c.name() == n)
}

fn show_list(xs: Vec<String>) -> String {
    if xs.is_empty() { "-".into() } else { xs.join("|") }
}
fn show_tagged(l: &[(u32, Val)]) -> String {
    show_list(l.iter().map(|(s, v)| format!("{s}@{}", show_val(v))).collect())
}
fn parse_item(w: &str) -> Option<(u32, Val)> {
    let (d, v) = w.split_once('@')?;
    Some((d.parse().ok()?, parse_val(v)?))
}

struct Case<'a> {
    chan: &'a dyn Chan,
    members: u32,
}

/// execute one op line on the real code; returns the canonical answer
fn exec(c: &Case, line: &str, rec: &mut Recorder) -> String {
    let ws: Vec<&str> = line.split(' ').collect();
    let bad = "bad-op".to_string();
    match ws.as_slice() {
        ["enc", v] => {
            let Some(v) = parse_val(v) else { return bad };
            match c.chan.enc(&v) {
                None => bad,
                Some(Err(e)) => {
                    rec.check(false, "send-closure-panicked", &e);
                    "panic".into()
                }
                Some(Ok(bytes)) => {
                    rec.count("enc");
                    // oracle: the receive closure reconstructs the exact value from what the send closure produced
                    let back = c.chan.dec(&bytes);
                    rec.check(back.as_ref().ok() == Some(&v), "o2o-roundtrip-value-differs", &format!("ty={} sent={} got={:?}", c.chan.name(), show_val(&v), back.map(|x| show_val(&x))));
                    // and the closure uses the plain bincode configuration
                    let lib = c.chan.reference_bytes(&v).unwrap();
                    rec.check(lib == bytes, "send-closure-bytes-differ-from-bincode-serialize", &format!("ty={} v={}", c.chan.name(), show_val(&v)));
                    hex(&bytes)
                }
            }
        }
        ["big", cv] => {
            // a large value given by its compact description: through the real send closure, then the plain receive
            // closure (o2o), the member-id tagged receive closure (m2o) and the demux send closure + `demux_map` +
            // tagged receive closure (m2m).  The answer carries length and checksum of the bytes instead of the bytes.
            let Some(v) = parse_cval(cv) else { return bad };
            match c.chan.enc(&v) {
                None => bad,
                Some(Err(e)) => {
                    rec.check(false, "send-closure-panicked", &e);
                    "panic".into()
                }
                Some(Ok(bytes)) => {
                    rec.count("big");
                    rec.count(match bytes.len() {
                        0..=65535 => "big-le-64KiB",
                        65536..=131071 => "big-64KiB-128KiB",
                        131072..=1048575 => "big-128KiB-1MiB",
                        _ => "big-ge-1MiB",
                    });
                    let what = format!("ty={} encoded-bytes={} value={}", c.chan.name(), bytes.len(), &cv[..cv.len().min(80)]);
                    let lib = c.chan.reference_bytes(&v).unwrap();
                    rec.check(lib == bytes, "send-closure-bytes-differ-from-bincode-serialize", &what);
                    let o2o = match c.chan.dec(&bytes) {
                        Ok(back) if back == v => "ok".to_string(),
                        Ok(_) => "differs".into(),
                        Err(e) => format!("recv-panic[{}]", short(&e)),
                    };
                    rec.check(o2o == "ok", "large-payload-o2o-receiver-does-not-reconstruct-the-value", &format!("{what} -> {o2o}"));
                    let sender = 3;
                    let m2o = match c.chan.m2o(sender, std::slice::from_ref(&v)) {
                        Some(Ok(res)) if res.len() == 1 && res[0].0 == sender && res[0].1 == v => "ok".to_string(),
                        Some(Ok(_)) => "differs".into(),
                        Some(Err(e)) => format!("panic[{}]", short(&e)),
                        None => "bad".into(),
                    };
                    rec.check(m2o == "ok", "large-payload-m2o-receiver-does-not-reconstruct-the-tagged-value", &format!("{what} -> {m2o}"));
                    let m2m = match c.chan.m2m(2, sender, &[(1, v.clone())]) {
                        Some(Ok(res)) if res.len() == 2 && res[0].is_empty() && res[1].len() == 1 && res[1][0].0 == sender && res[1][0].1 == v => "ok".to_string(),
                        Some(Ok(_)) => "differs".into(),
                        Some(Err(e)) => format!("panic[{}]", short(&e)),
                        None => "bad".into(),
                    };
                    rec.check(m2m == "ok", "large-payload-m2m-addressed-member-does-not-get-the-tagged-value", &format!("{what} -> {m2m}"));
                    format!("len={} ck={} o2o={o2o} m2o={m2o} m2m={m2m}", bytes.len(), ck(&bytes))
                }
            }
        }
        ["dec", h] => {
            let Some(b) = unhex(h) else { return bad };
            match c.chan.dec(&b) {
                Ok(v) => {
                    rec.count("dec-ok");
                    show_val(&v)
                }
                Err(_) => {
                    rec.count("dec-err");
                    "err".into()
                }
            }
        }
        ["m2m", s, items @ ..] => {
            let Ok(s) = s.parse::<u32>() else { return bad };
            let Some(items) = items.iter().map(|w| parse_item(w)).collect::<Option<Vec<_>>>() else { return bad };
            match c.chan.m2m(c.members, s, &items) {
                None => bad,
                Some(Err(e)) => {
                    let missing = items.iter().any(|(d, _)| *d >= c.members);
                    rec.check(missing && e.contains("missing key"), "m2m-panicked", &e);
                    rec.count("m2m-panic");
                    "panic".into()
                }
                Some(Ok(res)) => {
                    rec.count("m2m");
                    // oracle: every member got exactly the values addressed to it, in order, tagged with the sender
                    for m in 0..c.members {
                        let want: Vec<(u32, Val)> = items.iter().filter(|(d, _)| *d == m).map(|(_, v)| (s, v.clone())).collect();
                        rec.check(res[m as usize] == want, "m2m-member-did-not-get-exactly-its-messages", &format!("ty={} member={m} want={} got={}", c.chan.name(), show_tagged(&want), show_tagged(&res[m as usize])));
                    }
                    (0..c.members).map(|m| format!("{m}={}", show_tagged(&res[m as usize]))).collect::<Vec<_>>().join(" ")
                }
            }
        }
        ["o2m", items @ ..] => {
            let Some(items) = items.iter().map(|w| parse_item(w)).collect::<Option<Vec<_>>>() else { return bad };
            match c.chan.o2m(c.members, &items) {
                None => bad,
                Some(Err(e)) => {
                    let missing = items.iter().any(|(d, _)| *d >= c.members);
                    rec.check(missing && e.contains("missing key"), "o2m-panicked", &e);
                    rec.count("o2m-panic");
                    "panic".into()
                }
                Some(Ok(res)) => {
                    rec.count("o2m");
                    for m in 0..c.members {
                        let want: Vec<Val> = items.iter().filter(|(d, _)| *d == m).map(|(_, v)| v.clone()).collect();
                        rec.check(res[m as usize] == want, "o2m-member-did-not-get-exactly-its-messages", &format!("ty={} member={m}", c.chan.name()));
                    }
                    (0..c.members)
                        .map(|m| format!("{m}={}", show_list(res[m as usize].iter().map(show_val).collect())))
                        .collect::<Vec<_>>()
                        .join(" ")
                }
            }
        }
        ["m2o", s, vals @ ..] => {
            let Ok(s) = s.parse::<u32>() else { return bad };
            let Some(vals) = vals.iter().map(|w| parse_val(w)).collect::<Option<Vec<_>>>() else { return bad };
            match c.chan.m2o(s, &vals) {
                None => bad,
                Some(Err(e)) => {
                    rec.check(false, "m2o-panicked", &e);
                    "panic".into()
                }
                Some(Ok(res)) => {
                    rec.count("m2o");
                    let want: Vec<(u32, Val)> = vals.iter().map(|v| (s, v.clone())).collect();
                    rec.check(res == want, "m2o-receiver-did-not-get-sender-tagged-values", &format!("ty={}", c.chan.name()));
                    show_tagged(&res)
                }
            }
        }
        _ => bad,
    }
}

fn mutate(bytes: &[u8], rng: &mut Rng) -> Vec<u8> {
    let mut b = bytes.to_vec();
    match rng.below(6) {
        0 if !b.is_empty() => {
            let n = rng.below(b.len() as u64) as usize;
            b.truncate(n);
        }
        1 if !b.is_empty() => {
            let i = rng.below(b.len() as u64) as usize;
            b[i] ^= 1 << rng.below(8);
        }
        2 if !b.is_empty() => {
            let i = rng.below(b.len() as u64) as usize;
            b[i] = *rng.pick(&[0u8, 1, 2, 0x7f, 0x80, 0xbf, 0xc0, 0xc2, 0xe0, 0xed, 0xf0, 0xf4, 0xf5, 0xff]);
        }
        3 => {
            for _ in 0..rng.range(1, 4) {
                b.push(rng.below(256) as u8);
            }
        }
        4 => {
            b = (0..rng.below(24)).map(|_| rng.below(256) as u8).collect();
        }
        _ if !b.is_empty() => {
            let i = rng.below(b.len() as u64) as usize;
            b.remove(i);
        }
        _ => {}
    }
    b
}

fn gen_case(n: u64, rng: &mut Rng, tier: &str) -> Vec<String> {
    let cs = chans();
    let chan = cs[(n as usize) % cs.len()];
    let members = rng.range(1, 4) as u32;
    let ty = chan.ty();
    let mut lines = vec![format!("#case {n} ty={} members={members} chan={}", show_ty(&ty), chan.name())];
    let size = if tier == "thorough" { rng.range(1, 6) } else { rng.range(1, 4) };
    let nops = rng.range(2, 6);
    for _ in 0..nops {
        match rng.below(10) {
            0..=2 => {
                let v = gen_val(&ty, rng, size);
                lines.push(format!("enc {}", show_val(&v)));
                // decode what the library produces, and a damaged copy
                if let Some(b) = chan.reference_bytes(&v) {
                    match rng.below(3) {
                        0 => lines.push(format!("dec {}", hex(&b))),
                        _ => lines.push(format!("dec {}", hex(&mutate(&b, rng)))),
                    }
                }
            }
            3..=5 => {
                let s = rng.below(5);
                let k = rng.below(5);
                let oob = rng.chance(1, 12);
                let items: Vec<String> = (0..k)
                    .map(|_| {
                        let d = if oob && rng.chance(1, 2) { members as u64 + rng.below(2) } else { rng.below(members as u64) };
                        format!("{d}@{}", show_val(&gen_val(&ty, rng, size)))
                    })
                    .collect();
                lines.push(format!("m2m {s} {}", items.join(" ")).trim_end().to_string());
            }
            6..=7 => {
                let k = rng.below(5);
                let oob = rng.chance(1, 12);
                let items: Vec<String> = (0..k)
                    .map(|_| {
                        let d = if oob && rng.chance(1, 2) { members as u64 + rng.below(2) } else { rng.below(members as u64) };
                        format!("{d}@{}", show_val(&gen_val(&ty, rng, size)))
                    })
                    .collect();
                lines.push(format!("o2m {}", items.join(" ")).trim_end().to_string());
            }
            8 => {
                let s = rng.below(1000);
                let k = rng.below(4);
                let vals: Vec<String> = (0..k).map(|_| show_val(&gen_val(&ty, rng, size))).collect();
                lines.push(format!("m2o {s} {}", vals.join(" ")).trim_end().to_string());
            }
            _ => {
                // malformed stream: values of another type, broken syntax, unknown ops
                let other = cs[rng.below(cs.len() as u64) as usize].ty();
                let v = gen_val(&other, rng, 2);
                match rng.below(4) {
                    0 => lines.push(format!("enc {}", show_val(&v))),
                    1 => lines.push("enc (u4:1".to_string()),
                    2 => lines.push(format!("m2o x {}", show_val(&v))),
                    _ => lines.push("route 1".to_string()),
                }
            }
        }
    }
    lines
}

fn short(e: &str) -> String {
    e.split_whitespace().collect::<Vec<_>>().join("_").chars().take(60).collect()
}

/// sizes (bytes of the encoding) the large-payload cases aim at
fn big_targets(tier: &str) -> Vec<u64> {
    let mut t = vec![65535, 65536, 70 << 10, 200 << 10, 1 << 20];
    if tier == "thorough" {
        t.extend([65537, 128 << 10, 2 << 20, 3 << 20, 4 << 20]);
    }
    t
}

/// channels whose payload type can carry a large value
fn big_chans() -> Vec<&'static dyn Chan> {
    chans().into_iter().filter(|c| has_big(&c.ty())).collect()
}

fn big_case_count(tier: &str) -> u64 {
    (big_chans().len() * big_targets(tier).len()) as u64 * if tier == "thorough" { 3 } else { 1 }
}

/// the `j`-th large-payload case: channel x target size (x repetition), a random spine through the type
fn gen_big_case(n: u64, j: u64, rng: &mut Rng, tier: &str) -> Vec<String> {
    let cs = big_chans();
    let ts = big_targets(tier);
    let chan = cs[(j as usize) % cs.len()];
    let target = ts[(j as usize / cs.len()) % ts.len()];
    let ty = chan.ty();
    let mut lines = vec![format!("#case {n} ty={} members=2 chan={} big={target}", show_ty(&ty), chan.name())];
    for _ in 0..rng.range(1, 2) {
        let Some(spine) = gen_spine(&ty, rng) else { continue };
        // encoded length is affine in the repeat count
        let len_at = |k: u64| parse_cval(&spine.replace("{N}", &k.to_string())).and_then(|v| chan.reference_bytes(&v)).map(|b| b.len() as u64);
        let (Some(l0), Some(l1)) = (len_at(0), len_at(1)) else { continue };
        if l1 <= l0 {
            continue;
        }
        let count = if target > l0 { (target - l0).div_ceil(l1 - l0) } else { 1 };
        lines.push(format!("big {}", spine.replace("{N}", &count.to_string())));
    }
    lines
}

fn run_lines(lines: &[String], rec: &mut Recorder) {
    let mut cur: Option<Case> = None;
    let mut dm: Option<crate::c35_dm::DmCase> = None;
    let cs = chans();
    let mut nontrivial = false;
    for l in lines {
        if let Some(rest) = l.strip_prefix("#case ") {
            if nontrivial {
                rec.nontrivial();
            }
            nontrivial = false;
            let ws: Vec<&str> = rest.split(' ').collect();
            let n: u64 = ws[0].parse().unwrap_or(0);
            rec.case(n, &ws[1..].join(" "));
            let tag = |k: &str| ws.iter().find_map(|w| w.strip_prefix(&format!("{k}=")).map(|s| s.to_string()));
            dm = None;
            if tag("dm").is_some() {
                cur = None;
                dm = crate::c35_dm::DmCase::new(&ws[1..]);
                continue;
            }
            let chan = tag("chan").and_then(|c| chan_by_name(&c)).or_else(|| {
                let t = tag("ty")?;
                cs.iter().copied().find(|c| show_ty(&c.ty()) == t)
            });
            let members = tag("members").and_then(|m| m.parse().ok()).unwrap_or(0);
            cur = chan.map(|chan| Case { chan, members });
            if let Some(c) = &cur {
                // the descriptor on the case line must be the channel's (the model decodes with it)
                let ok = tag("ty").as_deref() == Some(show_ty(&c.chan.ty()).as_str());
                rec.check(ok, "case-descriptor-mismatch", l);
                // member ids round-trip through their untyped form (real `into_tagless` / `from_tagless`)
                let raw = (n as u32).wrapping_mul(2654435761);
                let id: MemberId<C1> = MemberId::from_raw_id(raw);
                let t = id.clone().into_tagless();
                let back: MemberId<C1> = MemberId::from_tagless(t.clone());
                rec.check(back == id && back.get_raw_id() == raw && MemberId::<C2>::from_tagless(t.clone()).into_tagless() == t, "memberid-tagless-roundtrip", &format!("raw={raw}"));
            }
            continue;
        }
        let out = match (&mut dm, &cur) {
            (Some(d), _) => d.exec(l, rec),
            (None, Some(c)) => exec(c, l, rec),
            (None, None) => "bad-op".to_string(),
        };
        if out != "bad-op" && out != "err" {
            nontrivial = true;
        }
        rec.line(l, &out);
    }
    if nontrivial {
        rec.nontrivial();
    }
}

pub fn main(args: &Args) {
    let mut rec = Recorder::new("a case is non-trivial if at least one op went through a generated closure (or, demux cases, through the real DemuxMap) and produced bytes / a value / a delivery / a poll answer");
    if let Some(p) = &args.replay {
        let lines = hv_common::read_lines(p);
        run_lines(&lines, &mut rec);
    } else {
        let base = Rng::new(args.seed);
        for n in 1..=args.cases {
            let mut rng = base.fork(n);
            let lines = gen_case(n, &mut rng, &args.tier);
            run_lines(&lines, &mut rec);
        }
        if args.cases > 0 {
            // large payloads (every channel that can carry one x every target size), then `DemuxMap` under
            // back-pressure (bounded-exhaustive scopes, then random cases)
            let mut n = args.cases;
            for j in 0..big_case_count(&args.tier) {
                n += 1;
                let mut rng = base.fork(n);
                let lines = gen_big_case(n, j, &mut rng, &args.tier);
                run_lines(&lines, &mut rec);
            }
            for j in 0..crate::c35_dm::case_count(&args.tier) {
                n += 1;
                let mut rng = base.fork(n);
                let mut lines = crate::c35_dm::gen_case(j, &mut rng, &args.tier);
                lines[0] = format!("#case {n} {}", lines[0]);
                run_lines(&lines, &mut rec);
            }
        }
    }
    rec.finish(&args.out);
}
