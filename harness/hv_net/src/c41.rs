//! C41 harness: randomly composed Hydro programs (hv_net_flows::c41, driven by a choice tape)
//! are compiled by the production builder (`FlowBuilder` -> `generate_embedded`: IR -> DFIR
//! flat graph -> `partition_graph` -> `as_code`).  For every program the harness
//!   * extracts the abstract IR (nodes, inputs, tees, cycle sinks / sources, DeferTick, network
//!     halves) from the real `HydroRoot` / `HydroNode` tree,
//!   * records the builder's verdict (`accept` / `reject-cycle` / anything else = failure),
//!   * reads the emitted DFIR graph back and projects it onto the IR nodes that own its operators.
//! The Lean model gets the abstract IR and must predict the verdict and the projected edges.
//! A fixed sample of the generated programs is additionally compiled by rustc in build.rs.
//!
//!   #case <n> tape=<hex> bad=<0|1>
//!   ir <node>;<node>;..       node = <id>:<kind>:<loc>:<in>,<in>   -> accept | reject-cycle
//!   edges                     -> `<src>><dst>[d]` sorted, comma separated (`d` = into a defer_tick)
use std::collections::{BTreeMap, BTreeSet};
use std::panic::AssertUnwindSafe;

use hv_common::{Args, Recorder, Rng, catch};
use hydro_lang::compile::embedded::EmbeddedDeploy;
use hydro_lang::compile::ir::{HydroNode, HydroRoot, deep_clone, traverse_dfir};
use hydro_lang::location::dynamic::LocationId;

#[derive(Clone, Debug)]
struct ANode {
    kind: String,
    loc: String,
    inputs: Vec<usize>,
    /// the node lives on a `Tick` location (oracle only; not part of the abstract IR given to the model)
    in_tick: bool,
}

#[derive(Default)]
struct Extract {
    nodes: Vec<ANode>,
    /// varname of the DFIR operators -> abstract node
    owner: BTreeMap<String, usize>,
}

fn in_tick(l: &LocationId) -> bool {
    matches!(l, LocationId::Tick(..) | LocationId::Atomic(..))
}

fn loc_str(l: &LocationId) -> String {
    format!("L{}", l.root().key().to_string().replace(|c: char| !c.is_ascii_alphanumeric(), ""))
}

fn last_stmt<T: hydro_lang::Countable + std::fmt::Display>(c: &hydro_lang::Counter<T>) -> String {
    match c.range_up_to().next_back() {
        Some(id) => format!("{id}"),
        None => "none".into(),
    }
}

/// abstract IR of the real IR: one node per `HydroNode` that the emitter visits with a statement
/// id (tees with one inner share a node; pass-through nodes that get no statement are elided), the
/// network node split into its receive half (a source) and its send half (a root)
fn extract(ir: &[HydroRoot], named: &BTreeSet<String>) -> Extract {
    let mut ir2 = deep_clone(ir);
    // statement ids, from the emitter's own traversal (callback mode, no code emitted): the emitter
    // visits nodes in post-order (shared inner nodes once) and calls back once per visit
    let seq = std::cell::RefCell::new(std::collections::VecDeque::<(String, String)>::new());
    traverse_dfir(
        &mut ir2,
        |_root, _ctr| {},
        |node, ctr| {
            seq.borrow_mut().push_back((node.print_root(), last_stmt(ctr)));
        },
    );
    struct St<'n> {
        ex: Extract,
        tee_of: BTreeMap<usize, usize>,
        seq: std::collections::VecDeque<(String, String)>,
        /// variable names that own at least one operator in the emitted graphs
        named: &'n BTreeSet<String>,
    }
    fn stmt(node: &HydroNode, st: &mut St) -> String {
        let (name, stmt) = st.seq.pop_front().expect("emitter visited fewer nodes than the IR walk");
        assert_eq!(name, node.print_root(), "IR walk out of step with the emitter's traversal");
        stmt
    }
    fn visit(node: &HydroNode, st: &mut St) -> usize {
        let loc = loc_str(&node.metadata().location_id);
        let in_tick = in_tick(&node.metadata().location_id);
        if let HydroNode::Tee { inner, .. } = node {
            let ip = inner.0.as_ref().as_ptr() as usize;
            if let Some(&t) = st.tee_of.get(&ip) {
                let _ = stmt(node, st);
                return t;
            }
            let inner_id = visit(&inner.0.borrow(), st);
            // the `tee()` operator is named after the first wrapper the emitter meets; a tee with a
            // single consumer is removed again (`eliminate_extra_unions_tees`) and is then an alias
            let s = stmt(node, st);
            let id = if st.named.contains(&format!("stream_{s}")) {
                let id = st.ex.nodes.len();
                st.ex.nodes.push(ANode { kind: "t".into(), loc, inputs: vec![inner_id], in_tick });
                st.ex.owner.insert(format!("stream_{s}"), id);
                id
            } else {
                inner_id
            };
            st.tee_of.insert(ip, id);
            return id;
        }
        let inputs: Vec<usize> = node.input().iter().map(|i| visit(i, st)).collect();
        let stmt = stmt(node, st);
        match node {
            HydroNode::Network { input, .. } => {
                st.ex.nodes.push(ANode { kind: "N".into(), loc: loc_str(&input.metadata().location_id), inputs, in_tick: false });
                let id = st.ex.nodes.len();
                st.ex.nodes.push(ANode { kind: "r".into(), loc, inputs: vec![], in_tick: false });
                st.ex.owner.insert(format!("stream_{stmt}"), id);
                id
            }
            _ => {
                let kind = match node {
                    HydroNode::DeferTick { .. } => "d".to_string(),
                    HydroNode::CycleSource { cycle_id, .. } => format!("c{cycle_id}"),
                    _ if inputs.is_empty() => "s".to_string(),
                    _ => "o".to_string(),
                };
                if kind == "o" && inputs.len() == 1 && !st.named.contains(&format!("stream_{stmt}")) {
                    // `out = in;` — the statement only renames its input (Cast, YieldConcat, Batch, ..)
                    return inputs[0];
                }
                let id = st.ex.nodes.len();
                st.ex.nodes.push(ANode { kind, loc, inputs, in_tick });
                st.ex.owner.insert(format!("stream_{stmt}"), id);
                id
            }
        }
    }
    let mut st = St { ex: Extract::default(), tee_of: BTreeMap::new(), seq: seq.into_inner(), named };
    for root in ir2.iter() {
        let input = visit(root.input(), &mut st);
        let loc = loc_str(&root.input().metadata().location_id);
        let in_tick = in_tick(&root.input().metadata().location_id);
        match root {
            HydroRoot::CycleSink { cycle_id, .. } => {
                let id = st.ex.nodes.len();
                st.ex.nodes.push(ANode { kind: format!("C{cycle_id}"), loc, inputs: vec![input], in_tick });
                st.ex.owner.insert(format!("cycle_{cycle_id}"), id);
            }
            _ => {
                st.ex.nodes.push(ANode { kind: "S".into(), loc, inputs: vec![input], in_tick });
            }
        }
    }
    assert!(st.seq.is_empty(), "emitter visited more nodes than the IR walk");
    st.ex
}

fn show_ir(ex: &Extract) -> String {
    ex.nodes
        .iter()
        .enumerate()
        .map(|(i, n)| format!("{i}:{}:{}:{}", n.kind, n.loc, n.inputs.iter().map(|x| x.to_string()).collect::<Vec<_>>().join(",")))
        .collect::<Vec<_>>()
        .join(";")
}

/// which dependency edges of the abstract IR the cycle analysis follows
#[derive(Clone, Copy, PartialEq)]
enum Edges {
    /// same-tick dependencies: everything except the edges into a DeferTick (network halves are
    /// not connected)
    SameTick,
    /// as `SameTick`, but without the `CycleSink -> CycleSource` edge of forward references that
    /// live on a tick location (what is left are cycles closed by top-level forward references only)
    SameTickTopLevelRefsOnly,
    /// every dependency: also the edges into a DeferTick and send half -> receive half of a network
    All,
}

/// independent oracle: does the abstract IR have a dependency cycle along the chosen edges?
fn has_cycle(ex: &Extract, edges: Edges) -> bool {
    let n = ex.nodes.len();
    let mut sink_of: BTreeMap<String, usize> = BTreeMap::new();
    for (i, nd) in ex.nodes.iter().enumerate() {
        if let Some(k) = nd.kind.strip_prefix('C') {
            sink_of.insert(k.to_string(), i);
        }
    }
    let mut succ: Vec<Vec<usize>> = vec![vec![]; n];
    for (i, nd) in ex.nodes.iter().enumerate() {
        if nd.kind != "d" || edges == Edges::All {
            for &x in &nd.inputs {
                succ[x].push(i);
            }
        }
        if let Some(k) = nd.kind.strip_prefix('c') {
            if let Some(&s) = sink_of.get(k) {
                if !(edges == Edges::SameTickTopLevelRefsOnly && nd.in_tick) {
                    succ[s].push(i);
                }
            }
        }
        // the receive half of a network node directly follows its send half
        if edges == Edges::All && nd.kind == "r" && i > 0 && ex.nodes[i - 1].kind == "N" {
            succ[i - 1].push(i);
        }
    }
    // Kahn
    let mut indeg = vec![0usize; n];
    for v in &succ {
        for &w in v {
            indeg[w] += 1;
        }
    }
    let mut stack: Vec<usize> = (0..n).filter(|&i| indeg[i] == 0).collect();
    let mut seen = 0;
    while let Some(u) = stack.pop() {
        seen += 1;
        for &w in &succ[u] {
            indeg[w] -= 1;
            if indeg[w] == 0 {
                stack.push(w);
            }
        }
    }
    seen != n
}

fn parse_hex(s: &str) -> Option<Vec<u8>> {
    if s == "-" {
        return Some(vec![]);
    }
    if s.len() % 2 != 0 {
        return None;
    }
    (0..s.len() / 2).map(|i| u8::from_str_radix(&s[2 * i..2 * i + 2], 16).ok()).collect()
}
fn hex(b: &[u8]) -> String {
    if b.is_empty() { "-".into() } else { b.iter().map(|x| format!("{x:02x}")).collect() }
}

/// the emitted DFIR graphs, read back as plain data
struct GraphData {
    names: Vec<Option<String>>,
    is_defer: Vec<bool>,
    succ: Vec<Vec<usize>>,
}

fn emitted_graphs(tape: &[u8], bad: bool) -> Result<Vec<GraphData>, String> {
    let tape = tape.to_vec();
    catch(AssertUnwindSafe(move || {
        let (flow, p1, p2, _) = hv_net_flows::c41::make(&tape, bad);
        let mut d = flow.finalize().with_process::<_, EmbeddedDeploy>(&p1, "p1").with_process(&p2, "p2");
        let compiled = d.preview_compile();
        let mut res = vec![];
        for (_k, g) in compiled.all_dfir().iter() {
            let g = match g {
                Ok(g) => g,
                Err(e) => &e.flat_graph,
            };
            let ids: Vec<_> = g.node_ids().collect();
            let idx: BTreeMap<_, usize> = ids.iter().enumerate().map(|(i, n)| (*n, i)).collect();
            res.push(GraphData {
                names: ids.iter().map(|n| g.node_varname(*n).map(|v| v.0.to_string())).collect(),
                is_defer: ids.iter().map(|n| g.node(*n).to_pretty_string().starts_with("defer_tick")).collect(),
                succ: ids.iter().map(|n| g.node_successor_nodes(*n).map(|m| idx[&m]).collect()).collect(),
            });
        }
        res
    }))
}

/// project the emitted DFIR graphs onto the owners of their operators
fn projected_edges(graphs: &[GraphData], ex: &Extract) -> Vec<String> {
    let mut out = BTreeSet::new();
    for g in graphs {
        let own = |n: usize| g.names[n].as_ref().and_then(|v| ex.owner.get(v).copied());
        for n in 0..g.names.len() {
            let Some(a) = own(n) else { continue };
            // successors through operators that have no owner (handoffs, unnamed sinks)
            let mut stack: Vec<usize> = g.succ[n].clone();
            let mut seen = BTreeSet::new();
            while let Some(m) = stack.pop() {
                if !seen.insert(m) {
                    continue;
                }
                match own(m) {
                    Some(b) => {
                        if a != b {
                            out.insert(format!("{a}>{b}{}", if g.is_defer[m] { "d" } else { "" }));
                        }
                    }
                    None => stack.extend(g.succ[m].iter().copied()),
                }
            }
        }
    }
    out.into_iter().collect()
}

fn run_case(n: u64, tape: &[u8], bad: bool, rec: &mut Recorder) {
    rec.case(n, &format!("tape={} bad={}", hex(tape), bad as u8));
    let t1 = tape.to_vec();
    // the emitted graphs (production emitter + partitioner, network ends left as dummies)
    let graphs = match emitted_graphs(tape, bad) {
        Ok(g) => g,
        Err(e) => {
            rec.check(false, "emission-or-partitioning-panicked", &e);
            rec.line("ir -", "panic");
            return;
        }
    };
    let named: BTreeSet<String> = graphs.iter().flat_map(|g| g.names.iter().flatten().cloned()).collect();
    // the abstract IR of the real IR
    let ext = catch(AssertUnwindSafe(move || {
        let (flow, _p1, _p2, built) = hv_net_flows::c41::make(&t1, bad);
        let b = flow.finalize();
        (extract(b.ir(), &named), built)
    }));
    let (ex, built) = match ext {
        Ok(x) => x,
        Err(e) => {
            rec.check(false, "flow-construction-or-ir-extraction-panicked", &e);
            rec.line("ir -", "panic");
            return;
        }
    };
    for op in &built.ops {
        rec.count(&format!("op:{op}"));
    }
    rec.count(&format!("tick_cycles={}", built.tick_cycles));
    rec.count(&format!("forward_refs={}", built.forward_refs));
    rec.count(&format!("tick_forward_refs={}", built.tick_forward_refs));
    rec.count(&format!("networks={}", built.networks.min(4)));
    rec.count(&format!("tees={}", built.tees.min(6)));
    // production builder
    let t2 = tape.to_vec();
    let res = catch(AssertUnwindSafe(move || {
        let (flow, p1, p2, _) = hv_net_flows::c41::make(&t2, bad);
        let code = flow.with_process(&p1, "p1").with_process(&p2, "p2").generate_embedded("hv_net_flows");
        code.items.len()
    }));
    let verdict = match &res {
        Ok(_) => "accept".to_string(),
        Err(e) if e.contains("Cyclical dataflow within a tick") => "reject-cycle".to_string(),
        Err(e) => format!("failed:{}", e.split_whitespace().take(6).collect::<Vec<_>>().join("_")),
    };
    rec.count(&format!("verdict:{}", verdict.split(':').next().unwrap()));
    // the property on the real builder, against the independent cycle analysis of the IR
    let cyc = has_cycle(&ex, Edges::SameTick);
    let cyc_top = has_cycle(&ex, Edges::SameTickTopLevelRefsOnly);
    let failed_otherwise = verdict.starts_with("failed:");
    rec.check(!failed_otherwise, "builder-failed-other-than-same-tick-cycle-diagnostic", &format!("verdict={verdict} detail={:?} ir={}", res.as_ref().err(), show_ir(&ex)));
    if !cyc {
        // every dependency cycle is delayed (DeferTick) or crosses the network: must compile
        rec.check(verdict == "accept", "well-formed-flow-did-not-compile-to-a-valid-dataflow", &format!("verdict={verdict} detail={:?} ir={}", res.as_ref().err(), show_ir(&ex)));
        rec.count(if has_cycle(&ex, Edges::All) { "shape:delayed-or-network-cycle" } else { "shape:acyclic" });
    } else if !cyc_top {
        // a forward reference on a *tick* location completed with a value that depends on it in the
        // same tick: excluded by the documented contract of `ForwardHandle::complete`; the builder
        // must refuse it with the same-tick-cycle diagnostic
        rec.check(verdict == "reject-cycle", "synchronous-tick-forward-ref-cycle-not-rejected-as-same-tick-cycle", &format!("verdict={verdict} ir={}", show_ir(&ex)));
        rec.count("shape:synchronous-tick-forward-ref-cycle");
    } else {
        // a cycle closed by a *top-level* forward reference through local operators only (no
        // DeferTick, no network): type-checks, every forward reference is completed, documented as
        // allowed ("Asynchronous cycles (outside a tick) are allowed") -- the property demands a
        // valid dataflow
        if !failed_otherwise {
            rec.check(verdict == "accept", "top-level-forward-ref-local-cycle-rejected-as-same-tick-cycle", &format!("verdict={verdict} ir={}", show_ir(&ex)));
        }
        rec.count("shape:top-level-forward-ref-local-cycle");
    }
    rec.check(cyc == built.undelayed_cycle || !bad, "generator-taint-vs-ir-cycle", "informational");
    rec.line(&format!("ir {}", show_ir(&ex)), &verdict);
    let es = projected_edges(&graphs, &ex);
    rec.line("edges", &if es.is_empty() { "-".to_string() } else { es.join(",") });
    rec.count(&format!("ir-nodes={}", (ex.nodes.len() / 5) * 5));
    rec.nontrivial();
}

fn gen_tape(rng: &mut Rng, tier: &str) -> Vec<u8> {
    let len = if tier == "thorough" { rng.range(4, 70) } else { rng.range(4, 44) };
    (0..len).map(|_| rng.below(256) as u8).collect()
}

fn run_lines(lines: &[String], rec: &mut Recorder) {
    for l in lines {
        if let Some(rest) = l.strip_prefix("#case ") {
            let ws: Vec<&str> = rest.split(' ').collect();
            let n: u64 = ws[0].parse().unwrap_or(0);
            let tag = |k: &str| ws.iter().find_map(|w| w.strip_prefix(&format!("{k}=")).map(|s| s.to_string()));
            match tag("tape").and_then(|t| parse_hex(&t)) {
                Some(tape) => run_case(n, &tape, tag("bad").as_deref() == Some("1"), rec),
                None => {
                    rec.case(n, &ws[1..].join(" "));
                }
            }
        }
        // `ir` / `edges` lines are recomputed from the tape
    }
}

pub fn main(args: &Args) {
    let mut rec = Recorder::new("every case compiles one generated Hydro program with the production builder; non-trivial = the IR was extracted and a verdict obtained");
    if let Some(p) = &args.replay {
        run_lines(&hv_common::read_lines(p), &mut rec);
    } else {
        // programs of the fixed sample that the production builder refused at build time
        for (i, (tape, msg)) in hv_net_gen::gen_c41::BUILD_FAILURES.iter().enumerate() {
            let tape = parse_hex(tape).unwrap_or_default();
            run_case(900_000 + i as u64, &tape, false, &mut rec);
            rec.check(false, "sample-program-failed-in-production-builder-at-build-time", msg);
        }
        rec.count_n("rustc-compiled-sample-programs", hv_net_gen::gen_c41::SAMPLE as u64 - hv_net_gen::gen_c41::BUILD_FAILURES.len() as u64);
        let base = Rng::new(args.seed);
        for n in 1..=args.cases {
            let mut rng = base.fork(n);
            let tape = gen_tape(&mut rng, &args.tier);
            let bad = rng.chance(1, 3);
            run_case(n, &tape, bad, &mut rec);
        }
    }
    rec.finish(&args.out);
}
