//! C35, routing under back-pressure: the real `sinktools::demux_map` over scripted member sinks that
//! answer `Pending` / `Ready` to `poll_ready` / `poll_flush` / `poll_close` independently per member.
//!
//! case line  `#case <n> dm=<k> s0=<ready>/<flush>/<close> s1=..`   scripts over `r` / `p`, the last answer repeats
//! ops        `rdy` | `fl` | `cl` | `snd <member> <item>`
//! answer     `R|P polled=<members polled by this call, sorted> <m>:b=<buffered>;d=<delivered>;c=<closed> ..`
//!
//! The `HashMap` inside `DemuxMap` iterates in a per-instance random order, so every case is run on
//! `INSTANCES` fresh maps: all must give the same (order-free) answer, and the oracle is evaluated on each.
use std::cell::RefCell;
use std::collections::HashMap;
use std::convert::Infallible;
use std::pin::Pin;
use std::rc::Rc;
use std::task::{Context, Poll};

use futures::Sink;
use hv_common::{Recorder, Rng, catch};
use hydro_lang::location::member_id::TaglessMemberId;

pub const INSTANCES: usize = 24;

#[derive(Clone)]
pub struct Script {
    answers: Vec<bool>,
}
impl Script {
    pub fn parse(s: &str) -> Option<Script> {
        if s.is_empty() || !s.bytes().all(|c| c == b'r' || c == b'p') {
            return None;
        }
        Some(Script { answers: s.bytes().map(|c| c == b'r').collect() })
    }
    /// answer to the `i`-th call (0-based)
    pub fn at(&self, i: usize) -> bool {
        self.answers[i.min(self.answers.len() - 1)]
    }
}

#[derive(Clone)]
struct Member {
    scripts: [Script; 3], // ready, flush, close
    calls: [usize; 3],
    buf: Vec<u64>,
    delivered: Vec<u64>,
    closed: bool,
}
struct Shared {
    members: Vec<Member>,
    polled: Vec<u32>,
}

/// a buffering, infallible member sink whose poll answers come from its scripts
struct MSink {
    id: usize,
    sh: Rc<RefCell<Shared>>,
}
impl MSink {
    fn poll(&self, which: usize) -> bool {
        let mut sh = self.sh.borrow_mut();
        sh.polled.push(self.id as u32);
        let m = &mut sh.members[self.id];
        let a = m.scripts[which].at(m.calls[which]);
        m.calls[which] += 1;
        if a && which >= 1 {
            let b = std::mem::take(&mut m.buf);
            m.delivered.extend(b);
            if which == 2 {
                m.closed = true;
            }
        }
        a
    }
}
impl Sink<u64> for MSink {
    type Error = Infallible;
    fn poll_ready(self: Pin<&mut Self>, _: &mut Context<'_>) -> Poll<Result<(), Infallible>> {
        if self.poll(0) { Poll::Ready(Ok(())) } else { Poll::Pending }
    }
    fn start_send(self: Pin<&mut Self>, item: u64) -> Result<(), Infallible> {
        self.sh.borrow_mut().members[self.id].buf.push(item);
        Ok(())
    }
    fn poll_flush(self: Pin<&mut Self>, _: &mut Context<'_>) -> Poll<Result<(), Infallible>> {
        if self.poll(1) { Poll::Ready(Ok(())) } else { Poll::Pending }
    }
    fn poll_close(self: Pin<&mut Self>, _: &mut Context<'_>) -> Poll<Result<(), Infallible>> {
        if self.poll(2) { Poll::Ready(Ok(())) } else { Poll::Pending }
    }
}

struct Instance {
    demux: sinktools::demux_map::DemuxMap<TaglessMemberId, MSink>,
    sh: Rc<RefCell<Shared>>,
}

pub struct DmCase {
    k: usize,
    scripts: Vec<[Script; 3]>,
    inst: Vec<Instance>,
    // oracle state, kept apart from the sinks: what was accepted for each member, how often each poll method ran
    sent: Vec<Vec<u64>>,
    ops: [usize; 3],
}

fn show_items(xs: &[u64]) -> String {
    if xs.is_empty() { "-".into() } else { xs.iter().map(|x| x.to_string()).collect::<Vec<_>>().join(".") }
}

impl DmCase {
    pub fn new(tags: &[&str]) -> Option<DmCase> {
        let tag = |k: &str| tags.iter().find_map(|w| w.strip_prefix(&format!("{k}=")));
        let k: usize = tag("dm")?.parse().ok()?;
        if k > 8 {
            return None;
        }
        let mut scripts = vec![];
        for m in 0..k {
            let parts: Vec<&str> = tag(&format!("s{m}"))?.split('/').collect();
            if parts.len() != 3 {
                return None;
            }
            scripts.push([Script::parse(parts[0])?, Script::parse(parts[1])?, Script::parse(parts[2])?]);
        }
        let inst = (0..INSTANCES)
            .map(|_| {
                let sh = Rc::new(RefCell::new(Shared {
                    members: scripts.iter().map(|s| Member { scripts: s.clone(), calls: [0; 3], buf: vec![], delivered: vec![], closed: false }).collect(),
                    polled: vec![],
                }));
                // a fresh `HashMap` (fresh `RandomState`) per instance: another iteration order
                let mut sinks = HashMap::new();
                for m in 0..k {
                    sinks.insert(TaglessMemberId::from_raw_id(m as u32), MSink { id: m, sh: sh.clone() });
                }
                Instance { demux: sinktools::demux_map(sinks), sh }
            })
            .collect();
        Some(DmCase { k, scripts, inst, sent: vec![vec![]; k], ops: [0; 3] })
    }

    fn state(sh: &Shared) -> String {
        sh.members
            .iter()
            .enumerate()
            .map(|(m, s)| format!("{m}:b={};d={};c={}", show_items(&s.buf), show_items(&s.delivered), s.closed as u8))
            .collect::<Vec<_>>()
            .join(" ")
    }

    pub fn exec(&mut self, line: &str, rec: &mut Recorder) -> String {
        let ws: Vec<&str> = line.split(' ').collect();
        let which = match ws.as_slice() {
            ["rdy"] => Some(0),
            ["fl"] => Some(1),
            ["cl"] => Some(2),
            _ => None,
        };
        let mut answers: Vec<String> = vec![];
        // oracle verdicts of this op: per signature the first failing instance (the 24 instances repeat one experiment)
        let mut verdicts: Vec<(String, Option<String>)> = vec![];
        let mut verdict = |ok: bool, sig: String, detail: String| match verdicts.iter_mut().find(|(s, _)| *s == sig) {
            Some((_, d)) => {
                if !ok && d.is_none() {
                    *d = Some(detail)
                }
            }
            None => verdicts.push((sig, if ok { None } else { Some(detail) })),
        };
        if let Some(which) = which {
            let name = ["poll_ready", "poll_flush", "poll_close"][which];
            // what each member's own sink answers to this call, by the script alone
            let expect: Vec<bool> = (0..self.k).map(|m| self.scripts[m][which].at(self.ops[which])).collect();
            self.ops[which] += 1;
            let stalled: Vec<usize> = (0..self.k).filter(|m| !expect[*m]).collect();
            for (i, inst) in self.inst.iter_mut().enumerate() {
                inst.sh.borrow_mut().polled.clear();
                let waker = futures::task::noop_waker();
                let mut cx = Context::from_waker(&waker);
                let r = match which {
                    0 => Pin::new(&mut inst.demux).poll_ready(&mut cx),
                    1 => Pin::new(&mut inst.demux).poll_flush(&mut cx),
                    _ => Pin::new(&mut inst.demux).poll_close(&mut cx),
                };
                let ready = matches!(r, Poll::Ready(Ok(())));
                let sh = inst.sh.borrow();
                let mut polled = sh.polled.clone();
                polled.sort();
                // oracle 1: every member sink is polled, once, whatever the others answer
                let all: Vec<u32> = (0..self.k as u32).collect();
                verdict(polled == all, format!("demux-{name}-did-not-poll-every-member-sink-once"), format!("instance={i} polled={polled:?} members={} stalled={stalled:?}", self.k));
                // oracle 2: Ready only when all are, and then it is
                verdict(ready == stalled.is_empty(), format!("demux-{name}-result-is-not-all-members-ready"), format!("instance={i} result_ready={ready} stalled={stalled:?}"));
                // oracle 3: every item sent to a member that is not stalled has reached it after a flush / close
                if which >= 1 {
                    for m in 0..self.k {
                        if expect[m] {
                            let ok = sh.members[m].delivered == self.sent[m] && sh.members[m].buf.is_empty();
                            verdict(
                                ok,
                                format!("demux-{name}-item-for-healthy-member-not-delivered"),
                                format!("instance={i} member={m} sent={} delivered={} still-buffered={} stalled-members={stalled:?}", show_items(&self.sent[m]), show_items(&sh.members[m].delivered), show_items(&sh.members[m].buf)),
                            );
                        }
                    }
                }
                answers.push(format!(
                    "{} polled={} {}",
                    if ready { "R" } else { "P" },
                    polled.iter().map(|x| x.to_string()).collect::<Vec<_>>().join(","),
                    Self::state(&sh)
                ));
            }
            rec.count(name);
            if !stalled.is_empty() && stalled.len() < self.k {
                rec.count(&format!("{name}-some-stalled-some-healthy"));
            }
        } else if let ["snd", m, x] = ws.as_slice() {
            let (Ok(m), Ok(x)) = (m.parse::<u32>(), x.parse::<u64>()) else { return "bad-op".into() };
            let present = (m as usize) < self.k;
            for (i, inst) in self.inst.iter_mut().enumerate() {
                let demux = &mut inst.demux;
                let r = catch(std::panic::AssertUnwindSafe(|| Pin::new(demux).start_send((TaglessMemberId::from_raw_id(m), x))));
                match &r {
                    Ok(Ok(())) => verdict(present, "demux-start_send-accepted-item-for-missing-member".into(), format!("instance={i} member={m}")),
                    Ok(Err(e)) => match *e {},
                    Err(e) => verdict(!present && e.contains("missing key"), "demux-start_send-panicked".into(), format!("instance={i} member={m} {e}")),
                }
                let sh = inst.sh.borrow();
                // only the addressee's buffer grows
                if present && i == 0 {
                    self.sent[m as usize].push(x);
                }
                if present {
                    for mm in 0..self.k {
                        let total = sh.members[mm].delivered.len() + sh.members[mm].buf.len();
                        verdict(total == self.sent[mm].len(), "demux-start_send-reached-a-member-other-than-the-addressee".into(), format!("instance={i} addressee={m} member={mm}"));
                    }
                }
                answers.push(format!("{} {}", if r.is_ok() { "ok" } else { "panic" }, Self::state(&sh)));
            }
            rec.count(if present { "snd" } else { "snd-missing-member" });
        } else {
            return "bad-op".into();
        }
        for (sig, fail) in verdicts {
            rec.check(fail.is_none(), &sig, &fail.unwrap_or_default());
        }
        let same = answers.iter().all(|a| *a == answers[0]);
        rec.check(same, "demux-answer-depends-on-hashmap-iteration-order", &format!("op={line} answers={:?}", answers.iter().collect::<std::collections::BTreeSet<_>>()));
        answers.swap_remove(0)
    }
}

const FL3: [&str; 3] = ["r", "p", "pr"];
const CL2: [&str; 2] = ["r", "p"];

fn op_text(o: u64, k: u64, item: &mut u64) -> String {
    if o < k {
        *item += 1;
        format!("snd {o} {item}")
    } else if o == k {
        "fl".into()
    } else {
        "cl".into()
    }
}

/// number of cases of the bounded-exhaustive scopes
pub fn exhaustive_count(tier: &str) -> u64 {
    // 2 members: flush scripts {r,p,pr}^2 x close scripts {r,p}^2 x all op sequences of length 3 over {snd 0, snd 1, fl, cl}
    let a = 9 * 4 * 64;
    if tier == "thorough" {
        // + length 4 for 2 members; 3 members: flush {r,p}^3 x close {r,p}^3 x length 3 over {snd 0..2, fl, cl}
        a + 9 * 4 * 256 + 8 * 8 * 125
    } else {
        a
    }
}

fn exhaustive_case(mut i: u64) -> Vec<String> {
    let (k, len, nfl): (u64, u32, u64) = if i < 9 * 4 * 64 {
        (2, 3, 3)
    } else if i < 9 * 4 * 64 + 9 * 4 * 256 {
        i -= 9 * 4 * 64;
        (2, 4, 3)
    } else {
        i -= 9 * 4 * 64 + 9 * 4 * 256;
        (3, 3, 2)
    };
    let mut tags = vec![];
    for m in 0..k {
        let f = FL3[(i % nfl) as usize];
        i /= nfl;
        let c = CL2[(i % 2) as usize];
        i /= 2;
        tags.push(format!("s{m}=r/{f}/{c}"));
    }
    let mut ops = vec![];
    let mut item = 0;
    for _ in 0..len {
        ops.push(op_text(i % (k + 2), k, &mut item));
        i /= k + 2;
    }
    let mut lines = vec![format!("dm={k} {}", tags.join(" "))];
    lines.extend(ops);
    lines
}

fn random_script(rng: &mut Rng) -> String {
    let n = rng.range(1, 4);
    (0..n).map(|_| if rng.chance(1, 2) { 'r' } else { 'p' }).collect()
}

fn random_case(rng: &mut Rng) -> Vec<String> {
    let k = rng.range(2, 3);
    let tags: Vec<String> = (0..k).map(|m| format!("s{m}={}/{}/{}", random_script(rng), random_script(rng), random_script(rng))).collect();
    let mut lines = vec![format!("dm={k} {}", tags.join(" "))];
    let mut item = 0;
    for _ in 0..rng.range(3, 9) {
        match rng.below(12) {
            0 => lines.push("rdy".into()),
            1 => {
                item += 1;
                lines.push(format!("snd {} {item}", k + rng.below(2)));
            }
            2 => lines.push("flush".into()), // malformed
            _ => lines.push(op_text(rng.below(k + 2), k, &mut item)),
        }
    }
    lines
}

/// the `j`-th demux case of a run (0-based): first the exhaustive scopes, then random ones; `#case` line without number
pub fn gen_case(j: u64, rng: &mut Rng, tier: &str) -> Vec<String> {
    if j < exhaustive_count(tier) { exhaustive_case(j) } else { random_case(rng) }
}

pub fn case_count(tier: &str) -> u64 {
    exhaustive_count(tier) + if tier == "thorough" { 4000 } else { 400 }
}
