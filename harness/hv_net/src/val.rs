//! Dynamic mirror of the Lean `Ty` / `Val` universe (lean/HvNet/HvNet/Model/Bincode.lean), its
//! text format (lean/HvNet/HvNet/Driver/Wire.lean) and the `Payload` trait connecting the static
//! Rust payload types of `hv_net_flows::payload` to it.
use hv_common::Rng;
use hv_net_flows::payload::*;
use hydro_lang::location::MemberId;
use serde::Serialize;
use serde::de::DeserializeOwned;

#[derive(Clone, Debug, PartialEq)]
pub enum Ty {
    U(u32),
    I(u32),
    Bool,
    Char,
    Str,
    Opt(Box<Ty>),
    Vec(Box<Ty>),
    Tup(Vec<Ty>),
    Enm(Vec<Ty>),
}

#[derive(Clone, Debug, PartialEq)]
pub enum Val {
    U(u32, u128),
    I(u32, i128),
    Bool(bool),
    Char(u32),
    Str(Vec<u8>),
    None,
    Some(Box<Val>),
    Vec(Vec<Val>),
    Tup(Vec<Val>),
    Variant(u32, Box<Val>),
}

pub fn show_ty(t: &Ty) -> String {
    match t {
        Ty::U(w) => format!("u{w}"),
        Ty::I(w) => format!("i{w}"),
        Ty::Bool => "b".into(),
        Ty::Char => "c".into(),
        Ty::Str => "s".into(),
        Ty::Opt(t) => format!("O({})", show_ty(t)),
        Ty::Vec(t) => format!("V({})", show_ty(t)),
        Ty::Tup(ts) => format!("T({})", ts.iter().map(show_ty).collect::<Vec<_>>().join(",")),
        Ty::Enm(ts) => format!("E({})", ts.iter().map(show_ty).collect::<Vec<_>>().join("|")),
    }
}

pub fn hex(b: &[u8]) -> String {
    if b.is_empty() {
        return "-".into();
    }
    b.iter().map(|x| format!("{x:02x}")).collect()
}
pub fn unhex(s: &str) -> Option<Vec<u8>> {
    if s == "-" {
        return Some(vec![]);
    }
    if s.len() % 2 != 0 || !s.bytes().all(|c| c.is_ascii_digit() || (b'a'..=b'f').contains(&c)) {
        return None;
    }
    (0..s.len() / 2).map(|i| u8::from_str_radix(&s[2 * i..2 * i + 2], 16).ok()).collect()
}

pub fn show_val(v: &Val) -> String {
    match v {
        Val::U(w, n) => format!("u{w}:{n}"),
        Val::I(w, z) => format!("i{w}:{z}"),
        Val::Bool(b) => format!("b:{}", *b as u8),
        Val::Char(c) => format!("c:{c}"),
        Val::Str(b) => format!("s:{}", if b.is_empty() { String::new() } else { hex(b) }),
        Val::None => "N".into(),
        Val::Some(v) => format!("S({})", show_val(v)),
        Val::Vec(vs) => format!("[{}]", vs.iter().map(show_val).collect::<Vec<_>>().join(";")),
        Val::Tup(vs) => format!("({})", vs.iter().map(show_val).collect::<Vec<_>>().join(",")),
        Val::Variant(k, v) => format!("#{k}{}", show_val(v)),
    }
}

struct P<'a> {
    s: &'a [u8],
    i: usize,
}
impl<'a> P<'a> {
    fn peek(&self) -> Option<u8> {
        self.s.get(self.i).copied()
    }
    fn eat(&mut self, c: u8) -> bool {
        if self.peek() == Some(c) {
            self.i += 1;
            true
        } else {
            false
        }
    }
    fn nat(&mut self) -> Option<u128> {
        let st = self.i;
        let mut n: u128 = 0;
        while let Some(c) = self.peek() {
            if c.is_ascii_digit() {
                n = n.checked_mul(10)?.checked_add((c - b'0') as u128)?;
                self.i += 1;
            } else {
                break;
            }
        }
        if self.i == st { None } else { Some(n) }
    }
    fn val(&mut self) -> Option<Val> {
        let c = self.peek()?;
        self.i += 1;
        match c {
            b'u' => {
                let w = self.nat()? as u32;
                if !self.eat(b':') {
                    return None;
                }
                Some(Val::U(w, self.nat()?))
            }
            b'i' => {
                let w = self.nat()? as u32;
                if !self.eat(b':') {
                    return None;
                }
                let neg = self.eat(b'-');
                let n = self.nat()?;
                if n > (1u128 << 127) {
                    return None;
                }
                Some(Val::I(w, if neg { (n as i128).wrapping_neg() } else { i128::try_from(n).ok()? }))
            }
            b'b' => {
                if !self.eat(b':') {
                    return None;
                }
                if self.eat(b'0') {
                    Some(Val::Bool(false))
                } else if self.eat(b'1') {
                    Some(Val::Bool(true))
                } else {
                    None
                }
            }
            b'c' => {
                if !self.eat(b':') {
                    return None;
                }
                Some(Val::Char(u32::try_from(self.nat()?).ok()?))
            }
            b's' => {
                if !self.eat(b':') {
                    return None;
                }
                let st = self.i;
                while let Some(c) = self.peek() {
                    if c.is_ascii_digit() || (b'a'..=b'f').contains(&c) {
                        self.i += 1;
                    } else {
                        break;
                    }
                }
                if st == self.i {
                    return Some(Val::Str(vec![]));
                }
                Some(Val::Str(unhex(std::str::from_utf8(&self.s[st..self.i]).ok()?)?))
            }
            b'N' => Some(Val::None),
            b'S' => {
                if !self.eat(b'(') {
                    return None;
                }
                let v = self.val()?;
                if !self.eat(b')') {
                    return None;
                }
                Some(Val::Some(Box::new(v)))
            }
            b'[' => Some(Val::Vec(self.list(b';', b']')?)),
            b'(' => Some(Val::Tup(self.list(b',', b')')?)),
            b'#' => {
                let k = u32::try_from(self.nat()?).ok()?;
                Some(Val::Variant(k, Box::new(self.val()?)))
            }
            _ => None,
        }
    }
    fn list(&mut self, sep: u8, close: u8) -> Option<Vec<Val>> {
        let mut out = vec![];
        if self.eat(close) {
            return Some(out);
        }
        loop {
            out.push(self.val()?);
            if self.eat(close) {
                return Some(out);
            }
            if !self.eat(sep) {
                return None;
            }
        }
    }
}
impl<'a> P<'a> {
    /// compact large value (grammar in lean/HvNet/HvNet/Driver/Wire.lean), expanded
    fn cval(&mut self) -> Option<Val> {
        let c = self.peek()?;
        self.i += 1;
        match c {
            b'R' => {
                let n = self.nat()?;
                if !self.eat(b'*') || n > MAX_REPEAT {
                    return None;
                }
                let v = self.val()?;
                Some(Val::Vec(vec![v; n as usize]))
            }
            b'Z' => {
                let n = self.nat()?;
                if !self.eat(b'*') || n > MAX_REPEAT {
                    return None;
                }
                let ch = char::from_u32(u32::try_from(self.nat()?).ok()?)?;
                Some(Val::Str(ch.to_string().repeat(n as usize).into_bytes()))
            }
            b'S' => {
                if !self.eat(b'(') {
                    return None;
                }
                let v = self.cval()?;
                if !self.eat(b')') {
                    return None;
                }
                Some(Val::Some(Box::new(v)))
            }
            b'#' => {
                let k = u32::try_from(self.nat()?).ok()?;
                Some(Val::Variant(k, Box::new(self.cval()?)))
            }
            b'(' => Some(Val::Tup(self.celems(b',', b')')?)),
            b'[' => Some(Val::Vec(self.celems(b';', b']')?)),
            _ => None,
        }
    }
    /// elements of which exactly one is `@<compact value>`
    fn celems(&mut self, sep: u8, close: u8) -> Option<Vec<Val>> {
        let mut out = vec![];
        let mut seen = false;
        loop {
            if self.eat(b'@') {
                if seen {
                    return None;
                }
                seen = true;
                out.push(self.cval()?);
            } else {
                out.push(self.val()?);
            }
            if self.eat(close) {
                return if seen { Some(out) } else { None };
            }
            if !self.eat(sep) {
                return None;
            }
        }
    }
}
/// repeat counts above this are refused (a replay file must not make the harness allocate without bound)
pub const MAX_REPEAT: u128 = 1 << 25;

pub fn parse_cval(s: &str) -> Option<Val> {
    let mut p = P { s: s.as_bytes(), i: 0 };
    let v = p.cval()?;
    if p.i == s.len() { Some(v) } else { None }
}

/// the checksum `HvNet.ck 0` of lean/HvNet/HvNet/Model/Bincode.lean
pub fn ck(bytes: &[u8]) -> u64 {
    bytes.iter().fold(0u64, |h, b| (h * 31 + *b as u64 + 1) % 4294967291)
}

/// does a value of this type contain a `Vec` or a `String` (something that can be made large)?
pub fn has_big(t: &Ty) -> bool {
    match t {
        Ty::Str | Ty::Vec(_) => true,
        Ty::Opt(t) => has_big(t),
        Ty::Tup(ts) | Ty::Enm(ts) => ts.iter().any(has_big),
        _ => false,
    }
}

/// a compact large value of type `t` with `{N}` where the repeat count goes: a random spine through the
/// type down to `vec![v; N]` / a `String` of `N` copies of one char
pub fn gen_spine(t: &Ty, rng: &mut Rng) -> Option<String> {
    match t {
        Ty::Str => Some(format!("Z{{N}}*{}", if rng.chance(1, 2) { 0x20 + rng.below(0x5f) as u32 } else { gen_char(rng) })),
        Ty::Vec(e) => {
            if has_big(e) && rng.chance(1, 3) {
                let inner = gen_spine(e, rng)?;
                let mut parts: Vec<String> = (0..rng.below(3)).map(|_| show_val(&gen_val(e, rng, 2))).collect();
                parts.push(format!("@{inner}"));
                parts.extend((0..rng.below(3)).map(|_| show_val(&gen_val(e, rng, 2))));
                Some(format!("[{}]", parts.join(";")))
            } else {
                Some(format!("R{{N}}*{}", show_val(&gen_val(e, rng, 2))))
            }
        }
        Ty::Opt(e) => Some(format!("S({})", gen_spine(e, rng)?)),
        Ty::Tup(ts) => {
            let idx: Vec<usize> = (0..ts.len()).filter(|i| has_big(&ts[*i])).collect();
            if idx.is_empty() {
                return None;
            }
            let at = *rng.pick(&idx);
            let mut parts = vec![];
            for (i, t) in ts.iter().enumerate() {
                parts.push(if i == at { format!("@{}", gen_spine(t, rng)?) } else { show_val(&gen_val(t, rng, 2)) });
            }
            Some(format!("({})", parts.join(",")))
        }
        Ty::Enm(ts) => {
            let idx: Vec<usize> = (0..ts.len()).filter(|i| has_big(&ts[*i])).collect();
            if idx.is_empty() {
                return None;
            }
            let k = *rng.pick(&idx);
            Some(format!("#{k}{}", gen_spine(&ts[k], rng)?))
        }
        _ => None,
    }
}

pub fn parse_val(s: &str) -> Option<Val> {
    let mut p = P { s: s.as_bytes(), i: 0 };
    let v = p.val()?;
    if p.i == s.len() { Some(v) } else { None }
}

/// random value of a descriptor; `size` bounds lengths / nesting
pub fn gen_val(t: &Ty, rng: &mut Rng, size: u64) -> Val {
    match t {
        Ty::U(w) => Val::U(*w, gen_bits(rng, *w)),
        Ty::I(w) => {
            let u = gen_bits(rng, *w);
            let bits = 8 * *w;
            let v = if bits == 128 {
                u as i128
            } else if u >> (bits - 1) & 1 == 1 {
                (u as i128) - (1i128 << bits)
            } else {
                u as i128
            };
            Val::I(*w, v)
        }
        Ty::Bool => Val::Bool(rng.chance(1, 2)),
        Ty::Char => Val::Char(gen_char(rng)),
        Ty::Str => {
            let n = rng.below(size + 1);
            let mut s = String::new();
            for _ in 0..n {
                s.push(char::from_u32(gen_char(rng)).unwrap());
            }
            Val::Str(s.into_bytes())
        }
        Ty::Opt(t) => {
            if rng.chance(1, 3) {
                Val::None
            } else {
                Val::Some(Box::new(gen_val(t, rng, size)))
            }
        }
        Ty::Vec(t) => {
            let n = rng.below(size + 1);
            Val::Vec((0..n).map(|_| gen_val(t, rng, size.saturating_sub(1).max(1))).collect())
        }
        Ty::Tup(ts) => Val::Tup(ts.iter().map(|t| gen_val(t, rng, size)).collect()),
        Ty::Enm(ts) => {
            let k = rng.below(ts.len() as u64) as usize;
            Val::Variant(k as u32, Box::new(gen_val(&ts[k], rng, size)))
        }
    }
}
fn gen_bits(rng: &mut Rng, w: u32) -> u128 {
    let bits = 8 * w;
    let full = ((rng.next_u64() as u128) << 64) | rng.next_u64() as u128;
    let mask = if bits == 128 { u128::MAX } else { (1u128 << bits) - 1 };
    match rng.below(8) {
        0 => 0,
        1 => mask,
        2 => mask >> 1,       // max signed
        3 => (mask >> 1) + 1, // min signed
        4 => rng.below(300) as u128 & mask,
        5 => mask - (rng.below(300) as u128 & mask),
        _ => full & mask,
    }
}
fn gen_char(rng: &mut Rng) -> u32 {
    let c = match rng.below(10) {
        0 => rng.below(0x80),
        1 => 0x80 + rng.below(0x800 - 0x80),
        2 => 0x800 + rng.below(0x10000 - 0x800),
        3 => 0x10000 + rng.below(0x110000 - 0x10000),
        4 => *rng.pick(&[0u64, 0x7f, 0x80, 0x7ff, 0x800, 0xfff, 0x1000, 0xd7ff, 0xe000, 0xffff, 0x10000, 0x3ffff, 0x40000, 0x10ffff, 0xcfff, 0xd000]),
        _ => 0x20 + rng.below(0x5f),
    } as u32;
    if (0xD800..0xE000).contains(&c) { 0xD7FF } else { c }
}

/// a static payload type together with its descriptor and the conversion to / from `Val`
pub trait Payload: Serialize + DeserializeOwned + Clone + PartialEq + std::fmt::Debug + 'static {
    fn ty() -> Ty;
    fn to_val(&self) -> Val;
    fn from_val(v: &Val) -> Option<Self>;
}

macro_rules! impl_uint {
    ($t:ty, $w:expr) => {
        impl Payload for $t {
            fn ty() -> Ty {
                Ty::U($w)
            }
            fn to_val(&self) -> Val {
                Val::U($w, *self as u128)
            }
            fn from_val(v: &Val) -> Option<Self> {
                match v {
                    Val::U(w, n) if *w == $w => <$t>::try_from(*n).ok(),
                    _ => None,
                }
            }
        }
    };
}
macro_rules! impl_sint {
    ($t:ty, $w:expr) => {
        impl Payload for $t {
            fn ty() -> Ty {
                Ty::I($w)
            }
            fn to_val(&self) -> Val {
                Val::I($w, *self as i128)
            }
            fn from_val(v: &Val) -> Option<Self> {
                match v {
                    Val::I(w, n) if *w == $w => <$t>::try_from(*n).ok(),
                    _ => None,
                }
            }
        }
    };
}
impl_uint!(u8, 1);
impl_uint!(u16, 2);
impl_uint!(u32, 4);
impl_uint!(u64, 8);
impl_uint!(usize, 8);
impl_uint!(u128, 16);
impl_sint!(i8, 1);
impl_sint!(i16, 2);
impl_sint!(i32, 4);
impl_sint!(i64, 8);
impl_sint!(isize, 8);
impl_sint!(i128, 16);

impl Payload for bool {
    fn ty() -> Ty {
        Ty::Bool
    }
    fn to_val(&self) -> Val {
        Val::Bool(*self)
    }
    fn from_val(v: &Val) -> Option<Self> {
        if let Val::Bool(b) = v { Some(*b) } else { None }
    }
}
impl Payload for char {
    fn ty() -> Ty {
        Ty::Char
    }
    fn to_val(&self) -> Val {
        Val::Char(*self as u32)
    }
    fn from_val(v: &Val) -> Option<Self> {
        if let Val::Char(c) = v { char::from_u32(*c) } else { None }
    }
}
impl Payload for String {
    fn ty() -> Ty {
        Ty::Str
    }
    fn to_val(&self) -> Val {
        Val::Str(self.as_bytes().to_vec())
    }
    fn from_val(v: &Val) -> Option<Self> {
        if let Val::Str(b) = v { String::from_utf8(b.clone()).ok() } else { None }
    }
}
impl<T: Payload> Payload for Option<T> {
    fn ty() -> Ty {
        Ty::Opt(Box::new(T::ty()))
    }
    fn to_val(&self) -> Val {
        match self {
            None => Val::None,
            Some(x) => Val::Some(Box::new(x.to_val())),
        }
    }
    fn from_val(v: &Val) -> Option<Self> {
        match v {
            Val::None => Some(None),
            Val::Some(x) => Some(Some(T::from_val(x)?)),
            _ => None,
        }
    }
}
impl<T: Payload> Payload for Box<T> {
    fn ty() -> Ty {
        T::ty()
    }
    fn to_val(&self) -> Val {
        (**self).to_val()
    }
    fn from_val(v: &Val) -> Option<Self> {
        Some(Box::new(T::from_val(v)?))
    }
}
impl<T: Payload> Payload for Vec<T> {
    fn ty() -> Ty {
        Ty::Vec(Box::new(T::ty()))
    }
    fn to_val(&self) -> Val {
        Val::Vec(self.iter().map(|x| x.to_val()).collect())
    }
    fn from_val(v: &Val) -> Option<Self> {
        if let Val::Vec(xs) = v { xs.iter().map(T::from_val).collect() } else { None }
    }
}
/// `Result<A, B>` is the serde enum `Ok` = 0 / `Err` = 1, each a newtype variant
impl<A: Payload, B: Payload> Payload for Result<A, B> {
    fn ty() -> Ty {
        Ty::Enm(vec![Ty::Tup(vec![A::ty()]), Ty::Tup(vec![B::ty()])])
    }
    fn to_val(&self) -> Val {
        match self {
            Ok(a) => Val::Variant(0, Box::new(Val::Tup(vec![a.to_val()]))),
            Err(b) => Val::Variant(1, Box::new(Val::Tup(vec![b.to_val()]))),
        }
    }
    fn from_val(v: &Val) -> Option<Self> {
        match v {
            Val::Variant(0, p) => match &**p {
                Val::Tup(xs) if xs.len() == 1 => Some(Ok(A::from_val(&xs[0])?)),
                _ => None,
            },
            Val::Variant(1, p) => match &**p {
                Val::Tup(xs) if xs.len() == 1 => Some(Err(B::from_val(&xs[0])?)),
                _ => None,
            },
            _ => None,
        }
    }
}
impl Payload for () {
    fn ty() -> Ty {
        Ty::Tup(vec![])
    }
    fn to_val(&self) -> Val {
        Val::Tup(vec![])
    }
    fn from_val(v: &Val) -> Option<Self> {
        match v {
            Val::Tup(xs) if xs.is_empty() => Some(()),
            _ => None,
        }
    }
}
macro_rules! impl_tuple {
    ($n:expr; $($T:ident $i:tt),+) => {
        impl<$($T: Payload),+> Payload for ($($T,)+) {
            fn ty() -> Ty { Ty::Tup(vec![$($T::ty()),+]) }
            fn to_val(&self) -> Val { Val::Tup(vec![$(self.$i.to_val()),+]) }
            fn from_val(v: &Val) -> Option<Self> {
                match v {
                    Val::Tup(xs) if xs.len() == $n => Some(($($T::from_val(&xs[$i])?,)+)),
                    _ => None,
                }
            }
        }
    };
}
impl_tuple!(2; A 0, B 1);
impl_tuple!(3; A 0, B 1, C 2);
impl_tuple!(6; A 0, B 1, C 2, D 3, E 4, F 5);
impl_tuple!(8; A 0, B 1, C 2, D 3, E 4, F 5, G 6, H 7);

/// `MemberId<Tag>` serialises as its `TaglessMemberId` (`Legacy { raw_id: u32 }`, variant 0)
impl<Tag: 'static> Payload for MemberId<Tag> {
    fn ty() -> Ty {
        Ty::Enm(vec![Ty::Tup(vec![Ty::U(4)])])
    }
    fn to_val(&self) -> Val {
        Val::Variant(0, Box::new(Val::Tup(vec![Val::U(4, self.get_raw_id() as u128)])))
    }
    fn from_val(v: &Val) -> Option<Self> {
        match v {
            Val::Variant(0, p) => match &**p {
                Val::Tup(xs) if xs.len() == 1 => Some(MemberId::from_raw_id(u32::from_val(&xs[0])?)),
                _ => None,
            },
            _ => None,
        }
    }
}

impl Payload for S4 {
    fn ty() -> Ty {
        <(u16, Vec<Option<bool>>, (i8, char))>::ty()
    }
    fn to_val(&self) -> Val {
        (self.a, self.b.clone(), self.c).to_val()
    }
    fn from_val(v: &Val) -> Option<Self> {
        let (a, b, c) = <(u16, Vec<Option<bool>>, (i8, char))>::from_val(v)?;
        Some(S4 { a, b, c })
    }
}
impl Payload for E5 {
    fn ty() -> Ty {
        Ty::Enm(vec![
            Ty::Tup(vec![]),
            Ty::Tup(vec![u64::ty()]),
            <(i32, String)>::ty(),
            <(Vec<u8>, Option<Box<S4>>)>::ty(),
        ])
    }
    fn to_val(&self) -> Val {
        let (k, p) = match self {
            E5::Unit => (0, Val::Tup(vec![])),
            E5::New(n) => (1, Val::Tup(vec![n.to_val()])),
            E5::Tup(a, b) => (2, (*a, b.clone()).to_val()),
            E5::Rec { x, y } => (3, (x.clone(), y.clone()).to_val()),
        };
        Val::Variant(k, Box::new(p))
    }
    fn from_val(v: &Val) -> Option<Self> {
        let Val::Variant(k, p) = v else { return None };
        match (k, &**p) {
            (0, Val::Tup(xs)) if xs.is_empty() => Some(E5::Unit),
            (1, Val::Tup(xs)) if xs.len() == 1 => Some(E5::New(u64::from_val(&xs[0])?)),
            (2, p) => {
                let (a, b) = <(i32, String)>::from_val(p)?;
                Some(E5::Tup(a, b))
            }
            (3, p) => {
                let (x, y) = <(Vec<u8>, Option<Box<S4>>)>::from_val(p)?;
                Some(E5::Rec { x, y })
            }
            _ => None,
        }
    }
}
impl Payload for N7 {
    fn ty() -> Ty {
        Ty::Tup(vec![<Vec<(i16, Option<char>)>>::ty()])
    }
    fn to_val(&self) -> Val {
        Val::Tup(vec![self.0.to_val()])
    }
    fn from_val(v: &Val) -> Option<Self> {
        match v {
            Val::Tup(xs) if xs.len() == 1 => Some(N7(<Vec<(i16, Option<char>)>>::from_val(&xs[0])?)),
            _ => None,
        }
    }
}
impl Payload for U9 {
    fn ty() -> Ty {
        Ty::Tup(vec![])
    }
    fn to_val(&self) -> Val {
        Val::Tup(vec![])
    }
    fn from_val(v: &Val) -> Option<Self> {
        match v {
            Val::Tup(xs) if xs.is_empty() => Some(U9),
            _ => None,
        }
    }
}
