//! C39 harness: `hydro_std::quorum::{collect_quorum, collect_quorum_with_response}` and
//! `hydro_std::request_response::join_responses`, compiled by the production code generator
//! (build.rs -> `generate_embedded`, one flow per `(min, max)`), run in-process tick by tick with
//! the harness choosing the batches.
//!
//! protocol (one case = one flow instance):
//!   #case <n> kind=q|w|j min=<m> max=<M>
//!   batch <key>:o[<val>] <key>:e<err> ..     -> `q=<emitted> e=<errors>`   (one tick)
//!   tick r=<k>:<v>,.. m=<k>:<m>,..            -> `j=<k>:<m>:<v>,..`          (one tick of join)
use std::collections::BTreeMap;
use std::panic::AssertUnwindSafe;

use futures::channel::mpsc::unbounded;
use hv_common::{Args, Recorder, Rng, catch};

pub const QUORUMS: &[(usize, usize)] = &[(1, 1), (2, 2), (3, 3), (1, 2), (1, 3), (2, 3), (2, 4), (3, 5)];

type Resp = (u32, Result<u32, u32>);

/// outputs of one tick
#[derive(Clone, Debug, PartialEq, Default)]
pub struct TickOut {
    /// emitted quorum outputs: `(key, value)`; value 0 for `collect_quorum`
    pub q: Vec<(u32, u32)>,
    pub e: Vec<(u32, u32)>,
}

macro_rules! tick_loop {
    ($flow:ident, $rt:ident, $local:ident) => {
        $rt.block_on($local.run_until($flow.run_tick()))
    };
}

macro_rules! q_runner {
    ($name:ident, $m:ident) => {
        fn $name(batches: &[Vec<Resp>]) -> Vec<TickOut> {
            let q = std::cell::RefCell::new(Vec::new());
            let e = std::cell::RefCell::new(Vec::new());
            let mut res = vec![];
            {
                let (tx, rx) = unbounded::<(u32, Result<(), u32>)>();
                let mut outputs = hv_net_gen::gen_c39::$m::run::EmbeddedOutputs {
                    errors: |x: (u32, u32)| e.borrow_mut().push(x),
                    quorum: |k: u32| q.borrow_mut().push((k, 0)),
                };
                let mut flow = hv_net_gen::gen_c39::$m::run(rx, &mut outputs);
                let rt = tokio::runtime::Builder::new_current_thread().build().unwrap();
                let local = tokio::task::LocalSet::new();
                for b in batches {
                    for (k, r) in b {
                        tx.unbounded_send((*k, r.map(|_| ()))).unwrap();
                    }
                    tick_loop!(flow, rt, local);
                    res.push(TickOut { q: q.borrow_mut().drain(..).collect(), e: e.borrow_mut().drain(..).collect() });
                }
            }
            res
        }
    };
}
macro_rules! w_runner {
    ($name:ident, $m:ident) => {
        fn $name(batches: &[Vec<Resp>]) -> Vec<TickOut> {
            let q = std::cell::RefCell::new(Vec::new());
            let e = std::cell::RefCell::new(Vec::new());
            let mut res = vec![];
            {
                let (tx, rx) = unbounded::<Resp>();
                let mut outputs = hv_net_gen::gen_c39::$m::run::EmbeddedOutputs {
                    errors: |x: (u32, u32)| e.borrow_mut().push(x),
                    quorum: |x: (u32, u32)| q.borrow_mut().push(x),
                };
                let mut flow = hv_net_gen::gen_c39::$m::run(rx, &mut outputs);
                let rt = tokio::runtime::Builder::new_current_thread().build().unwrap();
                let local = tokio::task::LocalSet::new();
                for b in batches {
                    for r in b {
                        tx.unbounded_send(*r).unwrap();
                    }
                    tick_loop!(flow, rt, local);
                    res.push(TickOut { q: q.borrow_mut().drain(..).collect(), e: e.borrow_mut().drain(..).collect() });
                }
            }
            res
        }
    };
}
q_runner!(q_1_1, q_1_1);
q_runner!(q_2_2, q_2_2);
q_runner!(q_3_3, q_3_3);
q_runner!(q_1_2, q_1_2);
q_runner!(q_1_3, q_1_3);
q_runner!(q_2_3, q_2_3);
q_runner!(q_2_4, q_2_4);
q_runner!(q_3_5, q_3_5);
w_runner!(w_1_1, w_1_1);
w_runner!(w_2_2, w_2_2);
w_runner!(w_3_3, w_3_3);
w_runner!(w_1_2, w_1_2);
w_runner!(w_1_3, w_1_3);
w_runner!(w_2_3, w_2_3);
w_runner!(w_2_4, w_2_4);
w_runner!(w_3_5, w_3_5);

type Runner = fn(&[Vec<Resp>]) -> Vec<TickOut>;
fn runner(kind: &str, min: usize, max: usize) -> Option<Runner> {
    Some(match (kind, min, max) {
        ("q", 1, 1) => q_1_1,
        ("q", 2, 2) => q_2_2,
        ("q", 3, 3) => q_3_3,
        ("q", 1, 2) => q_1_2,
        ("q", 1, 3) => q_1_3,
        ("q", 2, 3) => q_2_3,
        ("q", 2, 4) => q_2_4,
        ("q", 3, 5) => q_3_5,
        ("w", 1, 1) => w_1_1,
        ("w", 2, 2) => w_2_2,
        ("w", 3, 3) => w_3_3,
        ("w", 1, 2) => w_1_2,
        ("w", 1, 3) => w_1_3,
        ("w", 2, 3) => w_2_3,
        ("w", 2, 4) => w_2_4,
        ("w", 3, 5) => w_3_5,
        _ => return None,
    })
}

type JTick = (Vec<(u32, u32)>, Vec<(u32, u32)>);
/// `join_responses`: per tick (responses, metadata) -> joined `(key, (meta, value))`
fn run_join(ticks: &[JTick]) -> Vec<Vec<(u32, (u32, u32))>> {
    let out = std::cell::RefCell::new(Vec::new());
    let mut res = vec![];
    {
        let (rtx, rrx) = unbounded::<(u32, u32)>();
        let (mtx, mrx) = unbounded::<(u32, u32)>();
        let mut outputs = hv_net_gen::gen_c39::join::run::EmbeddedOutputs { joined: |x: (u32, (u32, u32))| out.borrow_mut().push(x) };
        let mut flow = hv_net_gen::gen_c39::join::run(mrx, rrx, &mut outputs);
        let rt = tokio::runtime::Builder::new_current_thread().build().unwrap();
        let local = tokio::task::LocalSet::new();
        for (r, m) in ticks {
            for x in m {
                mtx.unbounded_send(*x).unwrap();
            }
            for x in r {
                rtx.unbounded_send(*x).unwrap();
            }
            tick_loop!(flow, rt, local);
            res.push(out.borrow_mut().drain(..).collect());
        }
    }
    res
}

fn show_resp(kind: &str, r: &Resp) -> String {
    match (kind, r.1) {
        ("q", Ok(_)) => format!("{}:o", r.0),
        (_, Ok(v)) => format!("{}:o{v}", r.0),
        (_, Err(e)) => format!("{}:e{e}", r.0),
    }
}
fn parse_resp(kind: &str, w: &str) -> Option<Resp> {
    let (k, r) = w.split_once(':')?;
    let k: u32 = k.parse().ok()?;
    if let Some(v) = r.strip_prefix('o') {
        if kind == "q" {
            if v.is_empty() { Some((k, Ok(0))) } else { None }
        } else {
            Some((k, Ok(v.parse().ok()?)))
        }
    } else if let Some(e) = r.strip_prefix('e') {
        Some((k, Err(e.parse().ok()?)))
    } else {
        None
    }
}
fn show_pairs(kind: &str, xs: &[(u32, u32)]) -> String {
    if xs.is_empty() {
        return "-".into();
    }
    xs.iter().map(|(k, v)| if kind == "q" { format!("{k}") } else { format!("{k}:{v}") }).collect::<Vec<_>>().join(",")
}
fn show_tick(kind: &str, t: &TickOut) -> String {
    let mut q = t.q.clone();
    if kind == "q" {
        q.sort(); // `collect_quorum` output is unordered (hash iteration of the keyed fold)
    }
    format!("q={} e={}", show_pairs(kind, &q), show_pairs("w", &t.e))
}
fn parse_kv(s: &str) -> Option<Vec<(u32, u32)>> {
    if s == "-" {
        return Some(vec![]);
    }
    s.split(',').map(|p| { let (a, b) = p.split_once(':')?; Some((a.parse().ok()?, b.parse().ok()?)) }).collect()
}
fn show_kv(xs: &[(u32, u32)]) -> String {
    if xs.is_empty() { "-".into() } else { xs.iter().map(|(a, b)| format!("{a}:{b}")).collect::<Vec<_>>().join(",") }
}

/// all compositions of `seq` into consecutive non-empty batches (bitmask over the cut points)
fn compositions(seq: &[Resp]) -> Vec<Vec<Vec<Resp>>> {
    if seq.is_empty() {
        return vec![vec![]];
    }
    let n = seq.len();
    (0..(1u32 << (n - 1)))
        .map(|mask| {
            let mut bs = vec![vec![seq[0]]];
            for i in 1..n {
                if mask >> (i - 1) & 1 == 1 {
                    bs.push(vec![]);
                }
                bs.last_mut().unwrap().push(seq[i]);
            }
            bs
        })
        .collect()
}

/// the property, evaluated directly on what the real flows emitted (independent of the Lean model)
fn oracle_quorum(kind: &str, min: usize, max: usize, batches: &[Vec<Resp>], outs: &[TickOut], rec: &mut Recorder, primary: bool) {
    let seq: Vec<Resp> = batches.iter().flatten().copied().collect();
    let mut tot: BTreeMap<u32, usize> = BTreeMap::new();
    for r in &seq {
        *tot.entry(r.0).or_default() += 1;
    }
    let in_domain = tot.values().all(|&c| c <= max);
    // errors are passed through, in order, in the tick they arrive
    for (b, o) in batches.iter().zip(outs) {
        let want: Vec<(u32, u32)> = b.iter().filter_map(|r| r.1.err().map(|e| (r.0, e))).collect();
        rec.check(o.e == want, &format!("{kind}-errors-not-passed-through"), &format!("min={min} max={max} batch={b:?} got={:?}", o.e));
    }
    if !in_domain {
        rec.count("outside-domain(more than max responses for a key)");
        return;
    }
    let mut succ: BTreeMap<u32, usize> = BTreeMap::new();
    let mut fired: BTreeMap<u32, usize> = BTreeMap::new();
    let mut hist: Vec<Resp> = vec![];
    for (i, (b, o)) in batches.iter().zip(outs).enumerate() {
        let before = succ.clone();
        for r in b {
            hist.push(*r);
            if r.1.is_ok() {
                *succ.entry(r.0).or_default() += 1;
            }
        }
        let newly: Vec<u32> = succ.iter().filter(|(k, c)| **c >= min && before.get(*k).copied().unwrap_or(0) < min).map(|(k, _)| *k).collect();
        let mut got_keys: Vec<u32> = o.q.iter().map(|x| x.0).collect();
        got_keys.sort();
        let dedup: Vec<u32> = { let mut d = got_keys.clone(); d.dedup(); d };
        rec.check(dedup == newly, &format!("{kind}-quorum-not-fired-exactly-when-min-reached"), &format!("min={min} max={max} tick={i} batches={batches:?} want={newly:?} got={got_keys:?}"));
        for k in &dedup {
            *fired.entry(*k).or_default() += 1;
        }
        if kind == "q" {
            rec.check(dedup.len() == got_keys.len(), "q-key-emitted-twice-in-a-tick", &format!("min={min} max={max} tick={i} got={got_keys:?}"));
        } else {
            // the values of a firing key are its successes so far, in arrival order
            for k in &dedup {
                let want: Vec<(u32, u32)> = hist.iter().filter(|r| r.0 == *k).filter_map(|r| r.1.ok().map(|v| (r.0, v))).collect();
                let got: Vec<(u32, u32)> = o.q.iter().filter(|x| x.0 == *k).copied().collect();
                rec.check(got == want, "w-values-are-not-the-successes-so-far", &format!("min={min} max={max} tick={i} key={k} want={want:?} got={got:?}"));
            }
        }
    }
    rec.check(fired.values().all(|&c| c == 1), &format!("{kind}-key-reported-in-more-than-one-tick"), &format!("min={min} max={max} batches={batches:?}"));
    if primary {
        rec.count(&format!("{kind}-in-domain"));
    }
}

fn flat_sorted(outs: &[TickOut]) -> Vec<(u32, u32)> {
    let mut v: Vec<(u32, u32)> = outs.iter().flat_map(|o| o.q.iter().copied()).collect();
    v.sort();
    v
}

/// batching independence on the real flows: every batching of the same sequence
fn oracle_batchings(kind: &str, min: usize, max: usize, run: Runner, seq: &[Resp], reference: &[TickOut], rec: &mut Recorder) {
    if seq.len() > 7 {
        return;
    }
    let mut tot: BTreeMap<u32, usize> = BTreeMap::new();
    for r in seq {
        *tot.entry(r.0).or_default() += 1;
    }
    if !tot.values().all(|&c| c <= max) {
        return;
    }
    let ref_all = flat_sorted(reference);
    let ref_keys: Vec<u32> = { let mut k: Vec<u32> = ref_all.iter().map(|x| x.0).collect(); k.dedup(); k };
    for bs in compositions(seq) {
        let outs = run(&bs);
        rec.count("alt-batching-run");
        oracle_quorum(kind, min, max, &bs, &outs, rec, false);
        let all = flat_sorted(&outs);
        let keys: Vec<u32> = { let mut k: Vec<u32> = all.iter().map(|x| x.0).collect(); k.dedup(); k };
        rec.check(keys == ref_keys, &format!("{kind}-reported-keys-depend-on-batching"), &format!("min={min} max={max} seq={seq:?} batching={bs:?}"));
        if kind == "w" && all != ref_all {
            if min == max {
                rec.check(false, "w-values-depend-on-batching(min=max)", &format!("min={min} max={max} seq={seq:?} batching={bs:?}"));
            } else {
                rec.check(false, "w-values-depend-on-batching(min<max)", &format!("min={min} max={max} seq={seq:?} batching={bs:?} got={all:?} other={ref_all:?}"));
            }
        } else if kind == "w" {
            // same multiset. The cross-key interleaving of the emitted sequence may follow the batch
            // boundaries (the values of a key come out together in the tick where it reaches min); C39
            // promises nothing about it, so it is only counted, never judged.
            let flat = |o: &[TickOut]| -> Vec<(u32, u32)> { o.iter().flat_map(|t| t.q.iter().copied()).collect() };
            if flat(&outs) != flat(reference) {
                rec.count("w-cross-key-interleaving-follows-batches(observation)");
            }
        }
    }
}

fn oracle_join(ticks: &[JTick], outs: &[Vec<(u32, (u32, u32))>], rec: &mut Recorder) {
    // domain of the documented contract: one response per key, one metadata per key,
    // metadata in the same or an earlier tick than the response
    let mut rk = BTreeMap::new();
    let mut mk = BTreeMap::new();
    let mut ok = true;
    for (i, (r, m)) in ticks.iter().enumerate() {
        for x in r {
            ok &= rk.insert(x.0, (i, x.1)).is_none();
        }
        for x in m {
            ok &= mk.insert(x.0, (i, x.1)).is_none();
        }
    }
    for (k, (ri, _)) in &rk {
        if let Some((mi, _)) = mk.get(k) {
            ok &= mi <= ri;
        }
    }
    if !ok {
        rec.count("j-outside-domain");
        return;
    }
    rec.count("j-in-domain");
    for (i, o) in outs.iter().enumerate() {
        let mut want: Vec<(u32, (u32, u32))> = rk.iter().filter(|(_, (ri, _))| *ri == i).filter_map(|(k, (_, v))| mk.get(k).map(|(_, m)| (*k, (*m, *v)))).collect();
        want.sort();
        let mut got = o.clone();
        got.sort();
        rec.check(got == want, "join-response-not-matched-exactly-once-with-its-metadata", &format!("tick={i} ticks={ticks:?} want={want:?} got={got:?}"));
    }
}

fn run_case(head: &str, ops: &[String], rec: &mut Recorder) {
    let ws: Vec<&str> = head.split(' ').collect();
    let n: u64 = ws.get(1).and_then(|x| x.parse().ok()).unwrap_or(0);
    rec.case(n, &ws[2..].join(" "));
    let tag = |k: &str| ws.iter().find_map(|w| w.strip_prefix(&format!("{k}=")).map(|s| s.to_string()));
    let kind = tag("kind").unwrap_or_default();
    let min: usize = tag("min").and_then(|x| x.parse().ok()).unwrap_or(0);
    let max: usize = tag("max").and_then(|x| x.parse().ok()).unwrap_or(0);
    if kind == "j" {
        let parsed: Vec<Option<JTick>> = ops
            .iter()
            .map(|l| {
                let p: Vec<&str> = l.split(' ').collect();
                match p.as_slice() {
                    ["tick", r, m] => Some((parse_kv(r.strip_prefix("r=")?)?, parse_kv(m.strip_prefix("m=")?)?)),
                    _ => None,
                }
            })
            .collect();
        let ticks: Vec<JTick> = parsed.iter().flatten().cloned().collect();
        let t2 = ticks.clone();
        match catch(AssertUnwindSafe(move || run_join(&t2))) {
            Ok(outs) => {
                oracle_join(&ticks, &outs, rec);
                let mut it = outs.iter();
                for (l, p) in ops.iter().zip(&parsed) {
                    if p.is_some() {
                        let mut o = it.next().unwrap().clone();
                        o.sort();
                        let s = if o.is_empty() { "-".to_string() } else { o.iter().map(|(k, (m, v))| format!("{k}:{m}:{v}")).collect::<Vec<_>>().join(",") };
                        rec.line(l, &format!("j={s}"));
                    } else {
                        rec.line(l, "bad-op");
                    }
                }
                if !ticks.is_empty() {
                    rec.nontrivial();
                }
            }
            Err(e) => {
                rec.check(false, "join-flow-panicked", &e);
                for l in ops {
                    rec.line(l, "panic");
                }
            }
        }
        return;
    }
    let Some(run) = runner(&kind, min, max) else {
        for l in ops {
            rec.line(l, "bad-op");
        }
        return;
    };
    let parsed: Vec<Option<Vec<Resp>>> = ops
        .iter()
        .map(|l| {
            let p: Vec<&str> = l.split(' ').collect();
            if p.first() != Some(&"batch") {
                return None;
            }
            p[1..].iter().map(|w| parse_resp(&kind, w)).collect()
        })
        .collect();
    let batches: Vec<Vec<Resp>> = parsed.iter().flatten().cloned().collect();
    let b2 = batches.clone();
    match catch(AssertUnwindSafe(move || run(&b2))) {
        Ok(outs) => {
            oracle_quorum(&kind, min, max, &batches, &outs, rec, true);
            let seq: Vec<Resp> = batches.iter().flatten().copied().collect();
            oracle_batchings(&kind, min, max, run, &seq, &outs, rec);
            let mut it = outs.iter();
            for (l, p) in ops.iter().zip(&parsed) {
                if p.is_some() {
                    rec.line(l, &show_tick(&kind, it.next().unwrap()));
                } else {
                    rec.line(l, "bad-op");
                }
            }
            if outs.iter().any(|o| !o.q.is_empty() || !o.e.is_empty()) {
                rec.nontrivial();
            }
            rec.count(&format!("{kind} min={min} max={max}"));
        }
        Err(e) => {
            rec.check(false, "quorum-flow-panicked", &e);
            for l in ops {
                rec.line(l, "panic");
            }
        }
    }
}

fn split_batches<T: Clone>(seq: &[T], rng: &mut Rng) -> Vec<Vec<T>> {
    let mut bs: Vec<Vec<T>> = vec![vec![]];
    for x in seq {
        if rng.chance(2, 5) {
            bs.push(vec![]);
            if rng.chance(1, 8) {
                bs.push(vec![]); // an empty tick
            }
        }
        bs.last_mut().unwrap().push(x.clone());
    }
    if rng.chance(1, 4) {
        bs.push(vec![]);
    }
    bs
}

fn gen_case(n: u64, rng: &mut Rng) -> Vec<String> {
    if n % 5 == 0 {
        // join_responses
        let nk = rng.range(1, 4);
        let nt = rng.range(1, 4) as usize;
        let in_domain = !rng.chance(1, 5);
        let mut ticks: Vec<JTick> = vec![(vec![], vec![]); nt];
        for k in 0..nk {
            let has_meta = rng.chance(5, 6);
            let has_resp = rng.chance(5, 6);
            let mt = rng.below(nt as u64) as usize;
            let rt = if in_domain { mt + rng.below((nt - mt) as u64) as usize } else { rng.below(nt as u64) as usize };
            if has_meta {
                ticks[mt].1.push((k as u32, 100 + rng.below(50) as u32));
                if !in_domain && rng.chance(1, 3) {
                    ticks[rng.below(nt as u64) as usize].1.push((k as u32, 200 + rng.below(50) as u32));
                }
            }
            if has_resp {
                ticks[rt].0.push((k as u32, rng.below(50) as u32));
                if !in_domain && rng.chance(1, 3) {
                    ticks[rng.below(nt as u64) as usize].0.push((k as u32, 50 + rng.below(50) as u32));
                }
            }
        }
        let mut lines = vec![format!("#case {n} kind=j")];
        for (r, m) in &ticks {
            lines.push(format!("tick r={} m={}", show_kv(r), show_kv(m)));
        }
        return lines;
    }
    let kind = if n % 2 == 0 { "q" } else { "w" };
    let (min, max) = QUORUMS[rng.below(QUORUMS.len() as u64) as usize];
    let nk = rng.range(1, 3);
    let mut seq: Vec<Resp> = vec![];
    let over = rng.chance(1, 10);
    for k in 0..nk {
        let cnt = if over { rng.below(max as u64 + 3) } else { rng.below(max as u64 + 1) };
        let p_ok = rng.range(3, 9);
        for _ in 0..cnt {
            if rng.chance(p_ok, 10) {
                seq.push((k as u32, Ok(if kind == "q" { 0 } else { rng.below(90) as u32 })));
            } else {
                seq.push((k as u32, Err(rng.below(90) as u32)));
            }
        }
    }
    // shuffle
    for i in (1..seq.len()).rev() {
        let j = rng.below(i as u64 + 1) as usize;
        seq.swap(i, j);
    }
    let bs = split_batches(&seq, rng);
    let mut lines = vec![format!("#case {n} kind={kind} min={min} max={max}")];
    for b in &bs {
        lines.push(format!("batch {}", b.iter().map(|r| show_resp(kind, r)).collect::<Vec<_>>().join(" ")).trim_end().to_string());
    }
    if rng.chance(1, 15) {
        lines.push("batch 1:x".into());
    }
    lines
}

fn run_lines(lines: &[String], rec: &mut Recorder) {
    let mut i = 0;
    while i < lines.len() {
        if lines[i].starts_with("#case ") {
            let mut j = i + 1;
            while j < lines.len() && !lines[j].starts_with("#case ") {
                j += 1;
            }
            run_case(&lines[i], &lines[i + 1..j], rec);
            i = j;
        } else {
            rec.line(&lines[i], "bad-op");
            i += 1;
        }
    }
}

pub fn main(args: &Args) {
    let mut rec = Recorder::new("a case is non-trivial if some tick emitted a quorum key/value, an error or a joined pair");
    if let Some(p) = &args.replay {
        run_lines(&hv_common::read_lines(p), &mut rec);
    } else {
        let base = Rng::new(args.seed);
        for n in 1..=args.cases {
            let mut rng = base.fork(n);
            run_lines(&gen_case(n, &mut rng), &mut rec);
        }
    }
    rec.finish(&args.out);
}
