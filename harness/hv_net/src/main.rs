//! `hv_net <mode> --seed N --cases N --out DIR --tier quick|thorough [--replay FILE]`
//! modes: c35 (networking closures + demux routing), c39 (quorum helpers), c41 (compiled flows)
mod c35;
mod c35_dm;
mod c39;
mod c41;
mod val;


fn main() {
    let args = hv_common::Args::parse();
    // stageleft resolves the flows crate through `proc_macro_crate` (reads $CARGO_MANIFEST_DIR/Cargo.toml)
    // when a flow is built at run time, exactly as it does inside build.rs
    // SAFETY: single-threaded, before anything else runs
    unsafe { std::env::set_var("CARGO_MANIFEST_DIR", env!("CARGO_MANIFEST_DIR")) };
    hv_common::quiet_panics();
    match args.mode.as_str() {
        "c35" => c35::main(&args),
        "c39" => c39::main(&args),
        "c41" => c41::main(&args),
        m => {
            eprintln!("unknown mode {m}");
            std::process::exit(2)
        }
    }
}
