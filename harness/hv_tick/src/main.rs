//! `hv_tick <mode> --seed N --cases N --out DIR --tier quick|thorough [--replay FILE]`
//! modes: c27 (wake protocol of the runner), c24 (ticks / defer_tick / run-until-idle),
//!        c26 (loop blocks), c25 (references)
mod c24;
mod c25;
mod c26;
mod c27;

fn main() {
    let args = hv_common::Args::parse();
    match args.mode.as_str() {
        "c27" => c27::main(&args),
        "c24" => c24::main(&args),
        "c26" => c26::main(&args),
        "c25" => c25::main(&args),
        m => {
            eprintln!("unknown mode {m}");
            std::process::exit(2)
        }
    }
}
