//! C25 — references read settled state and run in declaration (access group) order.
//!
//! Corpus: `programs/c25.txt`: one referenced state (a `singleton()` fed by a `'tick` fold, or a `handoff()` Vec),
//! its pipe consumer (tap 99), and closures on a per-tick trigger stream that hold `#{g} [mut] st` references —
//! written in a textual order different from the group order.  Compiled by the real `dfir_syntax!`.
//!
//! State kinds: `S<init>` singleton(), `V` handoff() Vec, `O` optional() (fed by a `'tick` reduce).  A closure ending in
//! `!` sends its output into the union read by the state's pipe consumer, so the partitioner MAY put borrower and pipe
//! consumer into one subgraph (finding F25: the subgraph take()s the slot before the borrower reads it).
//!
//! ops:  send v,v -> ok          tick <n> (n trigger items, then run_tick_sync) -> t=<tick> out=<taps>
//!       groups -> the access groups of the REAL partitioned graph (`node_handoff_reference_groups`, the input of
//!                 `find_access_group_ordering`): `g=<key>:<members>,… pairs=<number of consecutive-group pairs>`
//! Structural oracle (once per instance, on `df.meta_graph()`): in the emitted `subgraph_toposort`, every producer of the
//! referenced handoff is strictly before every borrower, every borrower strictly before every pipe consumer, and every
//! borrower of an earlier access group strictly before every borrower of a later one.
use std::cell::RefCell;
use std::collections::BTreeMap;
use std::rc::Rc;

use dfir_rs::scheduled::context::DfirErased;
use hv_common::{Args, Recorder, Rng};

use crate::c24::{Out, RxStream};

include!(concat!(env!("OUT_DIR"), "/c25_progs.rs"));

struct Inst {
    dsl: String,
    df: DfirErased,
    tx: dfir_rs::tokio::sync::mpsc::UnboundedSender<i64>,
    trig: dfir_rs::tokio::sync::mpsc::UnboundedSender<i64>,
    trig2: dfir_rs::tokio::sync::mpsc::UnboundedSender<i64>,
    /// structural oracle: a borrower shares a subgraph with (or comes after) a pipe consumer of the borrowed handoff
    shared: bool,
    out: Out,
    pending: Vec<i64>,
}

fn show_taps(recs: &[(usize, i64)]) -> String {
    let mut m: BTreeMap<usize, Vec<i64>> = BTreeMap::new();
    for &(t, v) in recs {
        m.entry(t).or_default().push(v);
    }
    if m.is_empty() {
        return "-".into();
    }
    m.into_iter()
        .map(|(t, mut vs)| {
            vs.sort();
            format!("{}:{}", t, vs.iter().map(|v| v.to_string()).collect::<Vec<_>>().join(","))
        })
        .collect::<Vec<_>>()
        .join("|")
}

/// The property, evaluated directly: producers first, then the closures group by group (each for all `n` trigger
/// items), then the pipe consumer.  Returns the expected tap records.
fn expected(dsl: &str, sent: &[i64], n: usize) -> Vec<(usize, i64)> {
    let parts: Vec<&str> = dsl.split(';').collect();
    let vec_kind = parts[0] == "V";
    let opt_kind = parts[0] == "O";
    let mut cl: Vec<(i64, &str)> = parts[1..]
        .iter()
        .map(|c| {
            let c = c.strip_suffix('!').unwrap_or(c); // where a closure's output goes does not change what it must see
            let (g, op) = c.split_once(':').unwrap();
            (if g == "-" { -1 } else { g.parse::<i64>().unwrap() }, op)
        })
        .collect();
    cl.sort_by_key(|c| c.0); // stable: same-group closures are readers only
    let mut out = Vec::new();
    if vec_kind {
        let mut buf: Vec<i64> = sent.to_vec();
        for (_, op) in &cl {
            let (k, a) = op.split_at(1);
            let a: i64 = a.parse().unwrap();
            for _ in 0..n {
                match k {
                    "p" => buf.push(a),
                    "f" => buf.retain(|y| y % a != 0),
                    "r" => out.push((a as usize, buf.len() as i64 * 1000 + buf.iter().sum::<i64>())),
                    _ => unreachable!(),
                }
            }
        }
        for v in buf {
            out.push((99, v));
        }
    } else if opt_kind {
        // reduce::<'tick>: no item this tick -> None
        let mut val: Option<i64> = if sent.is_empty() { None } else { Some(sent.iter().sum::<i64>()) };
        for (_, op) in &cl {
            let (k, a) = op.split_at(1);
            let a: i64 = a.parse().unwrap();
            for _ in 0..n {
                match k {
                    "a" => val = val.map(|v| v + a),
                    "m" => val = val.map(|v| v * a),
                    "r" => out.push((a as usize, val.unwrap_or(-1))),
                    _ => unreachable!(),
                }
            }
        }
        if let Some(v) = val {
            out.push((99, v));
        }
    } else {
        let mut val: i64 = parts[0][1..].parse::<i64>().unwrap() + sent.iter().sum::<i64>();
        for (_, op) in &cl {
            let (k, a) = op.split_at(1);
            let a: i64 = a.parse().unwrap();
            for _ in 0..n {
                match k {
                    "a" => val += a,
                    "m" => val *= a,
                    "r" => out.push((a as usize, val)),
                    _ => unreachable!(),
                }
            }
        }
        out.push((99, val));
    }
    out
}

impl Inst {
    fn new(idx: usize) -> Inst {
        let (dsl, f) = C25_PROGS[idx];
        let (tx, rx): (_, RxStream) = dfir_rs::util::unbounded_channel::<i64>();
        let (trig, trx): (_, RxStream) = dfir_rs::util::unbounded_channel::<i64>();
        let (trig2, trx2): (_, RxStream) = dfir_rs::util::unbounded_channel::<i64>();
        let out: Out = Rc::new(RefCell::new(Vec::new()));
        let df = f(rx, trx, trx2, out.clone());
        Inst { dsl: dsl.to_string(), df, tx, trig, trig2, shared: false, out, pending: Vec::new() }
    }

    /// the access groups the real partitioner works from (BTreeMap<Option<u32>, _> per referenced handoff)
    fn groups(&self) -> String {
        let g = self.df.meta_graph().expect("meta graph");
        let mut parts = Vec::new();
        let mut pairs = 0usize;
        for (_h, groups) in g.node_handoff_reference_groups() {
            let sizes: Vec<(Option<u32>, usize)> = groups.iter().map(|(k, v)| (*k, v.len())).collect();
            for w in sizes.windows(2) {
                pairs += w[0].1 * w[1].1;
            }
            for (k, n) in sizes {
                parts.push(format!("{}:{}", k.map(|x| x.to_string()).unwrap_or_else(|| "-".into()), n));
            }
        }
        format!("g={} pairs={}", if parts.is_empty() { "-".to_string() } else { parts.join(",") }, pairs)
    }

    /// structural oracle on the emitted subgraph order; returns whether a borrower is not strictly before a pipe consumer
    fn structure(&self, rec: &mut Recorder) -> bool {
        use dfir_rs::dfir_lang::graph::GraphNode;
        let g = self.df.meta_graph().expect("meta graph");
        let order = g.subgraph_toposort();
        let pos = |n| g.node_subgraph(n).and_then(|sg| order.iter().position(|&x| x == sg));
        // operators next to a handoff node, jumping over the handoff
        let mut shared = false;
        let mut refs: Vec<(dfir_rs::dfir_lang::graph::GraphNodeId, dfir_rs::dfir_lang::graph::GraphNodeId, Option<u32>)> = Vec::new();
        for b in g.node_ids() {
            for r in g.node_handoff_references(b) {
                let Some(h) = r.node_id else { continue };
                refs.push((b, h, r.access_group));
                if !matches!(g.node(h), GraphNode::Handoff { .. }) {
                    continue;
                }
                let pb = pos(b);
                for (_e, p) in g.node_predecessors(h) {
                    let ok = matches!((pos(p), pb), (Some(x), Some(y)) if x < y);
                    rec.check(ok, "producer-not-strictly-before-borrower", &format!("prog={} order={:?}/{:?}", self.dsl, pos(p), pb));
                }
                for (_e, c) in g.node_successors(h) {
                    let ok = matches!((pb, pos(c)), (Some(x), Some(y)) if x < y);
                    if !ok {
                        shared = true;
                    }
                    rec.check(ok, "borrower-not-strictly-before-pipe-consumer", &format!("prog={} borrower sg pos {:?}, consumer sg pos {:?}", self.dsl, pb, pos(c)));
                }
            }
        }
        let key = |g: Option<u32>| g.map(|x| x as i64).unwrap_or(-1);
        for &(a, ha, ga) in &refs {
            for &(b, hb, gb) in &refs {
                if ha == hb && key(ga) < key(gb) {
                    let ok = matches!((pos(a), pos(b)), (Some(x), Some(y)) if x < y);
                    rec.check(ok, "access-groups-not-in-subgraph-order", &format!("prog={} groups {:?} < {:?} at {:?}/{:?}", self.dsl, ga, gb, pos(a), pos(b)));
                }
            }
        }
        rec.count(if shared { "borrower-shares-consumer-subgraph" } else { "borrower-before-consumer" });
        shared
    }
}

fn parse_vals(s: &str) -> Option<Vec<i64>> {
    if s.is_empty() {
        return None;
    }
    s.split(',').map(|p| p.parse().ok()).collect()
}

fn exec_line(rec: &mut Recorder, inst: &mut Option<Inst>, line: &str) {
    let ws: Vec<&str> = line.split(' ').collect();
    let mut dead = false;
    let ans: Option<String> = match (ws.as_slice(), inst.as_mut()) {
        (["send", v], Some(i)) => parse_vals(v).map(|vs| {
            for v in vs {
                let _ = i.tx.send(v);
                i.pending.push(v);
            }
            rec.count("send");
            "ok".to_string()
        }),
        (["groups"], Some(i)) => {
            rec.count("groups");
            Some(i.groups())
        }
        (["tick", n], Some(i)) => n.parse::<usize>().ok().filter(|n| *n <= 8).map(|n| {
            for _ in 0..n {
                let _ = i.trig.send(0);
                let _ = i.trig2.send(0);
            }
            let before: u64 = i.df.current_tick().into();
            let df = &mut i.df;
            if let Err(msg) = hv_common::catch(std::panic::AssertUnwindSafe(|| {
                df.run_tick_sync();
            })) {
                // e.g. a reference evaluated after the pipe consumer drained the slot
                rec.check(false, if i.shared { "reference-panicked-after-drain@borrower-in-consumer-subgraph" } else { "tick-panicked-on-reference" }, &format!("prog={} n={} panic: {}", i.dsl, n, msg.chars().take(120).collect::<String>()));
                dead = true;
                return "panic".to_string();
            }
            let after: u64 = i.df.current_tick().into();
            let recs: Vec<(usize, i64)> = i.out.borrow_mut().drain(..).map(|r| (r.0, r.2)).collect();
            let sent = std::mem::take(&mut i.pending);
            let got = show_taps(&recs);
            let want = show_taps(&expected(&i.dsl, &sent, n));
            rec.check(after == before + 1, "tick-counter-not-plus-one", &i.dsl);
            rec.check(got == want, if i.shared { "reference-read-after-drain@borrower-in-consumer-subgraph" } else { "reference-read-not-settled-or-groups-out-of-order" }, &format!("prog={} sent={:?} n={} got={} expected={}", i.dsl, sent, n, got, want));
            rec.count("tick");
            rec.count(&format!("trigger-items-{n}"));
            format!("t={} out={}", after, got)
        }),
        _ => None,
    };
    if dead {
        *inst = None;
    }
    rec.line(line, &ans.unwrap_or_else(|| "bad-op".into()));
}

fn prog_index(tag: &str) -> Option<usize> {
    let dsl = tag.split(' ').find_map(|w| w.strip_prefix("refs="))?;
    C25_PROGS.iter().position(|p| p.0 == dsl)
}

pub fn main(args: &Args) {
    let mut rec = Recorder::new("reference program run for at least one tick with trigger items");
    hv_common::quiet_panics();
    if let Some(rp) = &args.replay {
        let mut inst: Option<Inst> = None;
        let mut any = false;
        for l in hv_common::read_lines(rp) {
            if l.starts_with("#case") {
                if any {
                    rec.nontrivial();
                }
                any = true;
                let ws: Vec<&str> = l.splitn(3, ' ').collect();
                let n = ws.get(1).and_then(|x| x.parse().ok()).unwrap_or(0);
                let tag = ws.get(2).copied().unwrap_or("");
                rec.case(n, tag);
                inst = prog_index(tag).map(Inst::new);
                if let Some(i) = inst.as_mut() {
                    i.shared = i.structure(&mut rec);
                }
            } else {
                exec_line(&mut rec, &mut inst, &l);
            }
        }
        if any {
            rec.nontrivial();
        }
        rec.finish(&args.out);
        return;
    }
    let root = Rng::new(args.seed);
    for n in 0..args.cases.max(C25_PROGS.len() as u64) {
        let mut rng = root.fork(n);
        let idx = (n as usize) % C25_PROGS.len();
        let mut inst = Some(Inst::new(idx));
        rec.case(n, &format!("refs={}", C25_PROGS[idx].0));
        rec.count(&format!("prog-{idx:02}"));
        if let Some(i) = inst.as_mut() {
            i.shared = i.structure(&mut rec);
        }
        exec_line(&mut rec, &mut inst, "groups");
        for _ in 0..rng.range(2, 7) {
            let l = match rng.below(10) {
                0..=3 => {
                    let k = rng.range(1, 3);
                    format!("send {}", (0..k).map(|_| rng.range(1, 9).to_string()).collect::<Vec<_>>().join(","))
                }
                4..=8 => format!("tick {}", rng.below(4)),
                _ => {
                    if rng.chance(1, 5) {
                        rec.count("malformed");
                        "tick 99".to_string()
                    } else {
                        "tick 1".to_string()
                    }
                }
            };
            exec_line(&mut rec, &mut inst, &l);
        }
        exec_line(&mut rec, &mut inst, "tick 2");
        rec.nontrivial();
    }
    rec.finish(&args.out);
}
