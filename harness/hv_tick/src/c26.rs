//! C26 — loop blocks iterate to a fixpoint with correct windowing.
//!
//! Corpus: `programs/c26.txt` (C24 stage language + `loop { batch()/batch_lazy() … } -> all_iterations()`,
//! nested up to depth 3, `defer_tick[_lazy]` and cycles inside loops), compiled by the real `dfir_syntax!`.
//! Every loop body carries an iteration marker (tap `100 + loop id`, one record per run of the body).
//!
//! ops:  send v,v | send2 v,v -> ok      tick -> t=<tick> out=<taps>       avail -> n=<ticks> t=<tick> out=<taps>/<taps>…
use std::cell::RefCell;
use std::collections::BTreeMap;
use std::rc::Rc;

use dfir_rs::scheduled::context::{DfirErased, verif_hooks};
use hv_common::{Args, Recorder, Rng};

use crate::c24::{Out, RxStream};

include!(concat!(env!("OUT_DIR"), "/c26_progs.rs"));

const TICK_CAP: u64 = 3000;

#[derive(Clone, Debug)]
struct LoopInfo {
    depth: usize,
    main_lazy: bool,
    extra: Option<bool>,
    /// delays (D/L/C/K) directly in this loop's body
    direct_delays: usize,
    /// … of which non-lazy (D/C)
    direct_nonlazy: usize,
    /// tap immediately before the loop's `[`, if any
    tap_before: Option<usize>,
    /// `C n` directly after the entry (and the only direct delay), if so
    first_cycle: Option<i64>,
    parent: Option<usize>,
}

fn analyse(dsl: &str) -> Vec<LoopInfo> {
    let toks: Vec<&str> = dsl.split(',').collect();
    let mut loops: Vec<LoopInfo> = Vec::new();
    let mut stack: Vec<usize> = Vec::new();
    for (k, t) in toks.iter().enumerate() {
        if let Some(a) = t.strip_prefix('[') {
            let extra = match toks.get(k + 1) {
                Some(&"X") => Some(false),
                Some(&"Z") => Some(true),
                _ => None,
            };
            let body_start = if extra.is_some() { k + 2 } else { k + 1 };
            let first_cycle = toks.get(body_start).and_then(|s| s.strip_prefix('C')).and_then(|n| n.parse().ok());
            loops.push(LoopInfo {
                depth: stack.len() + 1,
                main_lazy: a == "z",
                extra,
                direct_delays: 0,
                direct_nonlazy: 0,
                tap_before: if k > 0 { toks[k - 1].strip_prefix('T').and_then(|n| n.parse().ok()) } else { None },
                first_cycle,
                parent: stack.last().copied(),
            });
            stack.push(loops.len() - 1);
        } else if *t == "]" {
            stack.pop();
        } else if matches!(&t[..1], "D" | "L" | "C" | "K") {
            if let Some(&l) = stack.last() {
                loops[l].direct_delays += 1;
                if matches!(&t[..1], "D" | "C") {
                    loops[l].direct_nonlazy += 1;
                }
            }
        }
    }
    loops
}

struct Inst {
    dsl: String,
    loops: Vec<LoopInfo>,
    df: DfirErased,
    tx: dfir_rs::tokio::sync::mpsc::UnboundedSender<i64>,
    tx2: dfir_rs::tokio::sync::mpsc::UnboundedSender<i64>,
    out: Out,
    pending2: Vec<i64>,
    hist: BTreeMap<(usize, u64), Vec<i64>>,
}

fn show_taps(recs: &[(usize, i64)]) -> String {
    let mut m: BTreeMap<usize, Vec<i64>> = BTreeMap::new();
    for &(t, v) in recs {
        m.entry(t).or_default().push(v);
    }
    if m.is_empty() {
        return "-".into();
    }
    m.into_iter()
        .map(|(t, mut vs)| {
            vs.sort();
            format!("{}:{}", t, vs.iter().map(|v| v.to_string()).collect::<Vec<_>>().join(","))
        })
        .collect::<Vec<_>>()
        .join("|")
}

impl Inst {
    fn new(idx: usize) -> Inst {
        let (dsl, f) = C26_PROGS[idx];
        let (tx, rx): (_, RxStream) = dfir_rs::util::unbounded_channel::<i64>();
        let (tx2, rx2): (_, RxStream) = dfir_rs::util::unbounded_channel::<i64>();
        let out: Out = Rc::new(RefCell::new(Vec::new()));
        let df = f(rx, rx2, out.clone());
        Inst { dsl: dsl.to_string(), loops: analyse(dsl), df, tx, tx2, out, pending2: Vec::new(), hist: BTreeMap::new() }
    }
    fn at(&self, tap: usize, t: u64) -> Vec<i64> {
        let mut v = self.hist.get(&(tap, t)).cloned().unwrap_or_default();
        v.sort();
        v
    }
    fn collect(&mut self, from: u64, to: u64) -> Vec<String> {
        let recs: Vec<(usize, u64, i64)> = self.out.borrow_mut().drain(..).collect();
        let mut per_tick = Vec::new();
        for t in from..to {
            let rs: Vec<(usize, i64)> = recs.iter().filter(|r| r.1 == t).map(|r| (r.0, r.2)).collect();
            per_tick.push(show_taps(&rs));
        }
        for (tap, t, v) in recs {
            self.hist.entry((tap, t)).or_default().push(v);
        }
        per_tick
    }
    /// oracles for ticks `from..to`; `src2_first` = what the second source delivers in tick `from`
    fn oracles(&self, rec: &mut Recorder, from: u64, to: u64, src2_first: &[i64]) {
        let toks: Vec<&str> = self.dsl.split(',').collect();
        let tap_of = |s: &str| -> Option<usize> { s.strip_prefix('T').and_then(|a| a.parse().ok()) };
        for t in from..to {
            for (id, l) in self.loops.iter().enumerate() {
                let runs = self.at(100 + id, t).len();
                if l.depth == 1 {
                    rec.check(runs <= 1, "root-loop-ran-more-than-once-in-a-tick", &format!("prog={} loop={} tick={} runs={}", self.dsl, id, t, runs));
                    if l.direct_delays == 0 {
                        if let Some(a) = l.tap_before {
                            let s2: &[i64] = if t == from { src2_first } else { &[] };
                            let expect = (!l.main_lazy && !self.at(a, t).is_empty()) || (l.extra == Some(false) && !s2.is_empty());
                            let all_lazy = l.main_lazy && l.extra != Some(false) && l.direct_nonlazy == 0;
                            let sig = if all_lazy { "loop-with-only-lazy-entries-runs-unconditionally" } else { "root-loop-gate-wrong" };
                            rec.check((runs == 1) == expect, sig, &format!("prog={} loop={} tick={} runs={} expected fire={}", self.dsl, id, t, runs, expect));
                        }
                    }
                } else if let (Some(n), Some(a), 1, Some(p)) = (l.first_cycle, l.tap_before, l.direct_delays, l.parent) {
                    // nested loop fed once per tick by a root loop, body starts with `C n`: iterate until every
                    // recirculating item has reached n
                    if self.loops[p].depth == 1 && !l.main_lazy {
                        let b = self.at(a, t);
                        let expect: i64 = b.iter().map(|&x| if x < n { n - x + 1 } else { 1 }).max().unwrap_or(0);
                        rec.check(runs as i64 == expect, "nested-loop-iteration-count-wrong", &format!("prog={} loop={} tick={} entry={:?} runs={} expected={}", self.dsl, id, t, b, runs, expect));
                    }
                }
            }
            for w in toks.windows(3) {
                if let (Some(a), "]", Some(b)) = (tap_of(w[0]), w[1], tap_of(w[2])) {
                    rec.check(self.at(a, t) == self.at(b, t), "all_iterations-lost-or-duplicated", &format!("prog={} tick={} inside={:?} outside={:?}", self.dsl, t, self.at(a, t), self.at(b, t)));
                }
            }
        }
    }
}

fn parse_vals(s: &str) -> Option<Vec<i64>> {
    if s.is_empty() {
        return None;
    }
    s.split(',').map(|p| p.parse().ok()).collect()
}

fn exec_line(rec: &mut Recorder, inst: &mut Option<Inst>, line: &str) {
    let ws: Vec<&str> = line.split(' ').collect();
    let ans: Option<String> = match (ws.as_slice(), inst.as_mut()) {
        (["send", v], Some(i)) => parse_vals(v).map(|vs| {
            for v in vs {
                let _ = i.tx.send(v);
            }
            rec.count("send");
            "ok".to_string()
        }),
        (["send2", v], Some(i)) => parse_vals(v).map(|vs| {
            for v in vs {
                let _ = i.tx2.send(v);
                i.pending2.push(v);
            }
            rec.count("send2");
            "ok".to_string()
        }),
        (["tick"], Some(i)) => {
            let before: u64 = i.df.current_tick().into();
            let df = &mut i.df;
            if let Err(msg) = hv_common::catch(std::panic::AssertUnwindSafe(|| {
                df.run_tick_sync();
            })) {
                rec.check(false, "tick-panicked", &format!("prog={} panic: {}", i.dsl, msg.chars().take(120).collect::<String>()));
                rec.line(line, "panic");
                *inst = None;
                return;
            }
            let after: u64 = i.df.current_tick().into();
            let outs = i.collect(before, after);
            let s2 = std::mem::take(&mut i.pending2);
            rec.check(after == before + 1, "tick-counter-not-plus-one", &format!("prog={}", i.dsl));
            i.oracles(rec, before, after, &s2);
            rec.count("tick");
            Some(format!("t={} out={}", after, outs.join("/")))
        }
        (["avail"], Some(i)) => {
            let before: u64 = i.df.current_tick().into();
            // guard against a run-until-idle that never becomes idle (reported, not waited for)
            let ticks = Rc::new(std::cell::Cell::new(0u64));
            {
                let t2 = ticks.clone();
                verif_hooks::set_point_hook(Some(Box::new(move |name| {
                    if name == "rt_call" {
                        t2.set(t2.get() + 1);
                        if t2.get() > TICK_CAP {
                            panic!("runaway run_available");
                        }
                    }
                })));
            }
            let r = hv_common::catch(std::panic::AssertUnwindSafe(|| i.df.run_available_sync()));
            verif_hooks::set_point_hook(None);
            if r.is_err() {
                rec.check(false, "run_available-does-not-become-idle", &format!("prog={} more than {} ticks", i.dsl, TICK_CAP));
                rec.line(line, "runaway");
                *inst = None;
                return;
            }
            let after: u64 = i.df.current_tick().into();
            let outs = i.collect(before, after);
            let s2 = std::mem::take(&mut i.pending2);
            i.oracles(rec, before, after, &s2);
            rec.count("avail");
            rec.count_n("avail-ticks", after - before);
            Some(format!("n={} t={} out={}", after - before, after, outs.join("/")))
        }
        _ => None,
    };
    if let (Some(a), Some(i)) = (&ans, inst.as_ref()) {
        let _ = i;
        for seg in a.split(['|', '/', '=', ' ']) {
            if let Some((tap, vals)) = seg.split_once(':') {
                if tap.parse::<usize>().is_ok_and(|t| t >= 100) && vals.split(',').count() > 1 {
                    rec.count("loop-multi-iteration-tick");
                }
            }
        }
    }
    rec.line(line, &ans.unwrap_or_else(|| "bad-op".into()));
}

fn prog_index(tag: &str) -> Option<usize> {
    let dsl = tag.split(' ').find_map(|w| w.strip_prefix("prog="))?;
    C26_PROGS.iter().position(|p| p.0 == dsl)
}

fn gen_vals(rng: &mut Rng) -> String {
    let n = rng.range(1, 4);
    (0..n).map(|_| rng.below(6).to_string()).collect::<Vec<_>>().join(",")
}

pub fn main(args: &Args) {
    let mut rec = Recorder::new("loop program driven for at least one tick after data was sent");
    hv_common::quiet_panics();
    if let Some(rp) = &args.replay {
        let mut inst: Option<Inst> = None;
        let mut any = false;
        for l in hv_common::read_lines(rp) {
            if l.starts_with("#case") {
                if any {
                    rec.nontrivial();
                }
                any = true;
                let ws: Vec<&str> = l.splitn(3, ' ').collect();
                let n = ws.get(1).and_then(|x| x.parse().ok()).unwrap_or(0);
                let tag = ws.get(2).copied().unwrap_or("");
                rec.case(n, tag);
                inst = prog_index(tag).map(Inst::new);
            } else {
                exec_line(&mut rec, &mut inst, &l);
            }
        }
        if any {
            rec.nontrivial();
        }
        rec.finish(&args.out);
        return;
    }
    let root = Rng::new(args.seed);
    for n in 0..args.cases.max(C26_PROGS.len() as u64) {
        let mut rng = root.fork(n);
        let idx = (n as usize) % C26_PROGS.len();
        let mut inst = Some(Inst::new(idx));
        let uses2 = C26_PROGS[idx].0.contains(",X,") || C26_PROGS[idx].0.contains(",Z,");
        rec.case(n, &format!("prog={}", C26_PROGS[idx].0));
        rec.count(&format!("prog-{idx:02}"));
        for _ in 0..rng.range(3, 9) {
            let l = match rng.below(10) {
                0..=2 => format!("send {}", gen_vals(&mut rng)),
                3 if uses2 => format!("send2 {}", gen_vals(&mut rng)),
                3..=6 => "tick".to_string(),
                7..=8 => "avail".to_string(),
                _ => {
                    if rng.chance(1, 8) {
                        rec.count("malformed");
                        "send x".to_string()
                    } else {
                        "tick".to_string()
                    }
                }
            };
            exec_line(&mut rec, &mut inst, &l);
        }
        exec_line(&mut rec, &mut inst, "avail");
        rec.nontrivial();
    }
    rec.finish(&args.out);
}
