//! C26 — loop blocks iterate to a fixpoint with correct windowing.
//!
//! Corpus: `programs/c26.txt` (C24 stage language + `loop { batch()/batch_lazy() … } -> all_iterations()`,
//! nested up to depth 3, `defer_tick[_lazy]` and cycles inside loops), compiled by the real `dfir_syntax!`.
//! Every loop body carries an iteration marker (tap `100 + loop id`, one record per run of the body).
//! The same engine runs the loop programs of `programs/c24.txt` in mode c24 (ticks × loop blocks: `defer_tick[_lazy]`
//! in root-level and nested loops under `run_available_sync`, `'tick` / `'static` operators inside loops).
//!
//! ops:  send v,v | send2 v,v -> ok      tick -> t=<tick> out=<taps>       avail -> n=<ticks> t=<tick> out=<taps>/<taps>…
use std::cell::RefCell;
use std::collections::{BTreeMap, BTreeSet};
use std::rc::Rc;

use dfir_rs::scheduled::context::{DfirErased, verif_hooks};
use hv_common::{Args, Recorder, Rng};

use crate::c24::{Out, RxStream};

include!(concat!(env!("OUT_DIR"), "/c26_progs.rs"));

const TICK_CAP: u64 = 3000;

#[derive(Clone, Debug)]
struct LoopInfo {
    depth: usize,
    main_lazy: bool,
    extra: Option<bool>,
    /// delays (D/L/C/K) directly in this loop's body
    direct_delays: usize,
    /// … of which non-lazy (D/C)
    direct_nonlazy: usize,
    /// tap immediately before the loop's `[`, if any
    tap_before: Option<usize>,
    /// `C n` directly after the entry (and the only direct delay), if so
    first_cycle: Option<i64>,
    parent: Option<usize>,
}

/// a token of the program text with the block it stands in
#[derive(Clone, Debug)]
struct Tok {
    text: String,
    /// 0 = outside every loop, 1 = directly in a root-level loop, …
    depth: usize,
    /// innermost enclosing loop
    lp: Option<usize>,
    /// brackets and the `X`/`Z` second-entry markers are not stages
    stage: bool,
}

fn analyse(dsl: &str) -> (Vec<LoopInfo>, Vec<Tok>) {
    let toks: Vec<&str> = dsl.split(',').collect();
    let mut loops: Vec<LoopInfo> = Vec::new();
    let mut stack: Vec<usize> = Vec::new();
    let mut out_toks: Vec<Tok> = Vec::new();
    for (k, t) in toks.iter().enumerate() {
        let stage = !(t.starts_with('[') || *t == "]" || *t == "X" || *t == "Z");
        if *t == "]" {
            out_toks.push(Tok { text: t.to_string(), depth: stack.len().saturating_sub(1), lp: None, stage });
        } else {
            out_toks.push(Tok { text: t.to_string(), depth: stack.len(), lp: stack.last().copied(), stage });
        }
        if let Some(a) = t.strip_prefix('[') {
            let extra = match toks.get(k + 1) {
                Some(&"X") => Some(false),
                Some(&"Z") => Some(true),
                _ => None,
            };
            let body_start = if extra.is_some() { k + 2 } else { k + 1 };
            let first_cycle = toks.get(body_start).and_then(|s| s.strip_prefix('C')).and_then(|n| n.parse().ok());
            loops.push(LoopInfo {
                depth: stack.len() + 1,
                main_lazy: a == "z",
                extra,
                direct_delays: 0,
                direct_nonlazy: 0,
                tap_before: if k > 0 { toks[k - 1].strip_prefix('T').and_then(|n| n.parse().ok()) } else { None },
                first_cycle,
                parent: stack.last().copied(),
            });
            stack.push(loops.len() - 1);
        } else if *t == "]" {
            stack.pop();
        } else if matches!(&t[..1], "D" | "L" | "C" | "K") {
            if let Some(&l) = stack.last() {
                loops[l].direct_delays += 1;
                if matches!(&t[..1], "D" | "C") {
                    loops[l].direct_nonlazy += 1;
                }
            }
        }
    }
    (loops, out_toks)
}

pub struct Inst {
    dsl: String,
    loops: Vec<LoopInfo>,
    toks: Vec<Tok>,
    df: DfirErased,
    tx: dfir_rs::tokio::sync::mpsc::UnboundedSender<i64>,
    tx2: dfir_rs::tokio::sync::mpsc::UnboundedSender<i64>,
    out: Out,
    pending2: Vec<i64>,
    hist: BTreeMap<(usize, u64), Vec<i64>>,
}

fn show_taps(recs: &[(usize, i64)]) -> String {
    let mut m: BTreeMap<usize, Vec<i64>> = BTreeMap::new();
    for &(t, v) in recs {
        m.entry(t).or_default().push(v);
    }
    if m.is_empty() {
        return "-".into();
    }
    m.into_iter()
        .map(|(t, mut vs)| {
            vs.sort();
            format!("{}:{}", t, vs.iter().map(|v| v.to_string()).collect::<Vec<_>>().join(","))
        })
        .collect::<Vec<_>>()
        .join("|")
}

impl Inst {
    fn new(idx: usize) -> Inst {
        let (dsl, f) = C26_PROGS[idx];
        Inst::build(dsl, f)
    }
    pub fn build(dsl: &str, f: fn(RxStream, RxStream, Out) -> DfirErased) -> Inst {
        let (tx, rx): (_, RxStream) = dfir_rs::util::unbounded_channel::<i64>();
        let (tx2, rx2): (_, RxStream) = dfir_rs::util::unbounded_channel::<i64>();
        let out: Out = Rc::new(RefCell::new(Vec::new()));
        let df = f(rx, rx2, out.clone());
        let (loops, toks) = analyse(dsl);
        Inst { dsl: dsl.to_string(), loops, toks, df, tx, tx2, out, pending2: Vec::new(), hist: BTreeMap::new() }
    }
    fn at(&self, tap: usize, t: u64) -> Vec<i64> {
        let mut v = self.hist.get(&(tap, t)).cloned().unwrap_or_default();
        v.sort();
        v
    }
    /// in record order
    fn raw(&self, tap: usize, t: u64) -> Vec<i64> {
        self.hist.get(&(tap, t)).cloned().unwrap_or_default()
    }
    /// how often the block `lp` ran in tick `t` (a depth-0 stage runs once per tick)
    fn runs(&self, lp: Option<usize>, t: u64) -> usize {
        match lp {
            None => 1,
            Some(id) => self.raw(100 + id, t).len(),
        }
    }

    /// C24 oracles (ticks × loop blocks), independent of the Lean model: read off adjacent taps of one block.
    fn tick_oracles(&self, rec: &mut Recorder, from: u64, to: u64, avail_calls: Option<u64>) {
        let tap_of = |s: &str| -> Option<usize> { s.strip_prefix('T').and_then(|a| a.parse().ok()) };
        let same_block = |w: &[Tok]| w.iter().all(|x| x.stage && x.lp == w[0].lp);
        let in_loop = |d: usize| if d == 0 { "" } else { "-in-loop" };
        for w in self.toks.windows(3) {
            if !same_block(w) {
                continue;
            }
            let (Some(a), Some(b)) = (tap_of(&w[0].text), tap_of(&w[2].text)) else { continue };
            let (depth, lp) = (w[1].depth, w[1].lp);
            let st = w[1].text.as_str();
            for t in from..to {
                match st {
                    "D" | "L" if depth == 0 => {
                        let expect = if t == 0 { vec![] } else { self.at(a, t - 1) };
                        let sig = if st == "D" { "defer_tick-not-exactly-next-tick" } else { "defer_tick_lazy-not-exactly-next-tick" };
                        rec.check(self.at(b, t) == expect, sig, &format!("prog={} tick={} entered at tick-1: {:?} left: {:?}", self.dsl, t, expect, self.at(b, t)));
                    }
                    "D" | "L" if depth == 1 => {
                        // the handoff is swapped inside the root loop's `if` gate: what entered in one run of the loop
                        // leaves in its next run; for the non-lazy one that next run is the next tick
                        let ran = self.runs(lp, t) > 0;
                        if st == "D" && t > 0 && !self.at(a, t - 1).is_empty() {
                            rec.check(
                                ran && self.at(b, t) == self.at(a, t - 1),
                                "defer_tick-in-root-loop-not-exactly-next-tick",
                                &format!("prog={} tick={} entered at tick-1: {:?} loop ran: {} left: {:?}", self.dsl, t, self.at(a, t - 1), ran, self.at(b, t)),
                            );
                        } else if ran {
                            let prev = (0..t).rev().find(|&u| self.runs(lp, u) > 0);
                            let expect = prev.map(|u| self.at(a, u)).unwrap_or_default();
                            let sig = if st == "D" { "defer_tick-in-root-loop-wrong-delivery" } else { "defer_tick_lazy-in-root-loop-wrong-delivery" };
                            rec.check(self.at(b, t) == expect, sig, &format!("prog={} tick={} previous run of the loop: {:?} entered then: {:?} left now: {:?}", self.dsl, t, prev, expect, self.at(b, t)));
                        }
                    }
                    "Ut" => {
                        let expect: Vec<i64> = self.at(a, t).into_iter().collect::<BTreeSet<_>>().into_iter().collect();
                        rec.check(self.at(b, t) == expect, &format!("unique-tick-state-not-cleared{}", in_loop(depth)), &format!("prog={} tick={} in {:?} out {:?}", self.dsl, t, self.at(a, t), self.at(b, t)));
                    }
                    "Us" => {
                        let mut earlier = BTreeSet::new();
                        for u in 0..t {
                            earlier.extend(self.at(a, u));
                        }
                        let expect: Vec<i64> = self.at(a, t).into_iter().collect::<BTreeSet<_>>().into_iter().filter(|x| !earlier.contains(x)).collect();
                        rec.check(self.at(b, t) == expect, &format!("unique-static-state-not-kept{}", in_loop(depth)), &format!("prog={} tick={} in {:?} out {:?}", self.dsl, t, self.at(a, t), self.at(b, t)));
                    }
                    "Et" | "Es" => {
                        let off: usize = if st == "Et" { 0 } else { (0..t).map(|u| self.raw(a, u).len()).sum() };
                        let expect: Vec<i64> = self.raw(a, t).iter().enumerate().map(|(j, x)| x + 100 * (off + j) as i64).collect();
                        let sig = if st == "Et" { "enumerate-tick-state-not-cleared" } else { "enumerate-static-state-not-kept" };
                        rec.check(self.raw(b, t) == expect, &format!("{}{}", sig, in_loop(depth)), &format!("prog={} tick={} in {:?} out {:?} expected {:?}", self.dsl, t, self.raw(a, t), self.raw(b, t), expect));
                    }
                    _ => {}
                }
            }
        }
        for w in self.toks.windows(2) {
            if !same_block(w) {
                continue;
            }
            let (depth, lp) = (w[1].depth, w[1].lp);
            // side-branch accumulators: `T a, F|R|G p tap`
            if let (Some(a), Some(kind)) = (tap_of(&w[0].text), w[1].text.chars().next().filter(|c| "FRG".contains(*c))) {
                let rest = &w[1].text[1..];
                let (p, tap) = rest.split_at(1);
                let Ok(tap) = tap.parse::<usize>() else { continue };
                for t in from..to {
                    let scope: Vec<i64> = if p == "t" { self.raw(a, t) } else { (0..=t).flat_map(|u| self.raw(a, u)).collect() };
                    let n = self.runs(lp, t);
                    let recs = self.raw(tap, t);
                    let what = if p == "t" { "tick-state-not-cleared" } else { "static-state-not-kept" };
                    let detail = format!("prog={} tick={} state should cover {:?}, runs of the block {}, recorded {:?}", self.dsl, t, scope, n, recs);
                    match kind {
                        'F' => {
                            let sum: i64 = scope.iter().sum();
                            rec.check(recs.len() == n, &format!("fold-emission-count{}", in_loop(depth)), &detail);
                            rec.check(n == 0 || recs.last() == Some(&sum), &format!("fold-{}{}", what, in_loop(depth)), &detail);
                        }
                        'R' => {
                            let sum: i64 = scope.iter().sum();
                            let ok = if scope.is_empty() { recs.is_empty() } else { n == 0 || recs.last() == Some(&sum) };
                            rec.check(ok, &format!("reduce-{}{}", what, in_loop(depth)), &detail);
                        }
                        _ => {
                            let mut want: BTreeMap<i64, i64> = BTreeMap::new();
                            for x in &scope {
                                *want.entry(x % 2).or_default() += x;
                            }
                            let mut got: BTreeMap<i64, i64> = BTreeMap::new();
                            for r in &recs {
                                let e = got.entry(r / 100000).or_insert(i64::MIN);
                                *e = (*e).max(r % 100000);
                            }
                            let ok = if n == 0 { recs.is_empty() } else { got == want };
                            rec.check(ok, &format!("fold_keyed-{}{}", what, in_loop(depth)), &detail);
                        }
                    }
                }
            }
            // run-until-idle must not stop while non-lazy deferred data is pending (outside loops or in a root-level loop)
            if let Some(calls) = avail_calls {
                if to > from && depth <= 1 && calls != u64::MAX {
                    let last = to - 1;
                    if let (Some(a), "D") = (tap_of(&w[0].text), w[1].text.as_str()) {
                        rec.check(
                            self.at(a, last).is_empty(),
                            "run_available-stopped-with-non-lazy-deferred-data",
                            &format!("prog={} last tick={} entered defer_tick: {:?}", self.dsl, last, self.at(a, last)),
                        );
                    }
                    if let (Some(n), Some(b)) = (w[0].text.strip_prefix('C').and_then(|x| x.parse::<i64>().ok()), tap_of(&w[1].text)) {
                        let pending: Vec<i64> = self.at(b, last).into_iter().filter(|x| *x < n).collect();
                        rec.check(
                            pending.is_empty(),
                            "run_available-stopped-with-non-lazy-deferred-data",
                            &format!("prog={} last tick={} items recirculated through defer_tick: {:?}", self.dsl, last, pending),
                        );
                    }
                }
            }
        }
        if let Some(calls) = avail_calls {
            // nothing is sent during the call: with no non-lazy delay outside loops / in a root-level loop only the
            // first tick runs (a non-lazy delay in a nested loop is drained by the `while` before the schedule check)
            let nonlazy = self.toks.iter().any(|x| x.depth <= 1 && (x.text == "D" || x.text.starts_with('C')));
            if !nonlazy && calls != u64::MAX {
                rec.check(calls == 1, "run_available-ticked-again-on-lazy-data-alone", &format!("prog={} ticks run={}", self.dsl, calls));
            }
        }
    }
    fn collect(&mut self, from: u64, to: u64) -> Vec<String> {
        let recs: Vec<(usize, u64, i64)> = self.out.borrow_mut().drain(..).collect();
        let mut per_tick = Vec::new();
        for t in from..to {
            let rs: Vec<(usize, i64)> = recs.iter().filter(|r| r.1 == t).map(|r| (r.0, r.2)).collect();
            per_tick.push(show_taps(&rs));
        }
        for (tap, t, v) in recs {
            self.hist.entry((tap, t)).or_default().push(v);
        }
        per_tick
    }
    /// oracles for ticks `from..to`; `src2_first` = what the second source delivers in tick `from`
    fn oracles(&self, rec: &mut Recorder, from: u64, to: u64, src2_first: &[i64]) {
        let toks: Vec<&str> = self.dsl.split(',').collect();
        let tap_of = |s: &str| -> Option<usize> { s.strip_prefix('T').and_then(|a| a.parse().ok()) };
        for t in from..to {
            for (id, l) in self.loops.iter().enumerate() {
                let runs = self.at(100 + id, t).len();
                if l.depth == 1 {
                    rec.check(runs <= 1, "root-loop-ran-more-than-once-in-a-tick", &format!("prog={} loop={} tick={} runs={}", self.dsl, id, t, runs));
                    if l.direct_delays == 0 {
                        if let Some(a) = l.tap_before {
                            let s2: &[i64] = if t == from { src2_first } else { &[] };
                            let expect = (!l.main_lazy && !self.at(a, t).is_empty()) || (l.extra == Some(false) && !s2.is_empty());
                            let all_lazy = l.main_lazy && l.extra != Some(false) && l.direct_nonlazy == 0;
                            let sig = if all_lazy { "loop-with-only-lazy-entries-runs-unconditionally" } else { "root-loop-gate-wrong" };
                            rec.check((runs == 1) == expect, sig, &format!("prog={} loop={} tick={} runs={} expected fire={}", self.dsl, id, t, runs, expect));
                        }
                    }
                } else if let (Some(n), Some(a), 1, Some(p)) = (l.first_cycle, l.tap_before, l.direct_delays, l.parent) {
                    // nested loop fed once per tick by a root loop, body starts with `C n`: iterate until every
                    // recirculating item has reached n
                    if self.loops[p].depth == 1 && !l.main_lazy {
                        let b = self.at(a, t);
                        let expect: i64 = b.iter().map(|&x| if x < n { n - x + 1 } else { 1 }).max().unwrap_or(0);
                        rec.check(runs as i64 == expect, "nested-loop-iteration-count-wrong", &format!("prog={} loop={} tick={} entry={:?} runs={} expected={}", self.dsl, id, t, b, runs, expect));
                    }
                }
            }
            for w in toks.windows(3) {
                if let (Some(a), "]", Some(b)) = (tap_of(w[0]), w[1], tap_of(w[2])) {
                    rec.check(self.at(a, t) == self.at(b, t), "all_iterations-lost-or-duplicated", &format!("prog={} tick={} inside={:?} outside={:?}", self.dsl, t, self.at(a, t), self.at(b, t)));
                }
            }
        }
    }
}

fn parse_vals(s: &str) -> Option<Vec<i64>> {
    if s.is_empty() {
        return None;
    }
    s.split(',').map(|p| p.parse().ok()).collect()
}

pub fn exec_line(rec: &mut Recorder, inst: &mut Option<Inst>, line: &str) {
    let ws: Vec<&str> = line.split(' ').collect();
    let ans: Option<String> = match (ws.as_slice(), inst.as_mut()) {
        (["send", v], Some(i)) => parse_vals(v).map(|vs| {
            for v in vs {
                let _ = i.tx.send(v);
            }
            rec.count("send");
            "ok".to_string()
        }),
        (["send2", v], Some(i)) => parse_vals(v).map(|vs| {
            for v in vs {
                let _ = i.tx2.send(v);
                i.pending2.push(v);
            }
            rec.count("send2");
            "ok".to_string()
        }),
        (["tick"], Some(i)) => {
            let before: u64 = i.df.current_tick().into();
            let df = &mut i.df;
            if let Err(msg) = hv_common::catch(std::panic::AssertUnwindSafe(|| {
                df.run_tick_sync();
            })) {
                rec.check(false, "tick-panicked", &format!("prog={} panic: {}", i.dsl, msg.chars().take(120).collect::<String>()));
                rec.line(line, "panic");
                *inst = None;
                return;
            }
            let after: u64 = i.df.current_tick().into();
            let outs = i.collect(before, after);
            let s2 = std::mem::take(&mut i.pending2);
            rec.check(after == before + 1, "tick-counter-not-plus-one", &format!("prog={}", i.dsl));
            i.oracles(rec, before, after, &s2);
            i.tick_oracles(rec, before, after, None);
            rec.count("tick");
            Some(format!("t={} out={}", after, outs.join("/")))
        }
        (["avail"], Some(i)) => {
            let before: u64 = i.df.current_tick().into();
            // guard against a run-until-idle that never becomes idle (reported, not waited for)
            let ticks = Rc::new(std::cell::Cell::new(0u64));
            {
                let t2 = ticks.clone();
                verif_hooks::set_point_hook(Some(Box::new(move |name| {
                    if name == "rt_call" {
                        t2.set(t2.get() + 1);
                        if t2.get() > TICK_CAP {
                            panic!("runaway run_available");
                        }
                    }
                })));
            }
            let r = hv_common::catch(std::panic::AssertUnwindSafe(|| i.df.run_available_sync()));
            verif_hooks::set_point_hook(None);
            if r.is_err() {
                rec.check(false, "run_available-does-not-become-idle", &format!("prog={} more than {} ticks", i.dsl, TICK_CAP));
                rec.line(line, "runaway");
                *inst = None;
                return;
            }
            let after: u64 = i.df.current_tick().into();
            let outs = i.collect(before, after);
            let s2 = std::mem::take(&mut i.pending2);
            rec.check(
                after == before + ticks.get() && ticks.get() >= 1,
                "tick-counter-not-plus-one",
                &format!("prog={} before={} after={} closure calls={}", i.dsl, before, after, ticks.get()),
            );
            i.oracles(rec, before, after, &s2);
            i.tick_oracles(rec, before, after, Some(ticks.get()));
            rec.count("avail");
            if after - before > 1 {
                rec.count("avail-multi-tick");
            }
            rec.count_n("avail-ticks", after - before);
            Some(format!("n={} t={} out={}", after - before, after, outs.join("/")))
        }
        _ => None,
    };
    if let (Some(a), Some(i)) = (&ans, inst.as_ref()) {
        let _ = i;
        for seg in a.split(['|', '/', '=', ' ']) {
            if let Some((tap, vals)) = seg.split_once(':') {
                if tap.parse::<usize>().is_ok_and(|t| t >= 100) && vals.split(',').count() > 1 {
                    rec.count("loop-multi-iteration-tick");
                }
            }
        }
    }
    rec.line(line, &ans.unwrap_or_else(|| "bad-op".into()));
}

fn prog_index(tag: &str) -> Option<usize> {
    let dsl = tag.split(' ').find_map(|w| w.strip_prefix("prog="))?;
    C26_PROGS.iter().position(|p| p.0 == dsl)
}

fn gen_vals(rng: &mut Rng) -> String {
    let n = rng.range(1, 4);
    (0..n).map(|_| rng.below(6).to_string()).collect::<Vec<_>>().join(",")
}

fn stateful(dsl: &str) -> bool {
    dsl.split(',').any(|t| t.len() >= 2 && "UEFRG".contains(&t[..1]))
}

/// the op lines of one generated case for a loop program (without the closing `avail`)
pub fn gen_lines(rec: &mut Recorder, rng: &mut Rng, dsl: &str) -> Vec<String> {
    let uses2 = dsl.contains(",X,") || dsl.contains(",Z,");
    let mut ls = Vec::new();
    if stateful(dsl) {
        // at least three ticks that each see fresh input: 'tick state must restart, 'static state must carry over
        rec.count("stateful-three-fed-ticks");
        for _ in 0..3 {
            ls.push(format!("send {}", gen_vals(rng)));
            ls.push(if rng.chance(1, 3) { "avail".to_string() } else { "tick".to_string() });
        }
    }
    for _ in 0..rng.range(3, 9) {
        let l = match rng.below(10) {
            0..=2 => format!("send {}", gen_vals(rng)),
            3 if uses2 => format!("send2 {}", gen_vals(rng)),
            3..=6 => "tick".to_string(),
            7..=8 => "avail".to_string(),
            _ => {
                if rng.chance(1, 8) {
                    rec.count("malformed");
                    "send x".to_string()
                } else {
                    "tick".to_string()
                }
            }
        };
        ls.push(l);
    }
    ls
}

pub fn main(args: &Args) {
    let mut rec = Recorder::new("loop program driven for at least one tick after data was sent");
    hv_common::quiet_panics();
    if let Some(rp) = &args.replay {
        let mut inst: Option<Inst> = None;
        let mut any = false;
        for l in hv_common::read_lines(rp) {
            if l.starts_with("#case") {
                if any {
                    rec.nontrivial();
                }
                any = true;
                let ws: Vec<&str> = l.splitn(3, ' ').collect();
                let n = ws.get(1).and_then(|x| x.parse().ok()).unwrap_or(0);
                let tag = ws.get(2).copied().unwrap_or("");
                rec.case(n, tag);
                inst = prog_index(tag).map(Inst::new);
            } else {
                exec_line(&mut rec, &mut inst, &l);
            }
        }
        if any {
            rec.nontrivial();
        }
        rec.finish(&args.out);
        return;
    }
    let root = Rng::new(args.seed);
    for n in 0..args.cases.max(C26_PROGS.len() as u64) {
        let mut rng = root.fork(n);
        let idx = (n as usize) % C26_PROGS.len();
        let mut inst = Some(Inst::new(idx));
        rec.case(n, &format!("prog={}", C26_PROGS[idx].0));
        rec.count(&format!("prog-{idx:02}"));
        for l in gen_lines(&mut rec, &mut rng, C26_PROGS[idx].0) {
            exec_line(&mut rec, &mut inst, &l);
        }
        exec_line(&mut rec, &mut inst, "avail");
        rec.nontrivial();
    }
    rec.finish(&args.out);
}
