//! C24 — ticks advance one at a time, deferred data lands in the next tick, run-until-idle.
//!
//! Corpus: pipelines of `programs/c24.txt`, compiled by the real `dfir_syntax!` (see build.rs), driven tick
//! by tick / by `run_available_sync` with values sent into the source channel between calls and — through
//! the program-point hooks of context.rs — at chosen points *inside* a call.
//!
//! ops (one answer line each):
//!   send 1,2,3            tx.send of each value                                   -> ok
//!   tick [k:v,v ...]      run_tick_sync; at visit k (0 rt_swap, 1 rt_call, 2 rt_load) send the values
//!                                                                                  -> t=<current_tick> out=<taps>
//!   avail [k:v,v ...]     run_available_sync; visits 0 ra_store, then rt_swap, rt_call, rt_load, ra_swap per round
//!                                                                                  -> n=<ticks run> t=<current_tick> out=<taps>/<taps>/..
//!   iadd/isub <u64> <i64>, idiff <u64> <u64>, dadd/dsub <i64> <i64>, dneg <i64>    -> value | panic
//! `<taps>` is `tap:v,v|tap:v` (taps ascending, values sorted) or `-`.
//!
//! The lines of `programs/c24.txt` that contain a loop block (`[b … ]`) are programs of the loop language of c26.rs
//! (ticks × loop blocks: `defer_tick[_lazy]` in root-level / nested loops under `run_available_sync`, `'tick` and
//! `'static` operators inside loops over several fed ticks); their cases are run by the engine of c26.rs
//! (ops `send`, `send2`, `tick`, `avail` without injections) and answered by the loop model.
use std::cell::RefCell;
use std::collections::{BTreeMap, BTreeSet};
use std::rc::Rc;

use dfir_rs::scheduled::context::{DfirErased, verif_hooks};
use dfir_rs::scheduled::ticks::{TickDuration, TickInstant};
use hv_common::{Args, Recorder, Rng, catch};

pub type RxStream = dfir_rs::tokio_stream::wrappers::UnboundedReceiverStream<i64>;
pub type Out = Rc<RefCell<Vec<(usize, u64, i64)>>>;

include!(concat!(env!("OUT_DIR"), "/c24_progs.rs"));

struct Inst {
    dsl: String,
    df: DfirErased,
    tx: dfir_rs::tokio::sync::mpsc::UnboundedSender<i64>,
    out: Out,
    /// per tap, per tick: values recorded (whole history, for the oracles)
    hist: BTreeMap<(usize, u64), Vec<i64>>,
}

fn parse_vals(s: &str) -> Option<Vec<i64>> {
    if s.is_empty() {
        return None;
    }
    s.split(',').map(|p| p.parse().ok()).collect()
}
fn parse_inj(ws: &[&str]) -> Option<BTreeMap<usize, Vec<i64>>> {
    let mut m = BTreeMap::new();
    for w in ws {
        let (k, v) = w.split_once(':')?;
        let k: usize = k.parse().ok()?;
        if m.insert(k, parse_vals(v)?).is_some() {
            return None;
        }
    }
    Some(m)
}

fn show_taps(recs: &[(usize, i64)]) -> String {
    let mut m: BTreeMap<usize, Vec<i64>> = BTreeMap::new();
    for &(t, v) in recs {
        m.entry(t).or_default().push(v);
    }
    if m.is_empty() {
        return "-".into();
    }
    m.into_iter()
        .map(|(t, mut vs)| {
            vs.sort();
            format!("{}:{}", t, vs.iter().map(|v| v.to_string()).collect::<Vec<_>>().join(","))
        })
        .collect::<Vec<_>>()
        .join("|")
}

impl Inst {
    fn new(idx: usize) -> Inst {
        let (dsl, f) = C24_PROGS[idx];
        let (tx, rx) = dfir_rs::util::unbounded_channel::<i64>();
        let out: Out = Rc::new(RefCell::new(Vec::new()));
        let df = f(rx, out.clone());
        Inst { dsl: dsl.to_string(), df, tx, out, hist: BTreeMap::new() }
    }

    /// runs `f` with the injection plan armed on the program-point hook; returns (#rt_call visits, points seen)
    fn with_hook(&mut self, inj: BTreeMap<usize, Vec<i64>>, f: impl FnOnce(&mut DfirErased)) -> (u64, Vec<&'static str>) {
        let st = Rc::new(RefCell::new((0usize, 0u64, Vec::<&'static str>::new())));
        {
            let st2 = st.clone();
            let tx = self.tx.clone();
            verif_hooks::set_point_hook(Some(Box::new(move |name| {
                if name.starts_with("wake_") {
                    return;
                }
                let k = {
                    let mut s = st2.borrow_mut();
                    let k = s.0;
                    s.0 += 1;
                    if name == "rt_call" {
                        s.1 += 1;
                        if s.1 > 3000 {
                            panic!("runaway run_available");
                        }
                    }
                    s.2.push(name);
                    k
                };
                if let Some(vs) = inj.get(&k) {
                    for &v in vs {
                        let _ = tx.send(v);
                    }
                }
            })));
        }
        let df = &mut self.df;
        let r = catch(std::panic::AssertUnwindSafe(|| f(df)));
        verif_hooks::set_point_hook(None);
        let s = st.borrow();
        (if r.is_err() { u64::MAX } else { s.1 }, s.2.clone())
    }

    /// moves the tap records of ticks `from..to` into the history and renders them per tick
    fn collect(&mut self, from: u64, to: u64) -> Vec<String> {
        let recs: Vec<(usize, u64, i64)> = self.out.borrow_mut().drain(..).collect();
        let mut per_tick = Vec::new();
        for t in from..to {
            let rs: Vec<(usize, i64)> = recs.iter().filter(|r| r.1 == t).map(|r| (r.0, r.2)).collect();
            per_tick.push(show_taps(&rs));
        }
        for (tap, t, v) in recs {
            self.hist.entry((tap, t)).or_default().push(v);
        }
        per_tick
    }

    fn at(&self, tap: usize, t: u64) -> Vec<i64> {
        let mut v = self.hist.get(&(tap, t)).cloned().unwrap_or_default();
        v.sort();
        v
    }

    /// property oracles over ticks `from..to` (independent of the Lean model): read off adjacent taps
    fn oracles(&self, rec: &mut Recorder, from: u64, to: u64, last_of_avail: bool) {
        let stages: Vec<&str> = self.dsl.split(',').collect();
        let tap_of = |s: &str| -> Option<usize> { s.strip_prefix('T').and_then(|a| a.parse().ok()) };
        for w in stages.windows(3) {
            let (Some(a), Some(b)) = (tap_of(w[0]), tap_of(w[2])) else { continue };
            for t in from..to {
                match w[1] {
                    "D" | "L" => {
                        // what entered the delay in tick t-1 leaves it in tick t, nothing else does
                        let expect = if t == 0 { vec![] } else { self.at(a, t - 1) };
                        let got = self.at(b, t);
                        let sig = if w[1] == "D" { "defer_tick-not-exactly-next-tick" } else { "defer_tick_lazy-not-exactly-next-tick" };
                        rec.check(got == expect, sig, &format!("prog={} tick={} entered at tick-1: {:?} left: {:?}", self.dsl, t, expect, got));
                    }
                    "Ut" => {
                        let expect: Vec<i64> = self.at(a, t).into_iter().collect::<BTreeSet<_>>().into_iter().collect();
                        rec.check(self.at(b, t) == expect, "unique-tick-state-not-cleared", &format!("prog={} tick={}", self.dsl, t));
                    }
                    "Us" => {
                        let mut earlier = BTreeSet::new();
                        for u in 0..t {
                            earlier.extend(self.at(a, u));
                        }
                        let expect: Vec<i64> =
                            self.at(a, t).into_iter().collect::<BTreeSet<_>>().into_iter().filter(|x| !earlier.contains(x)).collect();
                        rec.check(self.at(b, t) == expect, "unique-static-state-not-kept", &format!("prog={} tick={}", self.dsl, t));
                    }
                    _ => {}
                }
            }
        }
        for w in stages.windows(2) {
            let Some(a) = tap_of(w[0]) else { continue };
            if let Some(rest) = w[1].strip_prefix('F') {
                let (p, tap) = rest.split_at(1);
                let tap: usize = tap.parse().unwrap();
                for t in from..to {
                    let expect: i64 = if p == "t" { self.at(a, t).iter().sum() } else { (0..=t).map(|u| self.at(a, u).iter().sum::<i64>()).sum() };
                    let sig = if p == "t" { "fold-tick-state-not-cleared" } else { "fold-static-state-not-kept" };
                    rec.check(self.at(tap, t) == vec![expect], sig, &format!("prog={} tick={} expect {}", self.dsl, t, expect));
                }
            }
            if w[1] == "D" && last_of_avail && to > from {
                // run-until-idle stopped although data entered a non-lazy defer_tick in its last tick
                rec.check(
                    self.at(a, to - 1).is_empty(),
                    "run_available-stopped-with-non-lazy-deferred-data",
                    &format!("prog={} last tick={} entered defer_tick: {:?}", self.dsl, to - 1, self.at(a, to - 1)),
                );
            }
        }
    }
}

fn show_res<T: std::fmt::Display>(r: Result<T, String>) -> String {
    match r {
        Ok(v) => v.to_string(),
        Err(_) => "panic".into(),
    }
}

fn arith(rec: &mut Recorder, ws: &[&str]) -> Option<String> {
    let u = |s: &str| s.parse::<u64>().ok();
    let i = |s: &str| s.parse::<i64>().ok();
    const U: i128 = u64::MAX as i128;
    const IMIN: i128 = i64::MIN as i128;
    const IMAX: i128 = i64::MAX as i128;
    let fit_u = |x: i128| if (0..=U).contains(&x) { x.to_string() } else { "panic".to_string() };
    let fit_i = |x: i128| if (IMIN..=IMAX).contains(&x) { x.to_string() } else { "panic".to_string() };
    let (got, want, sig) = match ws {
        ["iadd", a, d] => {
            let (a, d) = (u(a)?, i(d)?);
            (show_res(catch(move || (TickInstant(a) + TickDuration::new(d)).0)), fit_u(a as i128 + d as i128), "tick-instant-add-inexact")
        }
        ["isub", a, d] => {
            let (a, d) = (u(a)?, i(d)?);
            (show_res(catch(move || (TickInstant(a) - TickDuration::new(d)).0)), fit_u(a as i128 - d as i128), "tick-instant-sub-duration-inexact")
        }
        ["idiff", a, b] => {
            let (a, b) = (u(a)?, u(b)?);
            (show_res(catch(move || (TickInstant(a) - TickInstant(b)).ticks)), fit_i(a as i128 - b as i128), "tick-instant-difference-inexact")
        }
        ["dadd", a, b] => {
            let (a, b) = (i(a)?, i(b)?);
            (show_res(catch(move || (TickDuration::new(a) + TickDuration::new(b)).ticks)), fit_i(a as i128 + b as i128), "tick-duration-add-inexact")
        }
        ["dsub", a, b] => {
            let (a, b) = (i(a)?, i(b)?);
            (show_res(catch(move || (TickDuration::new(a) - TickDuration::new(b)).ticks)), fit_i(a as i128 - b as i128), "tick-duration-sub-inexact")
        }
        ["dneg", a] => {
            let a = i(a)?;
            (show_res(catch(move || (-TickDuration::new(a)).ticks)), fit_i(-(a as i128)), "tick-duration-neg-inexact")
        }
        _ => return None,
    };
    rec.check(got == want, sig, &format!("{} -> {} expected {}", ws.join(" "), got, want));
    rec.count(ws[0]);
    Some(got)
}

/// a case runs either a flat pipeline (this file) or a loop program (engine of c26.rs)
enum Any {
    Flat(Option<Inst>),
    Loop(Option<crate::c26::Inst>),
}

fn exec_any(rec: &mut Recorder, inst: &mut Any, line: &str) {
    match inst {
        Any::Flat(i) => exec_line(rec, i, line),
        Any::Loop(i) => crate::c26::exec_line(rec, i, line),
    }
}

fn exec_line(rec: &mut Recorder, inst: &mut Option<Inst>, line: &str) {
    let ws: Vec<&str> = line.split(' ').collect();
    let ans: Option<String> = match ws[0] {
        "send" if ws.len() == 2 => match (inst.as_mut(), parse_vals(ws[1])) {
            (Some(i), Some(vs)) => {
                for v in vs {
                    let _ = i.tx.send(v);
                }
                rec.count("send");
                Some("ok".into())
            }
            _ => None,
        },
        "tick" => match (inst.as_mut(), parse_inj(&ws[1..])) {
            (Some(i), Some(inj)) if inj.keys().all(|&k| k < 3) => {
                let before: u64 = i.df.current_tick().into();
                let (calls, _) = i.with_hook(inj, |df| {
                    df.run_tick_sync();
                });
                if calls == u64::MAX {
                    rec.check(false, "tick-panicked", &format!("prog={}", i.dsl));
                    rec.line(line, "panic");
                    *inst = None;
                    return;
                }
                let after: u64 = i.df.current_tick().into();
                let outs = i.collect(before, after);
                rec.check(after == before + 1 && calls == 1, "tick-counter-not-plus-one", &format!("prog={} before={} after={} closure calls={}", i.dsl, before, after, calls));
                i.oracles(rec, before, after, false);
                rec.count("tick");
                Some(format!("t={} out={}", after, outs.join("/")))
            }
            _ => None,
        },
        "avail" => match (inst.as_mut(), parse_inj(&ws[1..])) {
            (Some(i), Some(inj)) => {
                let before: u64 = i.df.current_tick().into();
                // a send at/after `rt_call` of the first round (visit >= 2) is an external wake-up after the flag was cleared
                let injected_late = inj.keys().any(|&k| k >= 2);
                let (calls, _) = i.with_hook(inj, |df| {
                    df.run_available_sync();
                });
                if calls == u64::MAX {
                    rec.check(false, "run_available-does-not-become-idle", &format!("prog={} more than 3000 ticks", i.dsl));
                    rec.line(line, "runaway");
                    *inst = None;
                    return;
                }
                let after: u64 = i.df.current_tick().into();
                let outs = i.collect(before, after);
                rec.check(after == before + calls && calls >= 1, "tick-counter-not-plus-one", &format!("prog={} before={} after={} closure calls={}", i.dsl, before, after, calls));
                i.oracles(rec, before, after, true);
                if !injected_late && !i.dsl.split(',').any(|st| st == "D" || st.starts_with('C')) {
                    // only lazy delays and no external wake-up after the flag was cleared: exactly one tick
                    rec.check(calls == 1, "run_available-ticked-again-on-lazy-data-alone", &format!("prog={} ticks run={}", i.dsl, calls));
                }
                rec.count("avail");
                rec.count_n("avail-ticks", calls);
                if calls > 1 {
                    rec.count("avail-multi-tick");
                }
                Some(format!("n={} t={} out={}", calls, after, outs.join("/")))
            }
            _ => None,
        },
        _ => arith(rec, &ws),
    };
    rec.line(line, &ans.unwrap_or_else(|| "bad-op".into()));
}

fn inst_of_tag(tag: &str) -> Any {
    let Some(dsl) = tag.split(' ').find_map(|w| w.strip_prefix("prog=")) else { return Any::Flat(None) };
    if let Some(p) = C24L_PROGS.iter().find(|p| p.0 == dsl) {
        return Any::Loop(Some(crate::c26::Inst::build(p.0, p.1)));
    }
    Any::Flat(C24_PROGS.iter().position(|p| p.0 == dsl).map(Inst::new))
}

fn gen_vals(rng: &mut Rng) -> String {
    let n = rng.range(1, 4);
    (0..n).map(|_| rng.below(7).to_string()).collect::<Vec<_>>().join(",")
}
fn gen_inj(rng: &mut Rng, max_visit: u64) -> String {
    let mut ks = BTreeSet::new();
    for _ in 0..rng.below(3) {
        ks.insert(rng.below(max_visit));
    }
    ks.into_iter().map(|k| format!(" {}:{}", k, gen_vals(rng))).collect()
}

const EDGE_U: [u64; 9] = [0, 1, 2, (1 << 63) - 1, 1 << 63, (1 << 63) + 1, u64::MAX - 1, u64::MAX, 12345];
const EDGE_I: [i64; 9] = [0, 1, -1, i64::MAX, i64::MIN, i64::MAX - 1, i64::MIN + 1, 2, -12345];

pub fn main(args: &Args) {
    let mut rec = Recorder::new("program case with at least one tick/avail after data was sent, or an arithmetic case");
    quiet();
    if let Some(rp) = &args.replay {
        let mut inst = Any::Flat(None);
        let mut nt = false;
        for l in hv_common::read_lines(rp) {
            if l.starts_with("#case") {
                if nt {
                    rec.nontrivial();
                }
                nt = true;
                let ws: Vec<&str> = l.splitn(3, ' ').collect();
                let n = ws.get(1).and_then(|x| x.parse().ok()).unwrap_or(0);
                let tag = ws.get(2).copied().unwrap_or("");
                rec.case(n, tag);
                inst = inst_of_tag(tag);
            } else {
                exec_any(&mut rec, &mut inst, &l);
            }
        }
        if nt {
            rec.nontrivial();
        }
        rec.finish(&args.out);
        return;
    }
    let root = Rng::new(args.seed);
    let mut n = 0u64;
    // arithmetic: all boundary pairs first (exhaustive over the edge tables), then random
    let arith_cases = (args.cases / 5).max(12);
    let mut edge_lines = Vec::new();
    for &a in &EDGE_U {
        for &d in &EDGE_I {
            edge_lines.push(format!("iadd {a} {d}"));
            edge_lines.push(format!("isub {a} {d}"));
        }
        for &b in &EDGE_U {
            edge_lines.push(format!("idiff {a} {b}"));
        }
    }
    for &a in &EDGE_I {
        for &b in &EDGE_I {
            edge_lines.push(format!("dadd {a} {b}"));
            edge_lines.push(format!("dsub {a} {b}"));
        }
        edge_lines.push(format!("dneg {a}"));
    }
    let per = edge_lines.len().div_ceil(arith_cases as usize / 2 + 1).max(1);
    for chunk in edge_lines.chunks(per) {
        rec.case(n, "arith edge");
        for l in chunk {
            exec_line(&mut rec, &mut None, l);
        }
        rec.nontrivial();
        n += 1;
    }
    let arith_end = n + arith_cases / 2;
    while n < arith_end {
        let mut rng = root.fork(n);
        rec.case(n, "arith rnd");
        for _ in 0..12 {
            let ru = |rng: &mut Rng| match rng.below(4) {
                0 => *rng.pick(&EDGE_U),
                1 => rng.next_u64(),
                2 => (1u64 << 63).wrapping_add(rng.below(1000)).wrapping_sub(500),
                _ => rng.below(1000),
            };
            let ri = |rng: &mut Rng| match rng.below(4) {
                0 => *rng.pick(&EDGE_I),
                1 => rng.next_u64() as i64,
                2 => i64::MIN.wrapping_add(rng.below(1000) as i64),
                _ => rng.below(1000) as i64 - 500,
            };
            let l = match rng.below(6) {
                0 => format!("iadd {} {}", ru(&mut rng), ri(&mut rng)),
                1 => format!("isub {} {}", ru(&mut rng), ri(&mut rng)),
                2 => format!("idiff {} {}", ru(&mut rng), ru(&mut rng)),
                3 => format!("dadd {} {}", ri(&mut rng), ri(&mut rng)),
                4 => format!("dsub {} {}", ri(&mut rng), ri(&mut rng)),
                _ => format!("dneg {}", ri(&mut rng)),
            };
            exec_line(&mut rec, &mut None, &l);
        }
        rec.nontrivial();
        n += 1;
    }
    // programs
    let nprogs = C24_PROGS.len() + C24L_PROGS.len();
    while n < args.cases.max(arith_end + nprogs as u64) {
        let mut rng = root.fork(n);
        let idx = (n as usize) % nprogs;
        if idx >= C24_PROGS.len() {
            // a loop program: ticks × loop blocks
            let (dsl, f) = C24L_PROGS[idx - C24_PROGS.len()];
            let mut inst = Some(crate::c26::Inst::build(dsl, f));
            rec.case(n, &format!("prog={dsl}"));
            rec.count(&format!("loopprog-{:02}", idx - C24_PROGS.len()));
            for l in crate::c26::gen_lines(&mut rec, &mut rng, dsl) {
                crate::c26::exec_line(&mut rec, &mut inst, &l);
            }
            crate::c26::exec_line(&mut rec, &mut inst, "avail");
            rec.nontrivial();
            n += 1;
            continue;
        }
        let mut inst = Some(Inst::new(idx));
        rec.case(n, &format!("prog={}", C24_PROGS[idx].0));
        rec.count(&format!("prog-{idx:02}"));
        let len = rng.range(3, 10);
        for _ in 0..len {
            let l = match rng.below(10) {
                0..=2 => format!("send {}", gen_vals(&mut rng)),
                3..=5 => format!("tick{}", gen_inj(&mut rng, 3)),
                6..=8 => format!("avail{}", gen_inj(&mut rng, 10)),
                _ => {
                    if rng.chance(1, 6) {
                        rec.count("malformed");
                        "tick 7:1".to_string()
                    } else {
                        "avail".to_string()
                    }
                }
            };
            exec_line(&mut rec, &mut inst, &l);
        }
        exec_line(&mut rec, &mut inst, "avail");
        rec.nontrivial();
        n += 1;
    }
    rec.finish(&args.out);
}

fn quiet() {
    hv_common::quiet_panics();
}
