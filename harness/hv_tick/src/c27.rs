//! C27 — a running dataflow never misses an external wake-up.
//!
//! Runs the real `Dfir::run` future (dfir_rs/src/scheduled/context.rs) on this thread with a manual task
//! waker.  The cfg-guarded `verif_hooks::point(..)` calls in context.rs call back into the harness just
//! before every atomic access of the runner; at each such visit the harness injects what the plan says:
//!   W  a complete `wake_by_ref` (through the real `Context::waker()`),
//!   S  only its first half (`can_start_tick.store(true)`),
//!   N  only its second half (`task_waker.wake()`) of an earlier S
//! — i.e. every sequentially consistent interleaving of wakers with the runner can be scripted.
//!
//! Transcript: one `v <acts>` line per visited point; the implementation answers
//! `<point> t=<ticks started> f=<can_start_tick> n=<task woken>`; `end` answers where the runner rests.
//! Property oracle (independent of the model): every injected wake (W or S) is followed by the start of
//! a tick before the runner comes to rest.
use std::cell::RefCell;
use std::future::Future;
use std::rc::Rc;
use std::sync::Arc;
use std::sync::atomic::{AtomicBool, Ordering};
use std::task::{Context as TaskCx, Wake, Waker};

use dfir_rs::scheduled::context::{Context, Dfir, WakeState, verif_hooks};
use hv_common::{Args, Recorder, Rng};

struct TaskWaker(AtomicBool);
impl Wake for TaskWaker {
    fn wake(self: Arc<Self>) {
        self.0.store(true, Ordering::SeqCst);
    }
    fn wake_by_ref(self: &Arc<Self>) {
        self.0.store(true, Ordering::SeqCst);
    }
}

const VISIT_CAP: usize = 600;

struct Run {
    plan: Vec<String>,
    visits: usize,
    lines: Vec<(String, String)>,
    ticks: u64,
    outstanding: u32,
    /// (visit index, point name) of wakes not yet followed by a tick start
    owed: Vec<(usize, String)>,
    last_point: &'static str,
    ws: Arc<WakeState>,
    ext_waker: Waker,
    task: Arc<TaskWaker>,
    injected: u64,
    bad: bool,
}

impl Run {
    fn visit(&mut self, name: &'static str) {
        if self.visits >= VISIT_CAP || self.bad {
            return;
        }
        let k = self.visits;
        self.visits += 1;
        self.last_point = name;
        let acts: String = if k < self.plan.len() {
            self.plan[k].clone()
        } else if self.outstanding > 0 {
            "N".repeat(self.outstanding as usize)
        } else {
            "-".to_string()
        };
        if name == "in_tick" {
            // the tick closure has been entered: a tick started after every wake injected so far
            self.ticks += 1;
            self.owed.clear();
        }
        let ok = acts == "-" || (!acts.is_empty() && acts.chars().all(|c| matches!(c, 'W' | 'S' | 'N')));
        let out = if ok {
            format!(
                "{} t={} f={} n={}",
                name,
                self.ticks,
                self.ws.verif_flag() as u8,
                self.task.0.load(Ordering::SeqCst) as u8
            )
        } else {
            self.bad = true;
            "bad-op".to_string()
        };
        self.lines.push((format!("v {acts}"), out));
        if !ok {
            return;
        }
        for c in acts.chars() {
            match c {
                'W' => {
                    self.ext_waker.wake_by_ref();
                    self.owed.push((k, name.to_string()));
                    self.injected += 1;
                }
                'S' => {
                    self.ws.verif_store_only();
                    self.outstanding += 1;
                    self.owed.push((k, name.to_string()));
                    self.injected += 1;
                }
                'N' => {
                    if self.outstanding > 0 {
                        self.ws.verif_notify_only();
                        self.outstanding -= 1;
                    }
                }
                _ => {}
            }
        }
    }
}

/// Runs one plan against the real runner.
fn run_plan(rec: &mut Recorder, plan: Vec<String>) {
    let ws = Arc::new(WakeState::default());
    let ctx = Context::new(ws.clone(), Rc::new(Default::default()));
    let ext_waker = ctx.waker();
    let task = Arc::new(TaskWaker(AtomicBool::new(false)));
    let run = Rc::new(RefCell::new(Run {
        plan,
        visits: 0,
        lines: Vec::new(),
        ticks: 0,
        outstanding: 0,
        owed: Vec::new(),
        last_point: "",
        ws: ws.clone(),
        ext_waker,
        task: task.clone(),
        injected: 0,
        bad: false,
    }));
    let tick = async |ctx: &mut Context| -> bool {
        verif_hooks::point("in_tick");
        ctx.__end_tick();
        false
    };
    let mut df = Dfir::new(tick, ctx, None, None);
    // the two program points inside `wake_by_ref` itself are traced separately (they fire while the
    // harness injects a complete wake from a harness-level point, i.e. while `run` is borrowed)
    let wake_trace: Rc<RefCell<Vec<(&'static str, bool)>>> = Rc::new(RefCell::new(Vec::new()));
    {
        let run2 = run.clone();
        let wt = wake_trace.clone();
        let ws2 = ws.clone();
        verif_hooks::set_point_hook(Some(Box::new(move |name| {
            if name.starts_with("wake_") {
                wt.borrow_mut().push((name, ws2.verif_flag()));
            } else {
                run2.borrow_mut().visit(name)
            }
        })));
    }
    let waker = Waker::from(task.clone());
    let mut cx = TaskCx::from_waker(&waker);
    let mut rest = "budget";
    {
        let mut fut = std::pin::pin!(df.run());
        'outer: loop {
            let _ = fut.as_mut().poll(&mut cx);
            let susp: &'static str = match run.borrow().last_point {
                "ra_yield" => "yielded",
                "idle_load" => "parked",
                _ => "suspended-elsewhere",
            };
            loop {
                if run.borrow().visits >= VISIT_CAP || run.borrow().bad {
                    break 'outer;
                }
                {
                    let mut r = run.borrow_mut();
                    let (v, pl, outst) = (r.visits, r.plan.len(), r.outstanding);
                    if v >= pl && outst == 0 && !task.0.load(Ordering::SeqCst) {
                        rest = susp;
                        break 'outer;
                    }
                    r.visit(susp);
                    r.last_point = if susp == "yielded" { "ra_yield" } else { "idle_load" };
                }
                if task.0.swap(false, Ordering::SeqCst) {
                    break;
                }
            }
        }
    }
    verif_hooks::set_point_hook(None);
    let r = run.borrow();
    for (op, out) in &r.lines {
        rec.line(op, out);
    }
    if r.bad {
        return;
    }
    let ct: u64 = df.current_tick().into();
    rec.line("end", &format!("end pc={} t={} ct={}", rest, r.ticks, ct));
    rec.check(rest != "budget", "runner-did-not-come-to-rest", &format!("visits={}", r.visits));
    if rest != "budget" {
        let sig = match r.owed.first() {
            Some((_, p)) => format!("wake-not-followed-by-tick@{p}"),
            None => "wake-not-followed-by-tick".to_string(),
        };
        rec.check(
            r.owed.is_empty(),
            &sig,
            &format!("wakes injected at visits {:?} saw no later tick start; runner rests at {} after {} ticks", r.owed, rest, r.ticks),
        );
        rec.check(ct == r.ticks, "tick-counter-differs-from-ticks-run", &format!("current_tick={} closure calls={}", ct, r.ticks));
    }
    // order of the two halves inside the real wake_by_ref: store first, so the flag is set when the task is notified
    let wt = wake_trace.borrow();
    let mut order_ok = wt.len() % 2 == 0;
    for pair in wt.chunks(2) {
        order_ok &= pair.len() == 2 && pair[0].0 == "wake_store" && pair[1].0 == "wake_notify" && pair[1].1;
    }
    rec.check(order_ok, "wake-notifies-before-store", &format!("{:?}", &wt[..wt.len().min(6)]));
    if !wt.is_empty() {
        rec.count_n("wake-halves-traced", wt.len() as u64);
    }
    if r.injected > 0 {
        rec.count_n("wakes-injected", r.injected);
    }
}

fn plan_from(len: usize, places: &[(usize, &str)]) -> Vec<String> {
    let mut p = vec![String::new(); len];
    for &(i, a) in places {
        p[i].push_str(a);
    }
    p.into_iter().map(|s| if s.is_empty() { "-".to_string() } else { s }).collect()
}

/// bounded-exhaustive placements over the first `span` visits (two full turns of the runner loop)
fn exhaustive(span: usize) -> Vec<(String, Vec<String>)> {
    let mut out = Vec::new();
    out.push(("none".to_string(), plan_from(1, &[])));
    for i in 0..span {
        out.push((format!("W@{i}"), plan_from(span, &[(i, "W")])));
    }
    for i in 0..span {
        for j in i..span {
            out.push((format!("W@{i},W@{j}"), plan_from(span, &[(i, "W"), (j, "W")])));
        }
    }
    for i in 0..span {
        for j in i..(i + 14).min(span + 13) {
            out.push((format!("S@{i},N@{j}"), plan_from(span + 14, &[(i, "S"), (j, "N")])));
        }
    }
    out
}

pub fn main(args: &Args) {
    let mut rec = Recorder::new("at least one wake (W or S) injected at a runner program point");
    if let Some(rp) = &args.replay {
        let lines = hv_common::read_lines(rp);
        let mut cur: Option<(u64, String, Vec<String>)> = None;
        let flush = |rec: &mut Recorder, cur: &mut Option<(u64, String, Vec<String>)>| {
            if let Some((n, tag, plan)) = cur.take() {
                rec.case(n, &tag);
                let nt = plan.iter().any(|a| a != "-");
                run_plan(rec, plan);
                if nt {
                    rec.nontrivial();
                }
            }
        };
        for l in lines {
            let ws: Vec<&str> = l.split(' ').collect();
            match ws[0] {
                "#case" => {
                    flush(&mut rec, &mut cur);
                    let n = ws.get(1).and_then(|x| x.parse().ok()).unwrap_or(0);
                    cur = Some((n, ws[2.min(ws.len())..].join(" "), Vec::new()));
                }
                "v" => {
                    if cur.is_none() {
                        cur = Some((0, String::new(), Vec::new()));
                    }
                    cur.as_mut().unwrap().2.push(ws.get(1).unwrap_or(&"").to_string());
                }
                _ => {}
            }
        }
        flush(&mut rec, &mut cur);
        rec.finish(&args.out);
        return;
    }
    let span = if args.tier == "thorough" { 40 } else { 26 };
    let ex = exhaustive(span);
    let mut n = 0u64;
    let root = Rng::new(args.seed);
    // spread the exhaustive family so that a capped run still sees every kind
    let stride = if (ex.len() as u64) > args.cases * 3 / 4 { (ex.len() as u64 * 4).div_ceil(args.cases.max(1) * 3) } else { 1 };
    let offset = root.fork(0xC27).below(stride);
    for (idx, (tag, plan)) in ex.into_iter().enumerate() {
        if (idx as u64) % stride != offset && idx > span {
            continue;
        }
        if n >= args.cases {
            break;
        }
        rec.case(n, &format!("ex {tag}"));
        let nt = plan.iter().any(|a| a != "-");
        rec.count("exhaustive");
        run_plan(&mut rec, plan);
        if nt {
            rec.nontrivial();
        }
        n += 1;
    }
    // seeded random plans: several wakers in flight, clustered around the idle window
    while n < args.cases {
        let mut rng = root.fork(n);
        let len = rng.range(8, 70) as usize;
        let mut plan = vec![String::new(); len];
        let k = rng.range(1, 6);
        for _ in 0..k {
            let i = rng.below(len as u64) as usize;
            match rng.below(3) {
                0 => plan[i].push('W'),
                _ => {
                    plan[i].push('S');
                    let j = (i + rng.below(16) as usize).min(len - 1);
                    plan[j].push('N');
                }
            }
        }
        if rng.chance(1, 60) {
            let i = rng.below(len as u64) as usize;
            plan[i] = "X".to_string();
            rec.count("malformed");
        }
        let plan: Vec<String> = plan.into_iter().map(|s| if s.is_empty() { "-".to_string() } else { s }).collect();
        rec.case(n, "rnd");
        rec.count("random");
        run_plan(&mut rec, plan);
        rec.nontrivial();
        n += 1;
    }
    rec.finish(&args.out);
}
