//! Generates the `dfir_syntax!` corpus programs (compiled by the real proc macro) from `programs/*.txt`.
use std::fmt::Write as _;
use std::{env, fs, path::PathBuf};

fn c24_program(idx: usize, dsl: &str, o: &mut String) {
    let stages: Vec<&str> = dsl.split(',').collect();
    writeln!(o, "pub fn c24_prog_{idx}(rx: RxStream, out: Out) -> DfirErased {{").unwrap();
    for (k, _) in stages.iter().enumerate() {
        writeln!(o, "    #[allow(unused_variables)] let out{k} = out.clone();").unwrap();
    }
    writeln!(o, "    let df = dfir_rs::dfir_syntax! {{").unwrap();
    writeln!(o, "        s0 = source_stream(rx);").unwrap();
    let mut terminated = false;
    for (k, st) in stages.iter().enumerate() {
        let prev = format!("s{k}");
        let next = format!("s{}", k + 1);
        let (kind, arg) = st.split_at(1);
        match kind {
            "D" => writeln!(o, "        {next} = {prev} -> defer_tick();").unwrap(),
            "L" => writeln!(o, "        {next} = {prev} -> defer_tick_lazy();").unwrap(),
            "M" => writeln!(o, "        {next} = {prev} -> map(|x: i64| x + {arg});").unwrap(),
            "U" => {
                let p = if arg == "s" { "'static" } else { "'tick" };
                writeln!(o, "        {next} = {prev} -> unique::<{p}>();").unwrap()
            }
            "T" => writeln!(
                o,
                "        {next} = {prev} -> inspect(|x: &i64| out{k}.borrow_mut().push(({arg}usize, context.current_tick().0, *x)));"
            )
            .unwrap(),
            "C" | "K" => {
                let d = if kind == "C" { "defer_tick" } else { "defer_tick_lazy" };
                writeln!(o, "        u{k} = union();").unwrap();
                writeln!(o, "        {prev} -> u{k};").unwrap();
                writeln!(o, "        t{k} = u{k} -> tee();").unwrap();
                writeln!(o, "        t{k} -> filter(|x: &i64| *x < {arg}) -> map(|x: i64| x + 1) -> {d}() -> u{k};").unwrap();
                writeln!(o, "        {next} = t{k} -> identity();").unwrap();
            }
            "F" => {
                let (p, tap) = arg.split_at(1);
                let p = if p == "s" { "'static" } else { "'tick" };
                writeln!(
                    o,
                    "        {prev} -> fold::<{p}>(|| 0i64, |a: &mut i64, x: i64| *a += x) -> for_each(|s: i64| out{k}.borrow_mut().push(({tap}usize, context.current_tick().0, s)));"
                )
                .unwrap();
                terminated = true;
            }
            _ => panic!("bad stage {st}"),
        }
    }
    if !terminated {
        writeln!(o, "        s{} -> for_each(|_x: i64| {{}});", stages.len()).unwrap();
    }
    writeln!(o, "    }};").unwrap();
    writeln!(o, "    df.into_erased()").unwrap();
    writeln!(o, "}}").unwrap();
}

/// loop language (C26, and the lines of c24.txt that contain a loop): C24 stages + loop blocks + stateful operators
///  Us/Ut unique, Es/Et enumerate (inline);  Fs<i>/Ft<i> fold, Rs<i>/Rt<i> reduce, Gs<i>/Gt<i> fold_keyed (key x % 2) on a
///  tee branch recorded at tap i (fold_keyed as k * 100000 + sum); the pipeline continues from the tee
fn c26_program(prefix: &str, idx: usize, dsl: &str, o: &mut String) {
    let toks: Vec<&str> = dsl.split(',').collect();
    writeln!(o, "pub fn {prefix}_prog_{idx}(rx: RxStream, rx2: RxStream, out: Out) -> DfirErased {{").unwrap();
    for (k, _) in toks.iter().enumerate() {
        writeln!(o, "    #[allow(unused_variables)] let out{k} = out.clone();").unwrap();
    }
    let uses2 = toks.iter().any(|t| *t == "X" || *t == "Z");
    writeln!(o, "    let df = dfir_rs::dfir_syntax! {{").unwrap();
    writeln!(o, "        s0 = source_stream(rx);").unwrap();
    if uses2 {
        writeln!(o, "        src2 = source_stream(rx2);").unwrap();
    }
    let mut cur = "s0".to_string();
    let mut loop_id = 0usize;
    let mut k = 0usize;
    while k < toks.len() {
        let st = toks[k];
        let next = format!("s{}", k + 1);
        let (kind, arg) = st.split_at(1);
        match kind {
            "[" => {
                let w = if arg == "b" { "batch" } else { "batch_lazy" };
                writeln!(o, "        loop {{").unwrap();
                writeln!(o, "        e{k} = {cur} -> {w}();").unwrap();
                let mut inner = format!("e{k}");
                if k + 1 < toks.len() && (toks[k + 1] == "X" || toks[k + 1] == "Z") {
                    let w2 = if toks[k + 1] == "X" { "batch" } else { "batch_lazy" };
                    writeln!(o, "        u{k} = union();").unwrap();
                    writeln!(o, "        e{k} -> u{k};").unwrap();
                    writeln!(o, "        src2 -> {w2}() -> u{k};").unwrap();
                    inner = format!("u{k}");
                    k += 1;
                }
                writeln!(o, "        m{k} = {inner} -> tee();").unwrap();
                writeln!(
                    o,
                    "        m{k} -> fold::<'static>(|| 0u64, |a: &mut u64, _x: i64| *a += 1) -> for_each(|_c: u64| out{k}.borrow_mut().push(({}usize, context.current_tick().0, 1)));",
                    100 + loop_id
                )
                .unwrap();
                loop_id += 1;
                let next = format!("s{}", k + 1);
                writeln!(o, "        {next} = m{k} -> identity();").unwrap();
                cur = next;
            }
            "]" => {
                writeln!(o, "        }};").unwrap();
                writeln!(o, "        {next} = {cur} -> all_iterations();").unwrap();
                cur = next;
            }
            "D" => {
                writeln!(o, "        {next} = {cur} -> defer_tick();").unwrap();
                cur = next;
            }
            "L" => {
                writeln!(o, "        {next} = {cur} -> defer_tick_lazy();").unwrap();
                cur = next;
            }
            "M" => {
                writeln!(o, "        {next} = {cur} -> map(|x: i64| x + {arg});").unwrap();
                cur = next;
            }
            "T" => {
                writeln!(
                    o,
                    "        {next} = {cur} -> inspect(|x: &i64| out{k}.borrow_mut().push(({arg}usize, context.current_tick().0, *x)));"
                )
                .unwrap();
                cur = next;
            }
            "U" | "E" => {
                let p = if arg == "s" { "'static" } else { "'tick" };
                if kind == "U" {
                    writeln!(o, "        {next} = {cur} -> unique::<{p}>();").unwrap();
                } else {
                    writeln!(o, "        {next} = {cur} -> enumerate::<{p}>() -> map(|(i, x): (usize, i64)| x + 100 * (i as i64));").unwrap();
                }
                cur = next;
            }
            "F" | "R" | "G" => {
                let (p, tap) = arg.split_at(1);
                let p = if p == "s" { "'static" } else { "'tick" };
                writeln!(o, "        w{k} = {cur} -> tee();").unwrap();
                let rec = format!("out{k}.borrow_mut().push(({tap}usize, context.current_tick().0, s))");
                match kind {
                    "F" => writeln!(o, "        w{k} -> fold::<{p}>(|| 0i64, |a: &mut i64, x: i64| *a += x) -> for_each(|s: i64| {rec});").unwrap(),
                    "R" => writeln!(o, "        w{k} -> reduce::<{p}>(|a: &mut i64, x: i64| *a += x) -> for_each(|s: i64| {rec});").unwrap(),
                    _ => writeln!(
                        o,
                        "        w{k} -> map(|x: i64| (x % 2, x)) -> fold_keyed::<{p}>(|| 0i64, |a: &mut i64, x: i64| *a += x) -> map(|(k, v): (i64, i64)| k * 100000 + v) -> for_each(|s: i64| {rec});"
                    )
                    .unwrap(),
                }
                writeln!(o, "        {next} = w{k} -> identity();").unwrap();
                cur = next;
            }
            "C" | "K" => {
                let d = if kind == "C" { "defer_tick" } else { "defer_tick_lazy" };
                writeln!(o, "        u{k} = union();").unwrap();
                writeln!(o, "        {cur} -> u{k};").unwrap();
                writeln!(o, "        t{k} = u{k} -> tee();").unwrap();
                writeln!(o, "        t{k} -> filter(|x: &i64| *x < {arg}) -> map(|x: i64| x + 1) -> {d}() -> u{k};").unwrap();
                writeln!(o, "        {next} = t{k} -> identity();").unwrap();
                cur = next;
            }
            _ => panic!("bad stage {st}"),
        }
        k += 1;
    }
    writeln!(o, "        {cur} -> for_each(|_x: i64| {{}});").unwrap();
    writeln!(o, "    }};").unwrap();
    if !uses2 {
        writeln!(o, "    let _ = rx2;").unwrap();
    }
    writeln!(o, "    df.into_erased()").unwrap();
    writeln!(o, "}}").unwrap();
}

fn c25_program(idx: usize, dsl: &str, o: &mut String) {
    let parts: Vec<&str> = dsl.split(';').collect();
    let vec_kind = parts[0] == "V";
    let opt_kind = parts[0] == "O";
    // a closure ending in `!` sends its output into the union that the state's pipe consumer reads (own trigger source)
    let joined = parts.iter().skip(1).any(|c| c.ends_with('!'));
    assert!(parts.iter().skip(1).filter(|c| c.ends_with('!')).count() <= 1, "at most one `!` closure: {dsl}");
    writeln!(o, "pub fn c25_prog_{idx}(rx: RxStream, trig: RxStream, trig2: RxStream, out: Out) -> DfirErased {{").unwrap();
    for (k, _) in parts.iter().enumerate() {
        writeln!(o, "    #[allow(unused_variables)] let out{k} = out.clone();").unwrap();
    }
    if !joined {
        writeln!(o, "    let _ = trig2;").unwrap();
    }
    writeln!(o, "    let df = dfir_rs::dfir_syntax! {{").unwrap();
    if vec_kind {
        writeln!(o, "        st = source_stream(rx) -> handoff();").unwrap();
    } else if opt_kind {
        writeln!(o, "        st = source_stream(rx) -> reduce::<'tick>(|a: &mut i64, x: i64| *a += x) -> optional();").unwrap();
    } else {
        let init = &parts[0][1..];
        writeln!(o, "        st = source_stream(rx) -> fold::<'tick>(|| {init}i64, |a: &mut i64, x: i64| *a += x) -> singleton();").unwrap();
    }
    if joined {
        writeln!(o, "        cons = union() -> for_each(|v: i64| if v != i64::MIN {{ out0.borrow_mut().push((99usize, context.current_tick().0, v)) }});").unwrap();
        writeln!(o, "        st -> [0]cons;").unwrap();
    } else {
        writeln!(o, "        st -> for_each(|v: i64| out0.borrow_mut().push((99usize, context.current_tick().0, v)));").unwrap();
    }
    writeln!(o, "        trg = source_stream(trig) -> tee();").unwrap();
    for (k, c) in parts.iter().enumerate().skip(1) {
        let (c, bang) = match c.strip_suffix('!') {
            Some(c) => (c, true),
            None => (*c, false),
        };
        let (g, op) = c.split_once(':').unwrap();
        let grp = if g == "-" { String::new() } else { format!("{{{g}}} ") };
        let (kind, arg) = op.split_at(1);
        let body = match (kind, vec_kind, opt_kind) {
            ("a", false, false) => format!("*#{grp}mut st += {arg};"),
            ("m", false, false) => format!("*#{grp}mut st *= {arg};"),
            ("r", false, false) => format!("let v: i64 = *#{grp}st; out{k}.borrow_mut().push(({arg}usize, context.current_tick().0, v));"),
            ("a", false, true) => format!("if let Some(v) = (#{grp}mut st).as_mut() {{ *v += {arg}; }}"),
            ("m", false, true) => format!("if let Some(v) = (#{grp}mut st).as_mut() {{ *v *= {arg}; }}"),
            ("r", false, true) => format!("let v: i64 = (#{grp}st).unwrap_or(-1); out{k}.borrow_mut().push(({arg}usize, context.current_tick().0, v));"),
            ("p", true, _) => format!("#{grp}mut st.push({arg}i64);"),
            ("f", true, _) => format!("#{grp}mut st.retain(|y: &i64| *y % {arg} != 0);"),
            ("r", true, _) => format!(
                "let v: i64 = {{ let b = #{grp}st; (b.len() as i64) * 1000 + b.iter().sum::<i64>() }}; out{k}.borrow_mut().push(({arg}usize, context.current_tick().0, v));"
            ),
            _ => panic!("bad closure {c}"),
        };
        if bang {
            writeln!(o, "        source_stream(trig2) -> map(|_x: i64| {{ {body} i64::MIN }}) -> [1]cons;").unwrap();
        } else {
            writeln!(o, "        trg -> map(|x: i64| {{ {body} x }}) -> for_each(|_x: i64| {{}});").unwrap();
        }
    }
    writeln!(o, "    }};").unwrap();
    writeln!(o, "    df.into_erased()").unwrap();
    writeln!(o, "}}").unwrap();
}

fn lines(path: &str) -> Vec<String> {
    println!("cargo:rerun-if-changed={path}");
    fs::read_to_string(path)
        .unwrap_or_default()
        .lines()
        .map(|l| l.trim().to_string())
        .filter(|l| !l.is_empty() && !l.starts_with('#'))
        .collect()
}

fn main() {
    println!("cargo:rerun-if-changed=build.rs");
    let out_dir = PathBuf::from(env::var("OUT_DIR").unwrap());
    let mut o = String::new();
    // c24.txt: flat pipelines (C24 stage language) and, on the lines that contain a loop block, the loop language
    let all = lines("programs/c24.txt");
    let progs: Vec<&String> = all.iter().filter(|l| !l.contains('[')).collect();
    let lprogs: Vec<&String> = all.iter().filter(|l| l.contains('[')).collect();
    for (i, p) in progs.iter().enumerate() {
        c24_program(i, p, &mut o);
    }
    for (i, p) in lprogs.iter().enumerate() {
        c26_program("c24l", i, p, &mut o);
    }
    writeln!(o, "pub static C24_PROGS: &[(&str, fn(RxStream, Out) -> DfirErased)] = &[").unwrap();
    for (i, p) in progs.iter().enumerate() {
        writeln!(o, "    ({p:?}, c24_prog_{i}),").unwrap();
    }
    writeln!(o, "];").unwrap();
    writeln!(o, "pub static C24L_PROGS: &[(&str, fn(RxStream, RxStream, Out) -> DfirErased)] = &[").unwrap();
    for (i, p) in lprogs.iter().enumerate() {
        writeln!(o, "    ({p:?}, c24l_prog_{i}),").unwrap();
    }
    writeln!(o, "];").unwrap();
    fs::write(out_dir.join("c24_progs.rs"), o).unwrap();

    let mut o = String::new();
    let progs = lines("programs/c26.txt");
    for (i, p) in progs.iter().enumerate() {
        c26_program("c26", i, p, &mut o);
    }
    writeln!(o, "pub static C26_PROGS: &[(&str, fn(RxStream, RxStream, Out) -> DfirErased)] = &[").unwrap();
    for (i, p) in progs.iter().enumerate() {
        writeln!(o, "    ({p:?}, c26_prog_{i}),").unwrap();
    }
    writeln!(o, "];").unwrap();
    fs::write(out_dir.join("c26_progs.rs"), o).unwrap();

    let mut o = String::new();
    let progs = lines("programs/c25.txt");
    for (i, p) in progs.iter().enumerate() {
        c25_program(i, p, &mut o);
    }
    writeln!(o, "pub static C25_PROGS: &[(&str, fn(RxStream, RxStream, RxStream, Out) -> DfirErased)] = &[").unwrap();
    for (i, p) in progs.iter().enumerate() {
        writeln!(o, "    ({p:?}, c25_prog_{i}),").unwrap();
    }
    writeln!(o, "];").unwrap();
    fs::write(out_dir.join("c25_progs.rs"), o).unwrap();
}
